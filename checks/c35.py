"""C35 -- cqlengine persists exactly the model state."""
import copy
import datetime
import json
import os

from hypothesis import strategies as st

from spec import cqlinterp, cqlparse, cqlterm
from vlib.harness import hyp_part

PID = "C35"
TITLE = "cqlengine persists exactly the model state"
LEVEL = "exploration"
ENGINE = "cql"
SERIAL = os.environ.get("VERIF_TIER") == "quick"
TECHNIQUE = ("stateful property-based testing (Hypothesis): generated histories of model operations run through cqlengine against a fake "
             "session whose execute() substitutes the parameters like the driver, parses the statement with an independent CQL parser "
             "and applies it to an in-memory interpreter with Cassandra's cell semantics (timestamps, tombstones, row markers, static "
             "columns, multi-cell collections, counters, LWT, batches); after every operation the interpreter's rows are compared with a "
             "reference model of the documented mapper semantics, and rows are read back through cqlengine's own SELECT path")
RULE = ("One case = model flags (clustering column or not, db_field names different from attribute names, a column default, a static map) and "
        "a history of up to 16 steps over keys k in 1..3, c in 0..2 (0 = falsy but valid clustering key): create (values, explicit None, empty collections, static-only rows, "
        "ttl / timestamp / if_not_exists), load through Model.get, attribute assignment and in-place collection mutation followed by "
        "save() or update(**kw) (iff / if_exists / ttl / timestamp), delete, blind instance update, queryset update with scalar "
        "assignment, None, collection assignment and __add/__remove/__append/__prepend/__update/__remove (possibly empty), queryset "
        "delete of a row or a partition, a changed primary key column followed by save (the instance moves to the new row), counter "
        "increments through instances and query sets, and batches of 2-4 of these on distinct "
        "partitions with an optional batch timestamp.  Explicit timestamps are ahead of the server clock and increase along the history.  "
        "Non-trivial: a history with a collection partial update after a save, or a nulling, or a batch touching >= 2 rows, or a "
        "static-only write.")
ASSUMPTIONS = [
    "spec/cqlparse.py + spec/cqlinterp.py stand for Cassandra's DML grammar and storage semantics (see the module docstrings); a statement the "
    "interpreter rejects as invalid is reported as a violation, a statement it does not cover is a harness error, never a silent pass",
    "rows travel back to cqlengine as the driver's decoder would deliver them (spec.values.encode -> cqltypes.from_binary)",
    "reference semantics: create/save of a new instance writes every non-null column, deletes the columns given as None / empty collection, leaves the "
    "others alone and makes the row exist; save/update of a loaded instance makes the changed columns equal to the instance's values; a "
    "queryset update assigns (`col=v` overwrites, also for collections, as its docstring says), adds, removes, appends, prepends and merges "
    "as documented and does not create the row marker; None deletes the column; delete removes the row (the whole partition for an "
    "instance without clustering key); counters accumulate the difference between the instance's value and the value it was loaded with",
    "instances whose row was changed behind their back (other instance, queryset update, upsert over an existing row) are only reloaded or deleted: "
    "what a stale partial update should do is not documented",
    "iff() / if_exists() are not combined with a write to a static column through an instance (save/update/blind update) nor used on instances without "
    "clustering key: cqlengine restricts such statements to the partition key, where the condition is evaluated on the static row (known findings "
    "C35.run/static-only-change/* and C35.state/*/static-only-change; their regression cases carry \"allow_static_lwt\": true, which lifts this limit); "
    "conditional queryset updates of static columns are generated",
    "within one batch every operation addresses a different partition (equal timestamps make the outcome Cassandra's, not the mapper's); conditions "
    "and custom timestamps are not combined (Cassandra rejects that); ttl is sent but no time passes",
]

KS = "ks"


# ---------------------------------------------------------------------------------------------------------
# strategies
# ---------------------------------------------------------------------------------------------------------
_K = st.integers(1, 3)
_C = st.sampled_from([0, 0, 1, 2])      # 0: a falsy but perfectly valid clustering key
_INT = st.integers(0, 5)
_TEXT = st.sampled_from(["x", "y", "z", "", "it's"])
_SET = st.lists(st.integers(0, 4), max_size=3).map(lambda v: sorted(set(v)))
_LIST = st.lists(st.integers(0, 4), max_size=4)
_MAP = st.lists(st.tuples(st.integers(0, 3), st.sampled_from(["x", "y"])), max_size=3).map(lambda p: [[k, v] for k, v in sorted(dict(p).items())])

_VAL = {"a": _INT, "b": _TEXT, "d": _INT, "st": _INT, "s": _SET, "l": _LIST, "m": _MAP, "sm": _MAP}
_SCALARS = ["a", "b", "d", "st"]
_COLLS = ["s", "l", "m", "sm"]
_ALL = _SCALARS + _COLLS


def s_given(min_size=0, max_size=5, none=True):
    def one(attr):
        v = _VAL[attr]
        return st.tuples(st.just(attr), st.one_of(v, v, v, st.none()) if none else v)
    return st.lists(st.sampled_from(_ALL).flatmap(one), min_size=min_size, max_size=max_size).map(lambda p: dict(p))


def s_opt(lwt=True, ttl=True):
    return st.fixed_dictionaries({
        "ttl": st.sampled_from([None, None, None, 60]) if ttl else st.none(),
        "ts": st.sampled_from([False, False, False, True]),
        "iff": st.one_of(st.none(), st.none(), st.none(), st.tuples(st.sampled_from(["a", "b", "d", "st"]), st.sampled_from(["EQ", "EQ", "NE", "GT", "LTE"]),
                                                                 st.sampled_from(["hit", "hit", "miss"]))) if lwt else st.none(),
        "if_exists": st.sampled_from([False, False, False, True]) if lwt else st.just(False)})


_SLOT = st.integers(0, 2)


def s_inplace():
    return st.one_of(
        st.tuples(st.just("s"), st.sampled_from(["add", "discard", "clear"]), st.integers(0, 4)),
        st.tuples(st.just("l"), st.sampled_from(["append", "prepend", "prepend2", "pop", "insert_mid", "clear", "extend"]), st.integers(0, 4)),
        st.tuples(st.sampled_from(["m", "sm"]), st.sampled_from(["put", "del", "clear"]), st.integers(0, 3)))


def s_step(batchable=False):
    create = st.fixed_dictionaries({"op": st.just("create"), "ctor": st.sampled_from([False, False, True]), "slot": _SLOT, "k": _K, "c": st.one_of(_C, _C, _C, st.none()), "given": s_given(),
                                    "opt": st.fixed_dictionaries({"ttl": st.sampled_from([None, None, 60]), "ts": st.sampled_from([False, False, True]),
                                                                  "ine": st.sampled_from([False, False, False, True])})})
    load = st.fixed_dictionaries({"op": st.just("load"), "slot": _SLOT, "k": _K, "c": _C})
    assign = st.fixed_dictionaries({"op": st.just("assign"), "slot": _SLOT, "set": s_given(max_size=3), "inplace": st.lists(s_inplace(), max_size=2)})
    inpl = st.one_of(st.lists(s_inplace(), min_size=1, max_size=3), st.lists(s_inplace(), max_size=2))
    save = st.fixed_dictionaries({"op": st.just("save"), "slot": _SLOT, "set": s_given(max_size=2), "inplace": inpl, "opt": s_opt()})
    update = st.fixed_dictionaries({"op": st.just("update"), "slot": _SLOT, "kw": s_given(max_size=2), "inplace": inpl, "opt": s_opt()})
    delete = st.fixed_dictionaries({"op": st.just("delete"), "slot": _SLOT, "opt": s_opt(ttl=False)})
    blind = st.fixed_dictionaries({"op": st.just("blind"), "k": _K, "c": _C, "kw": s_given(min_size=1, max_size=3), "opt": s_opt()})
    cop = st.sampled_from(["set", "none", "add", "remove", "append", "prepend", "update", "mremove"])
    qupdate = st.fixed_dictionaries({"op": st.just("qupdate"), "k": _K, "c": _C, "sets": st.lists(st.tuples(st.sampled_from(_ALL + _COLLS), cop, st.integers(0, 3)), min_size=1, max_size=4),
                                     "vals": s_given(min_size=0, max_size=0), "seed": st.integers(0, 1000), "opt": s_opt()})
    part_op = st.one_of(st.tuples(st.just("s"), st.sampled_from(["add", "remove"]), st.integers(1, 3)),
                        st.tuples(st.just("l"), st.sampled_from(["append", "prepend"]), st.integers(1, 3)),
                        st.tuples(st.sampled_from(["m", "sm"]), st.sampled_from(["update", "mremove"]), st.integers(1, 3)))
    qcoll = st.fixed_dictionaries({"op": st.just("qupdate"), "k": _K, "c": _C, "sets": st.lists(part_op, min_size=1, max_size=2), "vals": st.just({}),
                                   "seed": st.integers(0, 1000).filter(lambda n: n % 4), "opt": s_opt()})
    qdelete = st.fixed_dictionaries({"op": st.just("qdelete"), "k": _K, "c": st.one_of(_C, _C, st.none()), "opt": s_opt(ttl=False)})
    counter = st.fixed_dictionaries({"op": st.just("counter"), "how": st.sampled_from(["create", "create", "load_incr", "load_incr", "load_incr", "load_incr", "queryset", "delete"]), "slot": _SLOT,
                                     "k": _K, "c": _C, "d1": st.integers(-3, 5), "d2": st.integers(-2, 2), "method": st.sampled_from(["save", "update"])})
    rekey = st.fixed_dictionaries({"op": st.just("rekey"), "slot": _SLOT, "k": _K, "c": _C, "part": st.sampled_from([False, False, True]), "set": s_given(max_size=2)})
    if batchable:
        return st.one_of(create, save, update, delete, blind, qupdate, qcoll, qdelete)
    return st.one_of(create, create, load, load, assign, save, save, save, update, update, update, delete, blind, qupdate, qcoll, qcoll, qdelete, counter, counter, rekey)


def s_case():
    flags = st.fixed_dictionaries({"ck": st.booleans(), "db": st.booleans(), "default": st.booleans(), "static_map": st.booleans()})
    batch = st.fixed_dictionaries({"op": st.just("batch"), "steps": st.lists(s_step(True), min_size=2, max_size=4), "ts": st.sampled_from([False, False, True]),
                                   "type": st.sampled_from([None, None, "UNLOGGED"])})
    full = st.fixed_dictionaries({"a": _INT, "s": _SET, "l": _LIST, "m": _MAP, "sm": _MAP, "st": st.one_of(st.none(), _INT), "b": st.one_of(st.none(), _TEXT)})
    create = st.fixed_dictionaries({"op": st.just("create"), "ctor": st.booleans(), "slot": _SLOT, "k": _K, "c": _C, "given": st.one_of(full, full, s_given(min_size=2, none=False)),
                                    "opt": st.just({"ttl": None, "ts": False, "ine": False})})
    steps = st.lists(st.one_of(s_step(), s_step(), s_step(), s_step(), s_step(), batch), min_size=6, max_size=14)
    # every history starts by creating one or two rows, so that the instance operations have something to work on
    return st.builds(lambda f, first, rest: {"flags": f, "steps": first + rest}, flags, st.lists(create, min_size=1, max_size=2), steps)


# ---------------------------------------------------------------------------------------------------------
# reference model
# ---------------------------------------------------------------------------------------------------------
def _null(v):
    return v is None or v == [] or v == {}


def _norm(attr, v):
    """tagged form of a value description (None for null / empty collection)"""
    if _null(v):
        return None
    if attr == "s":
        return sorted(set(v))
    if attr in ("m", "sm"):
        return [[k, x] for k, x in sorted(dict((k, x) for k, x in v).items())]
    return v


class Shadow(object):
    """what the documented semantics leave in the table"""

    def __init__(self, meta):
        self.meta = meta
        self.rows = {}          # (k, c) -> {"marker": bool, regular attr: tagged}
        self.statics = {}       # k -> {static attr: tagged}
        self.counters = {}      # (k, c) -> {"n1": int|None, "n2": int|None}
        self.burnt = set()      # counter rows deleted once (Cassandra does not define re-use)

    def row(self, k, c, create=True):
        r = self.rows.get((k, c))
        if r is None and create:
            r = self.rows[(k, c)] = dict((a, None) for a in self.meta.regular)
            r["marker"] = False
        return r

    def static(self, k):
        return self.statics.setdefault(k, dict((a, None) for a in self.meta.static))

    def exists(self, k, c):
        r = self.rows.get((k, c))
        return r is not None and (r["marker"] or any(r[a] is not None for a in self.meta.regular))

    def static_exists(self, k):
        return any(v is not None for v in self.statics.get(k, {}).values())

    def get(self, k, c, attr):
        if attr in self.meta.static:
            return self.statics.get(k, {}).get(attr)
        r = self.rows.get((k, c))
        return None if r is None else r[attr]

    def put(self, k, c, attr, value):
        if attr in self.meta.static:
            self.static(k)[attr] = value
        else:
            self.row(k, c)[attr] = value

    def view(self, k, c):
        """row as a SELECT shows it (None when it does not exist)"""
        if (c is not None or not self.meta.has_ck) and self.exists(k, c):
            out = dict((a, self.rows[(k, c)][a]) for a in self.meta.regular)
        elif c is None and self.meta.has_ck and self.static_exists(k) and not any(self.exists(k, cc) for (kk, cc) in self.rows if kk == k):
            out = dict((a, None) for a in self.meta.regular)
        else:
            return None
        out.update(self.statics.get(k, dict((a, None) for a in self.meta.static)))
        for a in self.meta.static:
            out.setdefault(a, None)
        out["k"] = k
        if self.meta.has_ck:
            out["c"] = c
        return out

    def delete_row(self, k, c):
        self.rows.pop((k, c), None)

    def delete_partition(self, k):
        for key in [key for key in self.rows if key[0] == k]:
            del self.rows[key]
        self.statics.pop(k, None)

    def all_views(self):
        out = {}
        ks = set(k for k, _c in self.rows) | set(self.statics)
        for k in ks:
            live = [c for (kk, c) in self.rows if kk == k and self.exists(kk, c)]
            for c in live:
                out[(k, c)] = self.view(k, c)
            if not live and self.meta.has_ck and self.static_exists(k):
                out[(k, None)] = self.view(k, None)
        return out


class Meta(object):
    def __init__(self, flags):
        self.has_ck = flags["ck"]
        self.attrs = ["a", "b", "d", "s", "l", "m"]
        self.static = []
        if self.has_ck:
            self.static.append("st")
            if flags["static_map"]:
                self.static.append("sm")
        self.regular = list(self.attrs)
        self.attrs = self.regular + self.static
        self.db = {"a": "a", "b": "b", "d": "d", "s": "s", "l": "l", "m": "m", "st": "st", "sm": "sm", "k": "k", "c": "c"}
        if flags["db"]:
            self.db.update({"b": "b_db", "s": "s_db", "m": "m_db", "st": "st_db"})
        self.default_d = 7 if flags["default"] else None


class Inst(object):
    """reference model of a cqlengine instance"""

    def __init__(self, obj, k, c, vals, snap, persisted, explicit):
        self.obj, self.k, self.c = obj, k, c
        self.vals, self.snap, self.persisted, self.explicit = vals, snap, persisted, set(explicit)
        self.stale = False
        self.explicit_pk = set()
        self.stale_prev = {}        # collection attr -> value it had before it was emptied in place and saved (see _instance_blame)


# ---------------------------------------------------------------------------------------------------------
# the world: cqlengine + interpreter
# ---------------------------------------------------------------------------------------------------------
class HarnessGap(Exception):
    pass


class World(object):
    def __init__(self, case, ctx):
        from checks import _cqle
        self.ctx = ctx
        self.meta = Meta(case["flags"])
        self.db = cqlinterp.Database()
        self.invalid = None
        m = self.meta
        T = lambda n: {"t": n}  # noqa: E731
        cols = [("k", T("int"), "pk")]
        if m.has_ck:
            cols.append(("c", T("int"), "ck"))
        self.trees = {"a": T("int"), "b": T("text"), "d": T("int"), "st": T("int"), "s": {"t": "set", "of": T("int")},
                      "l": {"t": "list", "of": T("int")}, "m": {"t": "map", "k": T("int"), "v": T("text")},
                      "sm": {"t": "map", "k": T("int"), "v": T("text")}, "k": T("int"), "c": T("int"), "n1": T("counter"), "n2": T("counter")}
        for a in m.regular:
            cols.append((m.db[a], self.trees[a], "regular"))
        for a in m.static:
            cols.append((m.db[a], self.trees[a], "static"))
        self.table = self.db.create_table(KS, "d", cols)
        ccols = [("k", T("int"), "pk")] + ([("c", T("int"), "ck")] if m.has_ck else []) + [("n1", T("counter"), "regular"), ("n2_db" if case["flags"]["db"] else "n2", T("counter"), "regular")]
        self.ctable = self.db.create_table(KS, "cn", ccols)
        self.n2_db = "n2_db" if case["flags"]["db"] else "n2"
        self.types = dict((n, t) for n, t, _k in cols)
        self.ctypes = dict((n, t) for n, t, _k in ccols)
        self.statements = 0

    def backend(self, text, ex):
        from checks import _cqle
        self.statements += 1
        try:
            ast = cqlparse.parse_statement(text)
        except cqlterm.Unsupported as e:
            raise HarnessGap("parser gap on %r: %s" % (text, e))
        except ValueError as e:
            self.invalid = ("unparseable", "statement %r does not parse: %s" % (text[:300], e))
            raise _Rejected(str(e))
        try:
            res = self.db.execute(ast)
        except cqlinterp.Invalid as e:
            bad = ast
            if ast["stmt"] == "batch":
                for inner in ast["statements"]:
                    try:
                        self.db._plan(inner, ast)
                    except cqlinterp.Invalid:
                        bad = inner
                        break
                    except Exception:  # noqa
                        pass
            shape = bad["stmt"].upper() + ("-IF" if bad.get("if") else "") + (":BATCH" if ast["stmt"] == "batch" else "")
            self.invalid = (_reason(str(e)) + ":" + shape, "Cassandra rejects %r: %s" % (text[:300], e))
            raise _Rejected(str(e))
        except (cqlinterp.Unsupported, cqlterm.Unsupported) as e:
            raise HarnessGap("interpreter gap on %r: %s" % (text, e))
        table = ast.get("table") or (ast["statements"][0]["table"] if ast.get("statements") else "d")
        types = self.ctypes if table == "cn" else self.types
        rows = []
        for r in res.rows:
            rows.append(dict((n, (v if n == "[applied]" or n == "count" else _cqle.driver_value(types[n], v))) for n, v in r.items()))
        return res.names, rows


class _Rejected(Exception):
    """what the driver would raise for an InvalidRequest answer"""


def _reason(msg):
    for key, label in (("clustering keys are missing", "clustering-key-missing"), ("Undefined column", "undefined-column"),
                       ("partition key parts are missing", "partition-key-missing"), ("incompatible", "incompatible-operations"),
                       ("custom timestamp", "timestamp-not-allowed"), ("Non PRIMARY KEY", "non-key-in-where"), ("counter", "counter"),
                       ("null", "null-value"), ("index", "list-index")):
        if key in msg:
            return label
    return "other"


def build_models(meta, flags):
    from cassandra.cqlengine import columns as C
    from checks import _cqle
    db = meta.db

    def f(attr):
        return db[attr] if db[attr] != attr else None
    cols = [("k", C.Integer(partition_key=True))]
    if meta.has_ck:
        cols.append(("c", C.Integer(primary_key=True)))
    cols += [("a", C.Integer()), ("b", C.Text(db_field=f("b"))), ("d", C.Integer(default=meta.default_d)),
             ("s", C.Set(C.Integer, db_field=f("s"))), ("l", C.List(C.Integer)), ("m", C.Map(C.Integer, C.Text, db_field=f("m")))]
    if meta.has_ck:
        cols.append(("st", C.Integer(static=True, db_field=f("st"))))
        if "sm" in meta.static:
            cols.append(("sm", C.Map(C.Integer, C.Text, static=True)))
    D = _cqle.make_model("D35", cols, table="d", keyspace=KS)
    ccols = [("k", C.Integer(partition_key=True))] + ([("c", C.Integer(primary_key=True))] if meta.has_ck else [])
    ccols += [("n1", C.Counter()), ("n2", C.Counter(db_field="n2_db" if flags["db"] else None))]
    CN = _cqle.make_model("C35", ccols, table="cn", keyspace=KS)
    return D, CN


def _py(attr, tagged):
    """python value cqlengine users write for a tagged value"""
    if tagged is None:
        return None
    if attr == "s":
        return set(tagged)
    if attr == "l":
        return list(tagged)
    if attr in ("m", "sm"):
        return dict((k, v) for k, v in tagged)
    return tagged


def _tag(attr, py):
    if py is None:
        return None
    if attr == "s":
        return sorted(py) or None
    if attr == "l":
        return list(py) or None
    if attr in ("m", "sm"):
        return [[k, v] for k, v in sorted(dict(py).items())] or None
    return py


def _empty(attr):
    return {"s": set(), "l": [], "m": {}, "sm": {}}.get(attr)


# ---------------------------------------------------------------------------------------------------------
# interpretation of a history
# ---------------------------------------------------------------------------------------------------------
def interpret(case, ctx):
    from cassandra.cqlengine.query import BatchQuery, DoesNotExist, LWTException
    from checks import _cqle
    w = World(case, ctx)
    meta = w.meta
    sh = Shadow(meta)
    slots = [None, None, None]
    cslots = [None, None, None]
    feat = {"partial": False, "null": False, "batch2": False, "static_only": False}

    with _cqle.connected(w.backend) as session:
        D, CN = build_models(meta, case["flags"])

        def stamp(target, want):
            """an explicit timestamp ahead of the server clock; the clock then moves past it"""
            if not want:
                return target.timestamp(None) if hasattr(target, "_values") else target, None
            w.db.clock += 10 * 10 ** 6
            us = w.db.clock
            dt = datetime.datetime(1970, 1, 1) + datetime.timedelta(microseconds=us)
            return target.timestamp(dt), us

        def mark_stale(k, c, static_touched, regular_touched, but=None):
            for h in slots:
                if h is None or h is but or h.k != k:
                    continue
                if (regular_touched and h.c == c) or static_touched:
                    h.stale = True

        def condition(opt, k, c, usable):
            """-> (kwargs for iff, holds?) for the option's condition evaluated on the reference row"""
            if not opt.get("iff"):
                return {}, True
            attr, fop, how = opt["iff"]
            if attr not in usable:
                return {}, True
            cur = sh.get(k, c, attr)
            # a value that makes the condition true ("hit") or false ("miss") on the current row
            base = cur if cur is not None else (0 if attr != "b" else "x")
            if attr == "b":
                other = "y" if base != "y" else "z"
                cand = {"EQ": (base, other), "NE": (other, base), "GT": ("", "zz"), "LTE": ("zz", "")}[fop]
            else:
                cand = {"EQ": (base, base + 1), "NE": (base + 1, base), "GT": (base - 1, base + 1), "LTE": (base + 1, base - 1)}[fop]
            val = cand[0] if how == "hit" else cand[1]
            if cur is None:
                holds = fop == "NE"
            else:
                holds = {"EQ": cur == val, "NE": cur != val, "GT": cur > val, "LTE": cur <= val}[fop]
            name = attr if fop == "EQ" else "%s__%s" % (attr, fop.lower())
            return {name: val}, holds

        blame = {}

        def run(key, fn, expect_lwt, tags=()):
            """run a mapper call; -> "ok" | "lwt" | "failed" """
            w.invalid = None
            try:
                with ctx.driver(key, expect=(LWTException, _Rejected, HarnessGap)):
                    fn()
            except LWTException:
                if not expect_lwt:
                    ctx.fail((key[:1] + list(tags) if tags else key) + ["unexpected-LWTException"],
                             "the operation raised LWTException although %s   [during %s]" % (
                                 "nothing had to be written" if "nothing-to-write" in tags else "its condition holds on the row", key[-1]))
                    return "failed"
                return "lwt"
            except _Rejected:
                ctx.fail(["C35.invalid-statement", w.invalid[0]], w.invalid[1] + "   [during %s]" % key[-1])
                return "failed"
            except HarnessGap as e:
                raise AssertionError(str(e))
            if ctx._failures:
                return "failed"
            if expect_lwt:
                ctx.fail((key[:1] + list(tags) if tags else key) + ["missing-LWTException"],
                         "the condition does not hold on the row but no LWTException was raised   [during %s]" % key[-1])
                return "failed"
            return "ok"

        def lwt_tags(written, nulled, lwt):
            """finding-key tags (and blame) for a conditional write that the mapper sends as UPDATE + DELETE, or restricts to the partition"""
            tags = ()
            if meta.has_ck and ((written and all(a in meta.static for a in written)) or (nulled and all(a in meta.static for a in nulled))):
                tags = ("static-only-change",)
            elif lwt and written and nulled:
                tags = ("two-phase-update",)
            if tags and lwt:
                for a in meta.attrs:
                    blame[a] = tags[0]
                blame["*"] = tags[0]
            return tags

        def new_inst(k, c, given):
            """python kwargs + reference instance for Model(**kw)"""
            kw = {"k": k}
            if meta.has_ck:
                kw["c"] = c
            vals = {}
            for a in meta.attrs:
                if a in given:
                    kw[a] = _py(a, given[a])
                    vals[a] = _norm(a, given[a])
                elif a == "d" and meta.default_d is not None:
                    vals[a] = meta.default_d
                else:
                    vals[a] = None
            return kw, vals

        def apply_insert(k, c, vals, explicit):
            """reference effect of INSERT semantics for an instance"""
            static_only = meta.has_ck and c is None
            for a in meta.attrs:
                if static_only and a not in meta.static:
                    continue
                v = vals[a]
                if v is not None:
                    sh.put(k, c, a, v)
                elif a in explicit:
                    sh.put(k, c, a, None) if (a in meta.static or (k, c) in sh.rows) else None
            if not static_only:
                sh.row(k, c)["marker"] = True
            else:
                feat["static_only"] = True

        def apply_changes(h, changed):
            for a in changed:
                sh.put(h.k, h.c, a, h.vals[a])

        def changed_attrs(h):
            out = []
            for a in meta.attrs:
                if meta.has_ck and h.c is None and a not in meta.static:
                    continue
                if h.vals[a] != h.snap.get(a):
                    out.append(a)
            return out

        def do_assign(h, sets, inplace):
            """attribute assignment / in-place mutation on instance and reference; returns False when nothing applicable"""
            for a, v in sets.items():
                if a not in meta.attrs:
                    continue
                py = _py(a, v)
                setattr(h.obj, a, py)
                h.vals[a] = _norm(a, v)
                h.explicit.add(a)
            for a, what, x in inplace:
                if a not in meta.attrs:
                    continue
                cont = getattr(h.obj, a)
                if cont is None:
                    continue        # the attribute was set to None: nothing to mutate in place
                cur = _py(a, h.vals[a]) if h.vals[a] is not None else _empty(a)
                if a == "s":
                    {"add": lambda: (cont.add(x), cur.add(x)), "discard": lambda: (cont.discard(x), cur.discard(x)),
                     "clear": lambda: (cont.clear(), cur.clear())}[what]()
                elif a == "l":
                    def both(f):
                        f(cont)
                        f(cur)
                    both({"append": lambda c_: c_.append(x), "prepend": lambda c_: c_.insert(0, x),
                          "prepend2": lambda c_: c_.__setitem__(slice(0, 0), [x, (x + 1) % 5]), "pop": lambda c_: c_ and c_.pop(),
                          "insert_mid": lambda c_: c_.insert(len(c_) // 2, x), "clear": lambda c_: c_.clear(),
                          "extend": lambda c_: c_.extend([x, x + 1])}[what])
                else:
                    def both(f):
                        f(cont)
                        f(cur)
                    both({"put": lambda c_: c_.__setitem__(x, "y" if c_.get(x) != "y" else "x"), "del": lambda c_: c_.pop(x, None),
                          "clear": lambda c_: c_.clear()}[what])
                h.vals[a] = _tag(a, cur)

        def check_instance(h, where):
            for a in meta.attrs:
                got = _tag(a, getattr(h.obj, a))
                if got != h.vals[a]:
                    if a == "d" and h.vals[a] is None and got == meta.default_d:
                        ctx.fail(["C35.instance", "default-reapplied-in-memory"], "after %s the instance says d=%r (the column default) while the row it was loaded "
                                 "from and wrote back has d null" % (where, got))
                        continue
                    ctx.fail(["C35.instance", where, a if a not in _COLLS else "collection"], "instance attribute %s is %r, the reference instance has %r" % (a, got, h.vals[a]))

        def persist_instance(h, step, method, batch):
            """save() / update() of instance h; returns outcome"""
            opt = step["opt"]
            k, c = h.k, h.c
            usable = [a for a in ("a", "b", "d", "st") if a in meta.attrs and not (meta.has_ck and c is None and a not in meta.static)]
            changed = changed_attrs(h)
            # conditions are not combined with writes to static columns on the instance path (see ASSUMPTIONS): CQL restricts such a
            # statement to the partition, where IF EXISTS / IF .. mean the static row -- a documented limit of the mapper, kept as known findings
            static_involved = meta.has_ck and (c is None or any(a in meta.static for a in changed) or any(a in meta.static for a in h.explicit))
            lwt_allowed = batch is None and (not static_involved or case.get("allow_static_lwt", False))
            iff_kw, holds = condition(opt, k, c, usable) if lwt_allowed else ({}, True)
            if_exists = bool(opt["if_exists"]) and lwt_allowed and not iff_kw
            insert_path = method == "save" and not (h.persisted and not (set(["k", "c"]) & h.explicit_pk))
            if insert_path:
                iff_kw, holds, if_exists = {}, True, False
            row_exists = sh.exists(k, c) if c is not None or not meta.has_ck else sh.static_exists(k)
            writes = bool(changed) or insert_path or any(h.vals[a] is None and a in h.explicit for a in meta.attrs)
            expect_lwt = writes and ((bool(iff_kw) and not holds) or (if_exists and not row_exists))
            obj = h.obj
            obj.iff(**iff_kw)
            obj.if_exists(if_exists)
            obj.if_not_exists(False)
            obj.ttl(opt["ttl"])
            lwt = bool(iff_kw) or if_exists
            _o, ts = stamp(obj, opt["ts"] and not lwt and batch is None)
            obj._batch = None
            if batch is not None:
                obj.batch(batch)
            pre_partial = any(a in _COLLS and h.snap.get(a) is not None and h.vals[a] is not None for a in changed)
            tags = ()
            nulled = [a for a in meta.attrs if h.vals[a] is None and (a in changed or a in h.explicit)
                      and not (meta.has_ck and c is None and a not in meta.static)]
            written = [a for a in changed if h.vals[a] is not None]
            static_only_instance = meta.has_ck and c is None
            if static_only_instance:
                tags = ("static-only-instance",)
            elif not writes:
                tags = ("instance", "nothing-to-write")
            elif not insert_path:
                tags = None
            for a in meta.attrs:
                blame[a] = "static-only-instance" if static_only_instance else (
                    "refilled-after-in-place-clear" if a in h.stale_prev else "instance")
            if static_only_instance:
                blame["*"] = "static-only-instance"
            if tags is None:
                # an emptied list / set that was assigned (not mutated in place) is still sent in the UPDATE statement (l = [], s = s - {..})
                emptied = [a for a in changed if a in ("s", "l") and h.vals[a] is None and a in h.explicit]
                tags = lwt_tags(written + emptied, nulled, lwt)
            outcome = run(["C35.run", method], (obj.save if method == "save" else obj.update), expect_lwt, tags)
            if outcome != "ok":
                return outcome
            if pre_partial:
                feat["partial"] = True
            if any(h.vals[a] is None for a in changed) or any(h.vals[a] is None and a in h.explicit for a in meta.attrs):
                feat["null"] = True
            if insert_path:
                apply_insert(k, c, h.vals, h.explicit)
            else:
                apply_changes(h, changed)
            static_touched = any(a in meta.static for a in (meta.attrs if insert_path else changed))
            mark_stale(k, c, static_touched, True, but=h)
            # a container emptied *in place* is not "changed" for the mapper: it keeps comparing with the value before
            for a in list(h.stale_prev):
                if h.vals[a] != h.stale_prev[a]:
                    del h.stale_prev[a]
            for a in changed:
                if a in _COLLS and h.vals[a] is None and h.snap.get(a) is not None and a not in h.explicit:
                    h.stale_prev[a] = h.snap[a]
            h.snap = copy.deepcopy(h.vals)
            h.persisted = True
            h.explicit = set()
            h.explicit_pk = set()
            return "ok"

        def in_sync(h):
            """the instance's row is what the instance thinks it is"""
            if h.stale:
                return False
            for a in meta.attrs:
                if meta.has_ck and h.c is None and a not in meta.static:
                    continue
                if sh.get(h.k, h.c, a) != h.snap.get(a):
                    return False
            return True

        def pick_slot(step):
            """index of a live instance chosen by the step's slot number (None when there is none)"""
            live = [i for i, h in enumerate(slots) if h is not None]
            if not live:
                return None
            return live[step["slot"] % len(live)]

        def free_slot(step):
            empty = [i for i, h in enumerate(slots) if h is None]
            return empty[0] if empty else step["slot"] % len(slots)

        def refresh(i):
            """a stale instance is re-read before it is used again; -> the fresh reference instance or None"""
            h = slots[i]
            view = sh.view(h.k, h.c)
            if view is None or (meta.has_ck and h.c is None):
                slots[i] = None
                return None
            kw = {"k": h.k}
            if meta.has_ck:
                kw["c"] = h.c
            box = {}
            w.invalid = None
            try:
                with ctx.driver(["C35.run", "load"], expect=(DoesNotExist, _Rejected, HarnessGap)):
                    box["obj"] = D.get(**kw)
            except DoesNotExist:
                ctx.fail(["C35.readback", "row-missing"], "Model.get(%r) raised DoesNotExist, the reference row is %r" % (kw, view))
                return None
            except _Rejected:
                ctx.fail(["C35.invalid-statement", w.invalid[0]], w.invalid[1] + "   [during load]")
                return None
            except HarnessGap as e:
                raise AssertionError(str(e))
            if ctx._failures:
                return None
            vals = dict((a, view[a]) for a in meta.attrs)
            nh = Inst(box["obj"], h.k, h.c, vals, copy.deepcopy(vals), True, set())
            slots[i] = nh
            check_instance(nh, "load")
            ctx.label("refreshed-stale-instance")
            return nh

        def step_once(step, batch):
            op = step["op"]
            ctx.label("op:" + op + (":batched" if batch is not None else ""))
            touched = []
            if batch is None:
                blame.clear()
                blame["*"] = op
            else:
                blame.setdefault("*", "batch")      # a more specific tag set by an earlier operation of the batch stays
            if op == "create":
                k, c = step["k"], (step["c"] if meta.has_ck else None)
                given = dict((a, v) for a, v in step["given"].items() if a in meta.attrs)
                if meta.has_ck and c is None:
                    given = dict((a, v) for a, v in given.items() if a in meta.static)
                    if not any(v is not None and not _null(v) for v in given.values()):
                        return "skipped"
                kw, vals = new_inst(k, c, given)
                opt = step["opt"]
                ine = bool(opt["ine"]) and batch is None
                q = D.objects
                if batch is not None:
                    q = q.batch(batch)
                if opt["ttl"]:
                    q = q.ttl(opt["ttl"])
                if ine:
                    q = q.if_not_exists()
                elif opt["ts"] and batch is None and not step.get("ctor"):
                    q, _ts = stamp(q, True)
                exists = sh.exists(k, c) if (c is not None or not meta.has_ck) else sh.static_exists(k)
                box = {}
                if step.get("ctor"):
                    # Model(**kw).save() is the documented equivalent of Model.create(**kw)
                    def make():
                        o = D(**kw)
                        if batch is not None:
                            o.batch(batch)
                        o.ttl(opt["ttl"])
                        o.if_not_exists(ine)
                        if not ine and opt["ts"] and batch is None:
                            stamp(o, True)
                        box["obj"] = o.save()
                    outcome = run(["C35.run", "create"], make, ine and exists)
                else:
                    outcome = run(["C35.run", "create"], lambda: box.__setitem__("obj", q.create(**kw)), ine and exists)
                if outcome != "ok":
                    return outcome
                explicit = set(given)
                if meta.has_ck and c is None:
                    for a in meta.attrs:
                        blame[a] = "static-only-instance"
                    blame["*"] = "static-only-instance"
                if any(v is None for v in vals.values() if True) and any(_null(given.get(a)) for a in given):
                    feat["null"] = True
                apply_insert(k, c, vals, explicit)
                mark_stale(k, c, any(a in meta.static for a in meta.attrs if vals[a] is not None or a in explicit), True)
                h = Inst(box["obj"], k, c, vals, copy.deepcopy(vals), True, set())
                h.explicit_pk = set()
                slots[free_slot(step)] = h
                check_instance(h, "create")
                # an upsert over an existing row leaves the columns it did not write: the instance is then out of date
                if not in_sync(h):
                    h.stale = True
                touched.append((k, c))
            elif op == "load":
                k, c = step["k"], (step["c"] if meta.has_ck else None)
                existing = sorted(key for key in sh.all_views() if key[1] is not None or not meta.has_ck)
                if existing and step["slot"] != 2:
                    k, c = existing[(step["k"] * 2 + step["c"]) % len(existing)]
                view = sh.view(k, c)
                kw = {"k": k}
                if meta.has_ck:
                    kw["c"] = c
                box = {}
                w.invalid = None
                try:
                    with ctx.driver(["C35.run", "load"], expect=(DoesNotExist, _Rejected, HarnessGap)):
                        box["obj"] = D.get(**kw)
                except DoesNotExist:
                    if view is not None:
                        ctx.fail(["C35.readback", "row-missing"], "Model.get(%r) raised DoesNotExist, the reference row is %r" % (kw, view))
                    return "ok"
                except _Rejected:
                    ctx.fail(["C35.invalid-statement", w.invalid[0]], w.invalid[1] + "   [during load]")
                    return "failed"
                except HarnessGap as e:
                    raise AssertionError(str(e))
                if ctx._failures:
                    return "failed"
                if view is None:
                    ctx.fail(["C35.readback", "row-invented"], "Model.get(%r) returned %r, the reference has no such row" % (kw, box["obj"]))
                    return "failed"
                vals = dict((a, view[a]) for a in meta.attrs)
                h = Inst(box["obj"], k, c, vals, copy.deepcopy(vals), True, set())
                h.explicit_pk = set()
                slots[free_slot(step)] = h
                check_instance(h, "load")
            elif op in ("assign", "save", "update"):
                si = pick_slot(step)
                if si is None:
                    return "skipped"
                h = slots[si]
                if not in_sync(h):
                    if batch is not None:
                        return "skipped"
                    h = refresh(si)
                    if h is None:
                        return "failed" if ctx._failures else "skipped"
                sets = dict(step.get("set") or step.get("kw") or {})
                sets = dict((a, v) for a, v in sets.items() if a in meta.attrs and not (meta.has_ck and h.c is None and a not in meta.static))
                inplace = [i for i in step["inplace"] if i[0] in meta.attrs and not (meta.has_ck and h.c is None and i[0] not in meta.static)]
                if op == "update":
                    do_assign(h, {}, inplace)
                    # update(**kw) assigns the attributes itself
                    for a, v in sets.items():
                        h.vals[a] = _norm(a, v)
                        h.explicit.add(a)
                    kw = dict((a, _py(a, v)) for a, v in sets.items())
                    outcome = persist_with_kwargs(h, step, batch, kw)
                else:
                    do_assign(h, sets, inplace)
                    if op == "assign":
                        check_instance(h, "assign")
                        return "ok"
                    outcome = persist_instance(h, step, "save", batch)
                if outcome == "lwt":
                    # nothing was written; the instance keeps its pending changes: drop it (documented behaviour ends here)
                    slots[si] = None
                    return "ok"
                if outcome != "ok":
                    return outcome
                check_instance(h, op)
                touched.append((h.k, h.c))
            elif op == "delete":
                si = pick_slot(step)
                if si is None:
                    return "skipped"
                h = slots[si]
                opt = step["opt"]
                k, c = h.k, h.c
                usable = [a for a in ("a", "b", "d", "st") if a in meta.attrs]
                lwt_allowed = batch is None
                iff_kw, holds = condition(opt, k, c, [a for a in usable if not (meta.has_ck and c is None)]) if lwt_allowed else ({}, True)
                if_exists = bool(opt["if_exists"]) and lwt_allowed and not iff_kw and not (meta.has_ck and c is None)
                row_exists = sh.exists(k, c) if (c is not None or not meta.has_ck) else True
                obj = h.obj
                obj.iff(**iff_kw)
                obj.if_exists(if_exists)
                lwt = bool(iff_kw) or if_exists
                stamp(obj, opt["ts"] and not lwt and batch is None)
                obj._batch = None
                if batch is not None:
                    obj.batch(batch)
                if meta.has_ck and c == 0 and any(kk == k and cc != 0 and sh.exists(kk, cc) for (kk, cc) in sh.rows):
                    ctx.label("delete:falsy-clustering-key-with-sibling-rows")
                outcome = run(["C35.run", "delete"], obj.delete, (bool(iff_kw) and not holds) or (if_exists and not row_exists))
                slots[si] = None
                if outcome != "ok":
                    return "ok" if outcome == "lwt" else outcome
                if meta.has_ck and c is None:
                    sh.delete_partition(k)
                    for hh in slots:
                        if hh is not None and hh.k == k:
                            hh.stale = True
                else:
                    sh.delete_row(k, c)
                    mark_stale(k, c, False, True)
                touched.append((k, c))
            elif op == "blind":
                k, c = step["k"], (step["c"] if meta.has_ck else None)
                kw_t = dict((a, v) for a, v in step["kw"].items() if a in meta.attrs)
                # collections only where overwrite and merge coincide (no elements stored yet)
                kw_t = dict((a, v) for a, v in kw_t.items() if a not in _COLLS or sh.get(k, c, a) is None)
                if not kw_t:
                    return "skipped"
                ctor = {"k": k}
                if meta.has_ck:
                    ctor["c"] = c
                for a, v in kw_t.items():
                    ctor[a] = _py(a, v)
                opt = step["opt"]
                usable = [a for a in ("a", "b", "d", "st") if a in meta.attrs]
                blind_lwt = batch is None and (case.get("allow_static_lwt", False) or not (meta.has_ck and any(a in meta.static for a in kw_t)))
                iff_kw, holds = condition(opt, k, c, usable) if blind_lwt else ({}, True)
                if_exists = bool(opt["if_exists"]) and blind_lwt and not iff_kw
                obj = D(**ctor)
                obj.iff(**iff_kw)
                obj.if_exists(if_exists)
                obj.ttl(opt["ttl"])
                lwt = bool(iff_kw) or if_exists
                stamp(obj, opt["ts"] and not lwt and batch is None)
                if batch is not None:
                    obj.batch(batch)
                writes = [a for a, v in kw_t.items() if not _null(v)] + [a for a, v in kw_t.items() if _null(v)]
                outcome = run(["C35.run", "blind"], obj.update, (bool(iff_kw) and not holds) or (if_exists and not sh.exists(k, c)),
                              # a never-persisted instance sends every collection given as None / empty as an assignment in the UPDATE statement
                              lwt_tags([a for a, v in kw_t.items() if not _null(v) or a in _COLLS], [a for a, v in kw_t.items() if _null(v)], lwt))
                if outcome != "ok":
                    return "ok" if outcome == "lwt" else outcome
                for a, v in kw_t.items():
                    sh.put(k, c, a, _norm(a, v)) if (not _null(v) or a in meta.static or (k, c) in sh.rows) else None
                    if _null(v):
                        feat["null"] = True
                mark_stale(k, c, any(a in meta.static for a in kw_t), True)
                touched.append((k, c))
            elif op == "qupdate":
                k, c = step["k"], (step["c"] if meta.has_ck else None)
                have = sorted(key for key in sh.all_views() if key[1] is not None or not meta.has_ck)
                if have and step["seed"] % 4 != 0 and batch is None:      # (a batch keeps its operations on distinct partitions)
                    k, c = have[step["seed"] % len(have)]
                    # partial collection operations are most telling on rows that already hold elements
                    wanted = [a for a, cop_, _n in step["sets"] if a in _COLLS and a in meta.attrs and cop_ not in ("set", "none")]
                    rich = [key for key in have if any(sh.get(key[0], key[1], a) is not None for a in wanted)]
                    if rich:
                        k, c = rich[step["seed"] % len(rich)]
                kw, effects = {}, []
                seed = step["seed"]
                seen = set()
                for attr, cop, size in step["sets"]:
                    if attr not in meta.attrs or attr in seen:
                        continue
                    seen.add(attr)
                    legal = {"s": ("set", "none", "add", "remove"), "l": ("set", "none", "append", "prepend"), "m": ("set", "none", "update", "mremove"),
                             "sm": ("set", "none", "update", "mremove")}.get(attr, ("set", "none"))
                    if cop not in legal:
                        cop = legal[(seed + size) % len(legal)]
                    seed += 3
                    if attr in _SCALARS:
                        v = None if cop == "none" else ((seed % 6) if attr != "b" else ["x", "y", "z", ""][seed % 4])
                        kw[attr] = v
                        effects.append((attr, "set", v))
                        continue
                    items = [(seed + i * 2) % 5 for i in range(size)]
                    if cop == "none":
                        kw[attr] = None
                        effects.append((attr, "set", None))
                    elif attr == "s":
                        val = sorted(set(items))
                        kw[attr if cop == "set" else "%s__%s" % (attr, cop)] = set(val)
                        effects.append((attr, cop, val))
                    elif attr == "l":
                        kw[attr if cop == "set" else "%s__%s" % (attr, cop)] = list(items)
                        effects.append((attr, cop, list(items)))
                    else:
                        if cop == "mremove":
                            kw["%s__remove" % attr] = set(items)
                            effects.append((attr, "mremove", sorted(set(items))))
                        else:
                            pairs = [[i % 4, "xy"[(seed + i) % 2]] for i in items]
                            pairs = [[a, b] for a, b in sorted(dict((a, b) for a, b in pairs).items())]
                            kw[attr if cop == "set" else "%s__update" % attr] = dict((a, b) for a, b in pairs)
                            effects.append((attr, cop, pairs))
                if not kw:
                    return "skipped"
                opt = step["opt"]
                usable = [a for a in ("a", "b", "d", "st") if a in meta.attrs]
                iff_kw, holds = condition(opt, k, c, usable) if batch is None else ({}, True)
                if_exists = bool(opt["if_exists"]) and batch is None and not iff_kw
                filt = {"k": k}
                if meta.has_ck:
                    filt["c"] = c
                q = D.objects.filter(**filt)
                if batch is not None:
                    q = q.batch(batch)
                if iff_kw:
                    q = q.iff(**iff_kw)
                if if_exists:
                    q = q.if_exists()
                if opt["ttl"]:
                    q = q.ttl(opt["ttl"])
                lwt = bool(iff_kw) or if_exists
                if opt["ts"] and not lwt and batch is None:
                    q, _ts = stamp(q, True)
                # does the request write anything at all? (empty add/remove/append/prepend/update do not)
                effective = [e for e in effects if not (e[1] in ("add", "remove", "append", "prepend", "update", "mremove") and not e[2])]
                expect_lwt = bool(effective) and ((bool(iff_kw) and not holds) or (if_exists and not sh.exists(k, c)))
                q_tags = ()
                if lwt and [e for e in effective if not (e[1] == "set" and e[2] is None)] and [e for e in effects if e[1] == "set" and e[2] is None]:
                    q_tags = ("two-phase-update",)
                    for a in meta.attrs:
                        blame[a] = "two-phase-update"
                    blame["*"] = "two-phase-update"
                outcome = run(["C35.run", "qupdate"] + ([] if effective else ["nothing-requested"]), lambda: q.update(**kw), expect_lwt, q_tags)
                if outcome != "ok":
                    return "ok" if outcome == "lwt" else outcome
                for attr, cop, val in effects:
                    cur = sh.get(k, c, attr)
                    if cop == "set":
                        new = _norm(attr, val)
                        if new is None:
                            feat["null"] = True
                    elif cop == "add":
                        new = sorted(set(cur or []) | set(val)) or None
                    elif cop == "remove":
                        new = sorted(set(cur or []) - set(val)) or None
                    elif cop == "append":
                        new = (list(cur or []) + list(val)) or None
                    elif cop == "prepend":
                        new = (list(val) + list(cur or [])) or None
                    elif cop == "update":
                        d = dict((a, b) for a, b in (cur or []))
                        d.update(dict((a, b) for a, b in val))
                        new = [[a, b] for a, b in sorted(d.items())] or None
                    elif cop == "mremove":
                        new = [[a, b] for a, b in (cur or []) if a not in set(val)] or None
                    if cop in ("add", "remove", "append", "prepend", "update", "mremove") and cur is not None and val:
                        feat["partial"] = True
                    blame[attr] = "qupdate:%s%s" % (cop, "" if (val or cop == "set") else ":empty")
                    if attr in _COLLS:
                        ctx.label("qupdate:%s:%s" % (cop, "on-existing" if cur is not None else "on-null"))
                    if new is not None or attr in meta.static or (k, c) in sh.rows:
                        sh.put(k, c, attr, new)
                mark_stale(k, c, any(e[0] in meta.static for e in effects), True)
                touched.append((k, c))
            elif op == "qdelete":
                k = step["k"]
                c = step["c"] if meta.has_ck else None
                opt = step["opt"]
                usable = [a for a in ("a", "b", "d") if c is not None or not meta.has_ck]
                iff_kw, holds = condition(opt, k, c, usable) if batch is None else ({}, True)
                if_exists = bool(opt["if_exists"]) and batch is None and not iff_kw and (c is not None or not meta.has_ck)
                filt = {"k": k}
                if meta.has_ck and c is not None:
                    filt["c"] = c
                q = D.objects.filter(**filt)
                if batch is not None:
                    q = q.batch(batch)
                if iff_kw:
                    q = q.iff(**iff_kw)
                if if_exists:
                    q = q.if_exists()
                lwt = bool(iff_kw) or if_exists
                if opt["ts"] and not lwt and batch is None:
                    q, _ts = stamp(q, True)
                outcome = run(["C35.run", "qdelete"], q.delete, (bool(iff_kw) and not holds) or (if_exists and not sh.exists(k, c)))
                if outcome != "ok":
                    return "ok" if outcome == "lwt" else outcome
                if meta.has_ck and c is None:
                    sh.delete_partition(k)
                    for hh in slots:
                        if hh is not None and hh.k == k:
                            hh.stale = True
                else:
                    sh.delete_row(k, c)
                    mark_stale(k, c, False, True)
                touched.append((k, c))
            elif op == "rekey":
                # a primary key column of a persisted instance is changed and the instance saved: the whole instance goes to the new row
                si = pick_slot(step)
                if si is None or batch is not None:
                    return "skipped"
                h = slots[si]
                if meta.has_ck and h.c is None:
                    return "skipped"
                if not in_sync(h):
                    h = refresh(si)
                    if h is None:
                        return "failed" if ctx._failures else "skipped"
                sets = dict((a, v) for a, v in step["set"].items() if a in meta.attrs)
                do_assign(h, sets, [])
                nk, nc = h.k, h.c
                if meta.has_ck and not step["part"]:
                    nc = step["c"] if step["c"] != h.c else (h.c + 1) % 3
                    h.obj.c = nc
                else:
                    nk = step["k"] if step["k"] != h.k else h.k % 3 + 1
                    h.obj.k = nk
                obj = h.obj
                obj.iff()
                obj.if_exists(False)
                obj.if_not_exists(False)
                obj.ttl(None)
                obj.timestamp(None)
                obj._batch = None
                blame["*"] = "rekey"
                for a in meta.attrs:
                    blame[a] = "rekey"
                outcome = run(["C35.run", "rekey"], obj.save, False)
                if outcome != "ok":
                    return outcome
                explicit_nulls = set(a for a in meta.attrs if h.vals[a] is None and (a in h.explicit or h.snap.get(a) is not None))
                apply_insert(nk, nc, h.vals, explicit_nulls)
                mark_stale(nk, nc, any(a in meta.static and (h.vals[a] is not None or a in explicit_nulls) for a in meta.attrs), True, but=h)
                h.k, h.c = nk, nc
                h.snap = copy.deepcopy(h.vals)
                h.explicit = set()
                h.stale_prev = {}
                check_instance(h, "rekey")
                if not in_sync(h):
                    h.stale = True
                ctx.label("rekey:" + ("clustering" if (meta.has_ck and not step["part"]) else "partition"))
                touched.append((nk, nc))
            elif op == "counter":
                return counter_step(step)
            return touched

        def persist_with_kwargs(h, step, batch, kw):
            """update(**kw): same as persist_instance but the mapper assigns the attributes itself"""
            obj = h.obj
            original = obj.update

            def call():
                return original(**kw)
            try:
                h.obj = _Bound(obj, call)
                return persist_instance(h, step, "update", batch)
            finally:
                h.obj = obj

        def counter_step(step):
            k, c = step["k"], (step["c"] if meta.has_ck else None)
            how = step["how"]
            have = sorted(sh.counters, key=repr)
            if have and (how in ("load_incr", "delete") or step["d2"] > 0):
                k, c = have[(step["k"] + step["slot"]) % len(have)]
            key = (k, c)
            if key in sh.burnt:
                return "skipped"
            kw = {"k": k}
            if meta.has_ck:
                kw["c"] = c
            cur = sh.counters.get(key)
            if how == "create":
                box = {}
                outcome = run(["C35.run", "counter-create"], lambda: box.__setitem__("obj", CN.create(n1=step["d1"], **kw)), False)
                if outcome != "ok":
                    return outcome
                row = sh.counters.setdefault(key, {"n1": None, "n2": None})
                row["n1"] = (row["n1"] or 0) + step["d1"]
                row["n2"] = (row["n2"] or 0)
                cslots[step["slot"]] = {"obj": box["obj"], "key": key, "n1": step["d1"], "n2": 0}
            elif how == "load_incr":
                box = {}
                w.invalid = None
                try:
                    with ctx.driver(["C35.run", "counter-load"], expect=(DoesNotExist, _Rejected, HarnessGap)):
                        box["obj"] = CN.get(**kw)
                except DoesNotExist:
                    if cur is not None and (cur["n1"] is not None or cur["n2"] is not None):
                        ctx.fail(["C35.readback", "counter-row-missing"], "CounterModel.get(%r) raised DoesNotExist, the reference row is %r" % (kw, cur))
                    return "ok"
                except _Rejected:
                    ctx.fail(["C35.invalid-statement", w.invalid[0]], w.invalid[1] + "   [during counter-load]")
                    return "failed"
                except HarnessGap as e:
                    raise AssertionError(str(e))
                if ctx._failures:
                    return "failed"
                if cur is None:
                    ctx.fail(["C35.readback", "counter-row-invented"], "CounterModel.get(%r) found a row the reference does not have" % (kw,))
                    return "failed"
                obj = box["obj"]
                if (obj.n1 or 0) != (cur["n1"] or 0) or (obj.n2 or 0) != (cur["n2"] or 0):
                    ctx.fail(["C35.readback", "counter-value"], "counters read back as n1=%r n2=%r, the reference has %r" % (obj.n1, obj.n2, cur))
                    return "failed"
                obj.n1 += step["d1"]
                obj.n2 -= step["d2"]
                outcome = run(["C35.run", "counter-" + step["method"]], obj.save if step["method"] == "save" else obj.update, False)
                if outcome != "ok":
                    return outcome
                cur["n1"] = (cur["n1"] or 0) + step["d1"]
                cur["n2"] = (cur["n2"] or 0) - step["d2"]
            elif how == "queryset":
                outcome = run(["C35.run", "counter-queryset"], lambda: CN.objects.filter(**kw).update(n1=step["d1"]), False)
                if outcome != "ok":
                    return outcome
                row = sh.counters.setdefault(key, {"n1": None, "n2": None})
                row["n1"] = (row["n1"] or 0) + step["d1"]
            elif how == "delete":
                if cur is None:
                    return "skipped"
                outcome = run(["C35.run", "counter-delete"], lambda: CN.objects.filter(**kw).delete(), False)
                if outcome != "ok":
                    return outcome
                del sh.counters[key]
                sh.burnt.add(key)
            return []

        # ------------------------------------------------------------------------------------------
        for step in case["steps"]:
            if step["op"] == "batch":
                bkw = {}
                if step["type"]:
                    bkw["batch_type"] = step["type"]
                if step["ts"]:
                    w.db.clock += 10 * 10 ** 6
                    bkw["timestamp"] = datetime.datetime(1970, 1, 1) + datetime.timedelta(microseconds=w.db.clock)
                b = BatchQuery(**bkw)
                # every operation of a batch addresses its own partition; the reference applies them when the batch executes
                saved = (copy.deepcopy(sh.rows), copy.deepcopy(sh.statics))
                used, rows_touched = set(), []
                for sub in step["steps"]:
                    if "k" in sub:
                        k = sub["k"]
                    else:
                        si = pick_slot(sub)
                        if si is None:
                            continue
                        k = slots[si].k
                    if k in used:
                        continue
                    used.add(k)
                    before = w.statements
                    res = step_once(sub, b)
                    if w.statements != before:
                        ctx.fail(["C35.batch", "statement-sent-early"], "a batched %s executed a statement before the batch was applied" % sub["op"])
                        return
                    if res == "failed" or ctx._failures:
                        return
                    if isinstance(res, list):
                        rows_touched.extend(res)
                outcome = run(["C35.run", "batch"], b.execute, False)
                if outcome != "ok":
                    return
                if len(set(rows_touched)) >= 2:
                    feat["batch2"] = True
                    ctx.label("batch:rows>=2")
            else:
                res = step_once(step, None)
                if res == "failed" or ctx._failures:
                    return
                if res == "skipped":
                    ctx.label("skipped:" + step["op"])
                    continue
            if not compare(ctx, w, sh, meta, D, blame):
                return
            blame.clear()
        ctx.label("steps:%d" % len(case["steps"]))
        for f, on in feat.items():
            if on:
                ctx.label("feature:" + f)
        ctx.nontrivial(any(feat.values()))


class _Bound(object):
    """an instance whose update() carries keyword arguments (everything else goes to the real instance)"""

    def __init__(self, obj, call):
        object.__setattr__(self, "_obj", obj)
        object.__setattr__(self, "_call", call)

    def __getattr__(self, name):
        if name == "update":
            return object.__getattribute__(self, "_call")
        return getattr(object.__getattribute__(self, "_obj"), name)

    def __setattr__(self, name, value):
        setattr(object.__getattribute__(self, "_obj"), name, value)


def compare(ctx, w, sh, meta, D, blame):
    """interpreter rows == reference rows; plus a read back of every row through the mapper"""
    db_of = meta.db
    got = {}
    for r in w.db.rows(KS, "d"):
        got[(r["k"], r.get("c") if meta.has_ck else None)] = r
    want = sh.all_views()
    for key in sorted(set(got) | set(want), key=repr):
        g, x = got.get(key), want.get(key)
        if x is None:
            ctx.fail(["C35.state", "row-not-expected", blame.get("*", "?")], "the table has row %r = %r, the reference has none   [after %s]" % (key, g, blame.get("*", "?")))
            return False
        if g is None:
            ctx.fail(["C35.state", "row-missing", blame.get("*", "?")], "the reference has row %r = %r, the table has none   [after %s]" % (key, x, blame.get("*", "?")))
            return False
        for a in meta.attrs:
            if g.get(db_of[a]) != x.get(a):
                kind = "scalar" if a in _SCALARS else {"s": "set", "l": "list", "m": "map", "sm": "map"}[a]
                ctx.fail(["C35.state", "column", kind, blame.get(a, blame.get("*", "?"))], "row %r column %s: the table has %r, the reference %r   [after %s]" % (
                    key, a, g.get(db_of[a]), x.get(a), blame.get(a, blame.get("*", "?"))))
                return False
    cgot = {}
    for r in w.db.rows(KS, "cn"):
        cgot[(r["k"], r.get("c") if meta.has_ck else None)] = r
    for key in sorted(set(cgot) | set(sh.counters), key=repr):
        g, x = cgot.get(key), sh.counters.get(key)
        gx = None if g is None else {"n1": g.get("n1"), "n2": g.get(w.n2_db)}
        if (gx or {"n1": None, "n2": None}) != (x or {"n1": None, "n2": None}):
            ctx.fail(["C35.state", "counter"], "counter row %r: the table has %r, the reference %r" % (key, gx, x))
            return False
    # read back through the mapper
    rows = None
    w.invalid = None
    try:
        with ctx.driver(["C35.run", "readback"], expect=(_Rejected, HarnessGap)):
            rows = list(D.objects.all().limit(100))
    except _Rejected:
        ctx.fail(["C35.invalid-statement", w.invalid[0]], w.invalid[1] + "   [during readback]")
        return False
    except HarnessGap as e:
        raise AssertionError(str(e))
    if rows is None:
        return False
    seen = {}
    for o in rows:
        seen[(o.k, o.c if meta.has_ck else None)] = o
    if set(seen) != set(want):
        ctx.fail(["C35.readback", "rows"], "Model.objects.all() returned rows %r, the reference has %r" % (sorted(seen, key=repr), sorted(want, key=repr)))
        return False
    for key, o in seen.items():
        for a in meta.attrs:
            v = _tag(a, getattr(o, a))
            if v != want[key].get(a):
                ctx.fail(["C35.readback", "column", "collection" if a in _COLLS else "scalar"], "row %r read back with %s=%r, the reference has %r" % (
                    key, a, v, want[key].get(a)))
                return False
    return True


def parts(tier):
    cqlterm.self_test()
    cqlparse.self_test()
    cqlinterp.self_test()
    return [hyp_part("histories", s_case, interpret, tier, quick=700, thorough=2000)]
