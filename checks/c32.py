"""C32 -- concurrent execution returns one ordered result per statement."""
import itertools
from concurrent.futures import Future

from hypothesis import strategies as st

from checks import _simutil as U
from checks import _simctl as S
from vlib.harness import hyp_part, EnumPart

import os

# the quick tier runs in one process unless VERIF_JOBS asks for more (the box is shared)
SERIAL = os.environ.get("VERIF_TIER") == "quick" and not os.environ.get("VERIF_JOBS")
PID = "C32"
TITLE = "Concurrent execution returns one ordered result per statement"
LEVEL = "exploration"
ENGINE = "sim"
TECHNIQUE = ("exhaustive enumeration of small statement lists x per-statement behaviour x concurrency x completion order over a "
             "minimal scripted session, plus Hypothesis histories (larger lists, lock-level pre-emption) over the scripted "
             "session and over the real Session on the simulated network; cassandra.concurrent runs on virtual threads; "
             "reference = the input list itself")
RULE = ("A case is: n statements, each with a behaviour -- execute_async raises (real session: a bind error), completes before "
        "callbacks are attached with a result / an error, or completes later from another thread with a result / an error -- "
        "a concurrency, a completion priority (which outstanding execution completes next), and the entry point: "
        "(real session also: a result of two pages that the consumer reads to the end as soon as it gets it, i.e. while "
        "other statements are still outstanding with the generator variant) "
        "execute_concurrent list / generator / execute_concurrent_with_args, with and without raise_on_first_error, and "
        "execute_concurrent_async.  Exhaustive part: every n <= 3 x 5^n behaviours x concurrency 1..n+1 x every priority "
        "permutation x 7 entry points (n = 0 included).  Observed: returned list / generator items / future, exceptions, "
        "the peak number of outstanding executions, how often the async future was completed.  Non-trivial: at least two "
        "behaviour kinds present and concurrency < n.  Distinct by case digest.")
ASSUMPTIONS = ["Condition/Lock/Thread in cassandra.concurrent are virtual (sim/vthreads); completions 'from another thread' are "
               "delivered by a separate virtual thread",
               "the scripted session exposes exactly what cassandra.concurrent touches (execute_async, submit; futures with "
               "add_callbacks/clear_callbacks/has_more_pages/_col_names/_col_types); the real-session part uses the real "
               "Session/ResponseFuture with a fake server",
               "fail-fast: the list variant must raise the failure that completed first, the generator variant the first "
               "failing statement in input order (after yielding the results before it)"]

KINDS = ["raise", "sync-ok", "sync-err", "async-ok", "async-err"]
ENTRIES = ["list", "list-ff", "gen", "gen-ff", "args", "async", "async-ff"]


class StmtError(Exception):
    pass


class FakeFuture(object):
    has_more_pages = False
    _col_names = ["tag", "i"]
    _col_types = [None, None]

    def __init__(self, sess, idx, ok):
        self.sess, self.idx, self.ok = sess, idx, ok
        self.done = False
        self._cb = None
        self._eb = None

    def _value(self):
        return [("ok", self.idx)] if self.ok else StmtError("failed %d" % self.idx)

    def add_callbacks(self, callback, errback, callback_args=(), callback_kwargs=None, errback_args=(), errback_kwargs=None):
        self._cb = (callback, callback_args, callback_kwargs or {})
        self._eb = (errback, errback_args, errback_kwargs or {})
        if self.done:
            self._fire()      # like ResponseFuture: run now, exceptions propagate to the caller

    def clear_callbacks(self):
        self._cb = self._eb = None

    def _fire(self):
        fn, args, kw = self._cb if self.ok else self._eb
        fn(self._value(), *args, **kw)

    def finish(self):
        """the execution completes (called by the session for sync kinds, by a completer thread for async kinds)"""
        self.sess.inflight -= 1
        self.sess.completed.append(self.idx)
        self.done = True
        if self._cb is not None:
            try:
                self._fire()
            except Exception as e:  # noqa -- the real ResponseFuture's caller logs and drops it
                self.sess.cb_errors.append((self.idx, e))


class FakeSession(object):
    def __init__(self, kinds, world):
        self.kinds = kinds
        self.world = world
        self.calls = []
        self.completed = []          # completion order (incl. synchronous raises)
        self.outstanding = []
        self.inflight = 0
        self.peak = 0
        self.cb_errors = []

    def execute_async(self, statement, params=None, timeout=None, execution_profile=None):
        idx = statement if params is None else params[0]
        self.calls.append(idx)
        kind = self.kinds[idx]
        if kind == "raise":
            self.completed.append(idx)
            raise StmtError("failed %d" % idx)
        f = FakeFuture(self, idx, kind.endswith("ok"))
        self.inflight += 1
        self.peak = max(self.peak, self.inflight)
        if kind.startswith("sync"):
            f.finish()
        else:
            self.outstanding.append(f)
        return f

    def submit(self, fn, *args, **kwargs):
        self.world.spawn(lambda: fn(*args, **kwargs), "session-submit")


class CountingFuture(Future):
    log = None

    def set_result(self, result):
        self.log.append(("result", result))
        return Future.set_result(self, result)

    def set_exception(self, exc):
        self.log.append(("exception", exc))
        return Future.set_exception(self, exc)


def interpret_fake(case, ctx):
    import cassandra.concurrent as CC
    sim = U.Sim(tape=case.get("tape", []), granularity=case.get("gran", "blocking"))
    saved = CC.Future
    try:
        with sim:
            _run_fake(case, ctx, sim, CC)
    except U.StepBudgetExceeded:
        ctx.fail(["C32.terminates", "step-budget"], "execute_concurrent did not finish within the step budget")
    finally:
        CC.Future = saved


def _run_fake(case, ctx, sim, CC):
    kinds = case["kinds"]
    n = len(kinds)
    entry = case["entry"]
    conc = case["concurrency"]
    world = sim.world
    sess = FakeSession(kinds, world)
    flog = []

    class F(CountingFuture):
        log = flog
    CC.Future = F
    out = {}

    def caller():
        ff = entry.endswith("-ff")
        try:
            if entry.startswith("async"):
                out["future"] = CC.execute_concurrent_async(sess, [(i, None) for i in range(n)], concurrency=conc,
                                                            raise_on_first_error=ff)
            elif entry == "args":
                out["list"] = CC.execute_concurrent_with_args(sess, "stmt", [(i,) for i in range(n)], concurrency=conc,
                                                              raise_on_first_error=False)
            elif entry.startswith("gen"):
                out["items"] = []
                gen = CC.execute_concurrent(sess, [(i, None) for i in range(n)], concurrency=conc, raise_on_first_error=ff,
                                            results_generator=True)
                for item in gen:
                    out["items"].append(item)
            else:
                out["list"] = CC.execute_concurrent(sess, [(i, None) for i in range(n)], concurrency=conc,
                                                    raise_on_first_error=ff)
        except Exception as e:  # noqa -- judged below
            out["raised"] = e
    actor = world.spawn(caller, "caller")
    prio = case["priority"]
    rank = dict((idx, r) for r, idx in enumerate(prio))
    peak_at_return = None
    for _ in range(4 * n + 8):
        world.run()
        if actor.done and peak_at_return is None:
            peak_at_return = sess.peak
            out["outstanding_at_return"] = len(sess.outstanding)
        if not sess.outstanding:
            break
        sess.outstanding.sort(key=lambda f: rank.get(f.idx, 99))
        f = sess.outstanding.pop(0)
        world.spawn(f.finish, "completer-%d" % f.idx)
    world.run()
    judge(case, ctx, kinds, entry, conc, out, actor.done, sess.calls, sess.completed, sess.peak, sess.cb_errors, flog,
          lambda r: r.current_rows if hasattr(r, "current_rows") else r)
    for nm, e in world.actor_errors:
        if type(e).__name__ == "InvalidStateError":
            # the duplicate completion of the async future, surfacing in a completer / session.submit thread
            ctx.fail(["C32.callback-raised", "InvalidStateError", entry], "virtual thread %s died with %r" % (nm, e))
        else:
            ctx.fail(["C32.thread-error", type(e).__name__], "virtual thread %s died with %r" % (nm, e))
        break
    ctx.label("entry=" + entry, "n=%d" % min(n, 9), "kinds=%d" % len(set(kinds)))
    ctx.nontrivial(len(set(k.split("-")[0] for k in kinds)) >= 2 and conc < n)


def judge(case, ctx, kinds, entry, conc, out, finished, calls, completed, peak, cb_errors, flog, rows_of, expected_rows=None):
    if expected_rows is None:
        expected_rows = lambda i: [("ok", i)]  # noqa: E731
    n = len(kinds)
    ff = entry.endswith("-ff")
    fails = [i for i, k in enumerate(kinds) if not k.endswith("ok")]
    feat = [entry]
    run = best = 0
    for k in kinds:
        run = run + 1 if (k.startswith("sync") or k in ("raise", "x-err")) else 0
        best = max(best, run)
    deep = best >= 150 and any(k.startswith("sync") for k in kinds)
    real_ctx = ctx
    if deep:
        # executions that are already complete when callbacks are attached, >= 150 in a row: one mechanism (unbounded
        # recursion through add_callbacks) with many symptoms -- one key
        class _Deep(object):
            def fail(self, key, msg):
                real_ctx.fail(["C32.sync-chain>=150", "recursion"], "%s: %s" % ("/".join(map(str, key)), msg))
        ctx = _Deep()
    if not finished:
        ctx.fail(["C32.terminates", "hang"] + feat + (["empty"] if n == 0 else []),
                 "every execution completed but the call did not return (outstanding: none)")
        return
    if len(calls) != len(set(calls)):
        ctx.fail(["C32.executed-twice"] + feat, "execute_async calls %r" % (calls,))
    if peak > conc:
        ctx.fail(["C32.concurrency", "exceeded"] + feat, "peak of %d outstanding executions with concurrency=%d" % (peak, conc))

    def is_failure_of(exc, i):
        return isinstance(exc, Exception) and (str(exc).endswith("failed %d" % i) or ("failed %d\"" % i) in str(exc)
                                               or ("failed %d'" % i) in str(exc) or getattr(exc, "_stmt", None) == i)

    def check_list(res, where):
        if not isinstance(res, list) or len(res) != n:
            ctx.fail(["C32.results", "count"] + feat, "%s: %d results for %d statements: %r" % (
                where, len(res) if hasattr(res, "__len__") else -1, n, res))
            return
        for i, r in enumerate(res):
            want_ok = kinds[i].endswith("ok")
            try:
                ok, val = r
            except Exception:  # noqa
                ctx.fail(["C32.results", "shape"] + feat, "%s: item %d is %r" % (where, i, r))
                return
            if bool(ok) != want_ok:
                ctx.fail(["C32.results", "success-flag"] + feat + [kinds[i]], "%s: position %d reports success=%r for a %s statement" % (
                    where, i, ok, kinds[i]))
                return
            if want_ok:
                rows = rows_of(val)
                if [tuple(x) for x in rows] != expected_rows(i):
                    ctx.fail(["C32.results", "order"] + feat, "%s: position %d holds %r" % (where, i, rows))
                    return
            elif not is_failure_of(val, i):
                ctx.fail(["C32.results", "order"] + feat, "%s: position %d holds error %r" % (where, i, val))
                return
        if sorted(calls) != list(range(n)):
            ctx.fail(["C32.results", "not-all-executed"] + feat, "executed %r of %d" % (calls, n))

    raised = out.get("raised")
    if entry in ("list", "args", "list-ff"):
        if ff and fails:
            first = next((i for i in completed if i in fails), None)
            if raised is None:
                ctx.fail(["C32.failfast", "not-raised"] + feat, "failures %r but a list was returned" % (fails,))
            elif not any(is_failure_of(raised, i) for i in fails):
                ctx.fail(["C32.failfast", "foreign-exception", type(raised).__name__] + feat, "raised %r" % (raised,))
            elif first is not None and not is_failure_of(raised, first):
                ctx.fail(["C32.failfast", "not-the-first"] + feat, "raised %r; first failure to complete was %d (completion order %r)" % (
                    raised, first, completed))
        elif raised is not None:
            ctx.fail(["C32.raised", type(raised).__name__] + feat, "raised %r" % (raised,))
        else:
            check_list(out.get("list"), "returned list")
    elif entry in ("gen", "gen-ff"):
        items = out.get("items", [])
        if ff and fails:
            j = min(fails)
            if raised is None:
                ctx.fail(["C32.failfast", "not-raised"] + feat, "failures %r but the generator ended normally" % (fails,))
            elif not is_failure_of(raised, j):
                ctx.fail(["C32.failfast", "not-the-first"] + feat, "generator raised %r; first failing statement is %d" % (raised, j))
            elif len(items) != j:
                ctx.fail(["C32.failfast", "yielded-count"] + feat, "%d items before the failure of statement %d" % (len(items), j))
        elif raised is not None:
            ctx.fail(["C32.raised", type(raised).__name__] + feat, "generator raised %r after %d items" % (raised, len(items)))
        else:
            check_list(items, "generator items")
    else:
        fut = out.get("future")
        if raised is not None:
            ctx.fail(["C32.async", "call-raised", type(raised).__name__] + feat, "execute_concurrent_async raised %r" % (raised,))
        elif fut is None:
            ctx.fail(["C32.async", "no-future"] + feat, "no future returned")
        else:
            if len(flog) != 1:
                ctx.fail(["C32.async", "completed-%s" % ("never" if not flog else "more-than-once")] + (["empty"] if n == 0 else feat),
                         "future completed %d times: %r" % (len(flog), [(k, v if k == "exception" else "...") for k, v in flog]))
            elif not fut.done():
                ctx.fail(["C32.async", "not-done"] + feat, "future not done")
            else:
                kind, val = flog[0]
                if ff and fails:
                    first = next((i for i in completed if i in fails), None)
                    if kind != "exception":
                        ctx.fail(["C32.failfast", "not-raised"] + feat, "failures %r but the future holds a result" % (fails,))
                    elif first is not None and not is_failure_of(val, first):
                        ctx.fail(["C32.failfast", "not-the-first"] + feat, "future holds %r; first failure to complete was %d" % (val, first))
                elif kind != "result":
                    ctx.fail(["C32.async", "exception", type(val).__name__] + feat, "future holds exception %r" % (val,))
                else:
                    check_list(val, "future result")
    for idx, e in cb_errors:
        ctx.fail(["C32.callback-raised", type(e).__name__] + feat, "completion callback of statement %d raised %r" % (idx, e))
        break


# ------------------------------------------------------------------ the real Session
def interpret_real(case, ctx):
    import cassandra.concurrent as CC
    sim = U.Sim(tape=case.get("tape", []), granularity=case.get("gran", "blocking"))
    saved = CC.Future
    try:
        with sim:
            _run_real(case, ctx, sim, CC)
    except U.StepBudgetExceeded:
        ctx.stats.inconclusive += 1
        ctx.label("inconclusive:step-budget")
    finally:
        CC.Future = saved


def _run_real(case, ctx, sim, CC):
    from cassandra.cluster import EXEC_PROFILE_DEFAULT, ExecutionProfile
    from cassandra.query import SimpleStatement, tuple_factory
    kinds = case["kinds"]
    n = len(kinds)
    entry, conc = case["entry"], case["concurrency"]
    net = sim.net
    node = net.add_node("10.0.0.1")
    state = {"held": 0, "peak": 0, "arrivals": [], "completed": [], "page_fetches": 0}

    def idx_of(req):
        return int(req["query"].split("=")[-1])

    def answer(conn, req, ok):
        i = idx_of(req)
        if ok:
            ps = b"page2" if kinds[i] == "paged-ok" else None      # a first page that announces a second one
            node.reply(conn, req, "RESULT", S.result_rows_any([("tag", "text"), ("i", "int")], [["ok", i]],
                                                              version=req["version"], paging_state=ps))
        else:
            node.reply_error(conn, req, "invalid", "failed %d" % i)

    def on_request(nd, conn, req):
        if conn.is_control_connection or req["op"] != "QUERY" or not req["query"].startswith("SELECT x"):
            return None
        i = idx_of(req)
        if req.get("paging_state"):
            # the consumer iterates a result into its second page (not a new statement): answered at once, last page
            state["page_fetches"] += 1
            node.reply(conn, req, "RESULT", S.result_rows_any([("tag", "text"), ("i", "int")], [["ok2", i]], version=req["version"]))
            return ("drop",)
        state["arrivals"].append(i)
        state["peak"] = max(state["peak"], state["held"] + 1)
        k = kinds[i]
        if k.startswith("sync"):
            # (sync-err never gets here: its query plan is empty and the future fails inside execute_async;
            # sync-ok is answered at once, the response reaches the client when the event loop runs)
            answer(conn, req, k.endswith("ok"))
            return ("drop",)
        state["held"] += 1
        return ("hold",)
    node.on_request = on_request
    lbp = U.fixed_plan_policy()
    plain_plan = lbp.make_query_plan

    def make_query_plan(working_keyspace=None, query=None):
        if query is not None and "NOHOST" in getattr(query, "query_string", ""):
            return []               # no host for this statement: the future fails with NoHostAvailable at once
        return plain_plan(working_keyspace, query)
    lbp.make_query_plan = make_query_plan
    prof = ExecutionProfile(load_balancing_policy=lbp, request_timeout=None, row_factory=tuple_factory)
    cluster = sim.make_cluster(["10.0.0.1"], execution_profiles={EXEC_PROFILE_DEFAULT: prof})
    session = sim.call(cluster.connect, wait_for_all_pools=True)
    sim.settle()
    prepared = sim.call(session.prepare, "SELECT y FROM t")
    sim.settle()
    flog = []

    class F(CountingFuture):
        log = flog
    CC.Future = F
    stmts = []
    for i, k in enumerate(kinds):
        if k == "raise":
            stmts.append((prepared, (i, 2, 3)))        # too many values: bind() raises inside execute_async
        elif k == "sync-err":
            stmts.append((SimpleStatement("SELECT x FROM t WHERE NOHOST AND i=%d" % i), None))
        else:
            stmts.append((SimpleStatement("SELECT x FROM t WHERE i=%d" % i), None))
    out = {}

    def read_all(item):
        ok, val = item
        return (ok, [tuple(r) for r in val]) if ok else (ok, val)

    def caller():
        ff = entry.endswith("-ff")
        try:
            if entry.startswith("async"):
                out["future"] = session.execute_concurrent_async(stmts, concurrency=conc, raise_on_first_error=ff)
            elif entry.startswith("gen"):
                out["items"] = []
                for item in session.execute_concurrent(stmts, concurrency=conc, raise_on_first_error=ff, results_generator=True):
                    out["items"].append(read_all(item))      # while other statements are still outstanding
            else:
                out["list"] = [read_all(item) for item in
                               session.execute_concurrent(stmts, concurrency=conc, raise_on_first_error=ff)]
        except Exception as e:  # noqa
            out["raised"] = e
    real_execute_async = session.execute_async
    calls = []

    def recording_execute_async(statement, parameters=None, *args, **kwargs):
        i = parameters[0] if parameters else idx_of({"query": statement.query_string})
        calls.append(i)
        try:
            fut = real_execute_async(statement, parameters, *args, **kwargs)
        except Exception as e:
            e._stmt = i
            state["completed"].append(i)
            raise
        # client-side completion order (registered before cassandra.concurrent attaches its own callbacks)
        def failed(e):
            try:
                e._stmt = i
            except Exception:  # noqa
                pass
            state["completed"].append(i)
        fut.add_callbacks(lambda r: state["completed"].append(i), failed)
        return fut
    session.execute_async = recording_execute_async
    actor = sim.world.spawn(caller, "caller")
    rank = dict((idx, r) for r, idx in enumerate(case["priority"]))
    for _ in range(4 * n + 8):
        sim.settle()
        if not node.held:
            break
        node.held.sort(key=lambda cr: rank.get(idx_of(cr[1]), 99))
        conn, req = node.held.pop(0)
        state["held"] -= 1
        answer(conn, req, kinds[idx_of(req)].endswith("ok"))
    sim.settle()
    judge(case, ctx, [("x-err" if k == "raise" else k) for k in kinds], entry, conc, out, actor.done,
          calls, _first_completions(state["completed"]), state["peak"], [], flog,
          lambda r: r.current_rows if hasattr(r, "current_rows") else r,
          expected_rows=lambda i: [("ok", i), ("ok2", i)] if (kinds[i] == "paged-ok" and not entry.startswith("async")) else [("ok", i)])
    if state["page_fetches"]:
        ctx.label("real:page-fetched-during-run" if entry.startswith("gen") else "real:page-fetched")
    sim.call(cluster.shutdown)
    ctx.label("real:entry=" + entry, "real:n=%d" % min(n, 9))
    ctx.nontrivial(len(set(k.split("-")[0] for k in kinds)) >= 2 and conc < n)


def _first_completions(seq):
    out = []
    for i in seq:
        if i not in out:
            out.append(i)
    return out


# ------------------------------------------------------------------ generation
def real_paged_cases(chunk):
    """results of more than one page, read to the end by the consumer while the run is still going"""
    entry = chunk["entry"]
    for kinds in (["paged-ok", "async-ok", "async-ok", "async-ok"], ["async-ok", "paged-ok", "async-err", "async-ok"],
                  ["paged-ok", "paged-ok", "async-ok"], ["paged-ok"]):
        asyncs = list(range(len(kinds)))
        for conc in (1, 2):
            for prio in (asyncs, asyncs[::-1]):
                yield {"kinds": kinds, "entry": entry, "concurrency": conc, "priority": prio, "gran": "blocking", "tape": []}


def enum_chunks():
    out = []
    for n in range(0, 4):
        for entry in ENTRIES:
            out.append({"n": n, "entry": entry})
    return out


def enum_cases(chunk):
    n, entry = chunk["n"], chunk["entry"]
    for kinds in itertools.product(KINDS, repeat=n):
        asyncs = [i for i, k in enumerate(kinds) if k.startswith("async")]
        for conc in range(1, n + 2):
            for prio in itertools.permutations(asyncs):
                yield {"kinds": list(kinds), "entry": entry, "concurrency": conc, "priority": list(prio)}


def deep_cases(chunk):
    """more than max_error_recursion (100) statements failing synchronously in a row: the session.submit path"""
    for n in (101, 130):
        for conc in (1, 3):
            for tail in ("raise", "async-ok", "sync-err"):
                kinds = ["raise"] * n + [tail]
                yield {"kinds": kinds, "entry": chunk["entry"], "concurrency": conc,
                       "priority": [n] if tail.startswith("async") else []}
    # futures that are already complete when callbacks are attached, many in a row (e.g. no host available)
    for n in (120, 260):
        for kind in ("sync-ok", "sync-err"):
            yield {"kinds": [kind] * n + ["async-ok"], "entry": chunk["entry"], "concurrency": 2, "priority": [n]}


def real_deep_cases(chunk):
    for n in (120, 260):
        yield {"kinds": ["sync-err"] * n + ["async-ok"], "entry": chunk["entry"], "concurrency": 2, "priority": [n],
               "gran": "blocking", "tape": []}


@st.composite
def s_fake(draw, gran):
    n = draw(st.integers(0, 12))
    kinds = draw(st.lists(st.sampled_from(KINDS + ["async-ok", "async-ok", "sync-ok"]), min_size=n, max_size=n))
    asyncs = [i for i, k in enumerate(kinds) if k.startswith("async")]
    return {"kinds": kinds, "entry": draw(st.sampled_from(ENTRIES)), "concurrency": draw(st.integers(1, n + 2)),
            "priority": list(draw(st.permutations(asyncs))), "gran": gran,
            "tape": draw(st.lists(st.integers(0, 3), max_size=40 if gran == "locks" else 6))}


@st.composite
def s_real(draw, gran):
    n = draw(st.integers(0, 8))
    kinds = draw(st.lists(st.sampled_from(KINDS + ["async-ok", "async-ok", "paged-ok", "paged-ok"]), min_size=n, max_size=n))
    asyncs = [i for i, k in enumerate(kinds) if k.startswith("async") or k.startswith("paged")]
    return {"kinds": kinds, "entry": draw(st.sampled_from([e for e in ENTRIES if e != "args"])),
            "concurrency": draw(st.integers(1, n + 2)), "priority": list(draw(st.permutations(asyncs))), "gran": gran,
            "tape": draw(st.lists(st.integers(0, 3), max_size=40 if gran == "locks" else 6))}


def parts(tier):
    return [
        EnumPart("fake-small", enum_chunks(), enum_cases, interpret_fake),
        EnumPart("fake-deep", [{"entry": e} for e in ENTRIES], deep_cases, interpret_fake),
        hyp_part("fake-large", lambda: s_fake("blocking"), interpret_fake, tier, quick=150, thorough=3000, quick_shards=2, thorough_shards=6),
        hyp_part("fake-locks", lambda: s_fake("locks"), interpret_fake, tier, quick=150, thorough=3000, quick_shards=2, thorough_shards=6),
        EnumPart("real-deep", [{"entry": e} for e in ("list", "gen", "async")], real_deep_cases, interpret_real),
        EnumPart("real-paged", [{"entry": e} for e in ("gen", "gen-ff", "list", "list-ff", "async")], real_paged_cases,
                 interpret_real),
        hyp_part("real-session", lambda: s_real("blocking"), interpret_real, tier, quick=80, thorough=1500, quick_shards=2, thorough_shards=4),
        hyp_part("real-locks", lambda: s_real("locks"), interpret_real, tier, quick=60, thorough=1000, quick_shards=2, thorough_shards=4),
    ]
