"""Driver-side glue for the cqlengine checks (C35-C38): everything that imports cassandra.cqlengine lives here.

PUBLIC API
    SCALAR_KINDS                     cqlengine scalar column class name -> CQL type name
    tree_of(coldesc) -> spec.values type tree of a column description
    make_column(coldesc, **column_kwargs) -> cassandra.cqlengine.columns.Column instance
         coldesc: {"c": "Integer"} | {"c":"List","of":D} | {"c":"Set","of":D} | {"c":"Map","k":D,"v":D} |
                  {"c":"Tuple","of":[D..]} | {"c":"UDT","name":str,"fields":[[name,D]..]}
    build_value(coldesc, valdesc) -> python object a user would assign to such a column (see the function)
    make_tz(tzdesc) -> tzinfo        hand-built fixed-offset / DST-rule classes, pytz and zoneinfo zones
    utc_offset_minutes(tzdesc, naive_local_datetime, fold) -> the zone's offset by the *rule* (independent of tzinfo)
    FakeSession / FakeCluster        what cqlengine touches of a Session/Cluster; execute() substitutes the parameters
                                     with the real cassandra.query.bind_params + session.encoder, records an Exec and
                                     hands (text, exec) to `backend` -> (column names, rows of dicts)
    connected(backend=None, keyspace="ks") -> context manager: registers a fresh FakeSession as cqlengine connection
                                     CONNECTION, yields the session, unregisters and forgets UDT registrations on exit
    make_model(name, columns, table, keyspace) -> Model class bound to CONNECTION (no sync_table needed)
    driver_row(schema_types, row) -> python row as the driver's decoder would hand it to cqlengine (tagged -> wire ->
                                     cqltypes.from_binary)
"""
from __future__ import annotations

import contextlib
import datetime
import decimal
import ipaddress
import logging
import uuid
import warnings

from spec import values as V

logging.getLogger("cassandra").addHandler(logging.NullHandler())
logging.getLogger("cassandra").propagate = False

CONNECTION = "verif"

SCALAR_KINDS = {
    "Text": "text", "Ascii": "ascii", "Blob": "blob", "Inet": "inet", "Integer": "int", "TinyInt": "tinyint",
    "SmallInt": "smallint", "BigInt": "bigint", "VarInt": "varint", "DateTime": "timestamp", "Date": "date", "Time": "time",
    "Duration": "duration", "UUID": "uuid", "TimeUUID": "timeuuid", "Boolean": "boolean", "Float": "float", "Double": "double",
    "Decimal": "decimal", "Counter": "counter",
}


# ---------------------------------------------------------------------------------------------------------
# column descriptions
# ---------------------------------------------------------------------------------------------------------
def tree_of(d, top=True):
    c = d["c"]
    if c in SCALAR_KINDS:
        return {"t": SCALAR_KINDS[c]}
    if c in ("List", "Set"):
        t = {"t": c.lower(), "of": tree_of(d["of"], False)}
    elif c == "Map":
        t = {"t": "map", "k": tree_of(d["k"], False), "v": tree_of(d["v"], False)}
    elif c == "Tuple":
        t = {"t": "tuple", "of": [tree_of(x, False) for x in d["of"]]}
    elif c == "UDT":
        t = {"t": "udt", "ks": d.get("ks", "ks"), "name": d["name"], "fields": [[n, tree_of(x, False)] for n, x in d["fields"]]}
    else:
        raise ValueError(c)
    if not top and c in ("List", "Set", "Map"):
        return {"t": "frozen", "of": t}
    return t


_UDT_CACHE = {}


def udt_class(d):
    """cqlengine UserType class of a UDT column description (cached per structure: class creation is global state)"""
    from cassandra.cqlengine import usertype
    import json
    key = json.dumps(d, sort_keys=True)
    cls = _UDT_CACHE.get(key)
    if cls is None:
        attrs = {"__type_name__": d["name"]}
        for n, sub in d["fields"]:
            attrs[n] = make_column(sub)
        cls = usertype.UserTypeMetaClass(str("Udt_" + d["name"]), (usertype.UserType,), attrs)
        _UDT_CACHE[key] = cls
    return cls


def make_column(d, **kw):
    from cassandra.cqlengine import columns as C
    c = d["c"]
    if c in SCALAR_KINDS:
        if c == "Counter":
            return C.Counter(**{k: v for k, v in kw.items() if k in ("index", "db_field", "required")})
        return getattr(C, c)(**kw)
    if c == "List":
        return C.List(make_column(d["of"]), **kw)
    if c == "Set":
        return C.Set(make_column(d["of"]), **kw)
    if c == "Map":
        return C.Map(make_column(d["k"]), make_column(d["v"]), **kw)
    if c == "Tuple":
        return C.Tuple(*[make_column(x) for x in d["of"]], **kw)
    if c == "UDT":
        return C.UserDefinedType(udt_class(d), **kw)
    raise ValueError(c)


# ---------------------------------------------------------------------------------------------------------
# time zones
# ---------------------------------------------------------------------------------------------------------
def _nth_sunday(year, month, n):
    """day of month of the n-th (1..4) or last (n == -1) Sunday"""
    if n > 0:
        first = datetime.date(year, month, 1)
        return 1 + (6 - first.weekday()) % 7 + 7 * (n - 1)
    nxt = datetime.date(year + (month == 12), month % 12 + 1, 1)
    last = nxt - datetime.timedelta(days=1)
    return last.day - (last.weekday() + 1) % 7


# rule name -> (start month, n-th Sunday, end month, n-th Sunday, local switch hour); "south": DST spans new year
_DST_RULES = {
    "us": (3, 2, 11, 1, 2),
    "eu": (3, -1, 10, -1, 2),
    "south": (10, 1, 4, 1, 2),
}


def _rule_is_dst(rule, naive, fold=0):
    """is the wall-clock time `naive` inside the DST period of `rule` (transition at `hour` *standard* time on entry, `hour`
    DST time on exit; ambiguous hour resolved by fold, the skipped hour counts as DST)"""
    sm, sn, em, en, hour = _DST_RULES[rule]
    y = naive.year

    def switch(year, month, n):
        if not 1 <= year <= 9999:
            return None
        return datetime.datetime(year, month, _nth_sunday(year, month, n), hour)

    start, end = switch(y, sm, sn), switch(y, em, en)
    if sm < em:
        inside = start <= naive < end
        amb_lo, amb_hi = end - datetime.timedelta(hours=1), end
    else:
        inside = naive >= start or naive < end
        amb_lo, amb_hi = end - datetime.timedelta(hours=1), end
    if amb_lo <= naive < amb_hi:
        return fold == 0
    return inside


class RuleTz(datetime.tzinfo):
    """hand-built zone: standard offset + one hour of DST by a Sunday rule (like the USTimeZone of the datetime docs)"""

    def __init__(self, std_minutes, rule, name="RULE"):
        self.std = datetime.timedelta(minutes=std_minutes)
        self.rule = rule
        self.name = name
        self._args = (std_minutes, rule, name)

    def __getinitargs__(self):       # tzinfo objects are copied/pickled through their constructor
        return self._args

    def dst(self, dt):
        if dt is None:
            return datetime.timedelta(0)
        return datetime.timedelta(hours=1) if _rule_is_dst(self.rule, dt.replace(tzinfo=None), getattr(dt, "fold", 0)) else datetime.timedelta(0)

    def utcoffset(self, dt):
        return self.std + self.dst(dt)

    def tzname(self, dt):
        return self.name

    def __repr__(self):
        return "RuleTz(%r, %r)" % (self.std, self.rule)


class FixedTz(datetime.tzinfo):
    """hand-built fixed offset (not datetime.timezone, which the driver may special-case)"""

    def __init__(self, minutes):
        self.off = datetime.timedelta(minutes=minutes)
        self._args = (minutes,)

    def __getinitargs__(self):
        return self._args

    def utcoffset(self, dt):
        return self.off

    def dst(self, dt):
        return datetime.timedelta(0)

    def tzname(self, dt):
        return "FIX"


def make_tz(d):
    if d is None:
        return None
    k = d["kind"]
    if k == "fixed":
        return FixedTz(d["min"])
    if k == "timezone":
        return datetime.timezone(datetime.timedelta(minutes=d["min"]))
    if k == "rule":
        return RuleTz(d["std"], d["rule"])
    if k == "zoneinfo":
        import zoneinfo
        return zoneinfo.ZoneInfo(d["name"])
    if k == "pytz":
        import pytz
        return pytz.timezone(d["name"])
    raise ValueError(k)


def have_pytz():
    try:
        import pytz  # noqa
        return True
    except Exception:  # noqa
        return False


def have_zoneinfo():
    try:
        import zoneinfo
        zoneinfo.ZoneInfo("America/New_York")
        return True
    except Exception:  # noqa
        return False


def build_datetime(d):
    """{"ord","sod","us","tz","fold"} -> datetime (aware when tz is given; pytz zones through localize())"""
    day = datetime.date.fromordinal(d["ord"])
    sod = d["sod"]
    naive = datetime.datetime(day.year, day.month, day.day, sod // 3600, sod // 60 % 60, sod % 60, d["us"])
    tzd = d.get("tz")
    if tzd is None:
        return naive
    tz = make_tz(tzd)
    if tzd["kind"] == "pytz":
        return tz.localize(naive, is_dst=not d.get("fold", 0))
    return naive.replace(tzinfo=tz, fold=d.get("fold", 0))


def rule_offset_minutes(d):
    """UTC offset in minutes of a datetime description computed from the *rule* of hand-built zones (None for library zones)"""
    tzd = d.get("tz")
    if tzd is None:
        return 0
    if tzd["kind"] in ("fixed", "timezone"):
        return tzd["min"]
    if tzd["kind"] == "rule":
        day = datetime.date.fromordinal(d["ord"])
        sod = d["sod"]
        naive = datetime.datetime(day.year, day.month, day.day, sod // 3600, sod // 60 % 60, sod % 60, d["us"])
        return tzd["std"] + (60 if _rule_is_dst(tzd["rule"], naive, d.get("fold", 0)) else 0)
    return None


_EPOCH_ORD = datetime.date(1970, 1, 1).toordinal()


def instant_us(d, offset_minutes):
    """exact microseconds since the epoch of a datetime description at the given UTC offset (pure integer arithmetic)"""
    return (((d["ord"] - _EPOCH_ORD) * 86400 + d["sod"]) - offset_minutes * 60) * 10 ** 6 + d["us"]


# ---------------------------------------------------------------------------------------------------------
# values
# ---------------------------------------------------------------------------------------------------------
def _float(v):
    return {"nan": float("nan"), "inf": float("inf"), "-inf": float("-inf")}[v] if isinstance(v, str) else float(v)


def build_value(col, v):
    """python object for column description `col` from the JSON value description `v`:
       Text/Ascii str | Blob {"hex", "ba":bool} | Inet {"a": text, "obj": bool} | ints int | Boolean bool |
       Float/Double float or "nan"/"inf"/"-inf" | Decimal {"dec": text} or {"int": n} | UUID/TimeUUID {"hex", "str":bool} |
       DateTime {"ord","sod","us","tz","fold"} or {"date": ordinal} | Date {"ord"} (datetime.date) or {"days"} (util.Date) or
       {"dt": ordinal} (datetime at midnight) | Time {"ns", "form": "time"|"Time"|"int"} | Duration [m, d, n] |
       List [..] | Set [..] | Map [[k, v]..] | Tuple [.. or None] | UDT [.. or None] ; None anywhere -> None"""
    from cassandra import util
    if v is None:
        return None
    c = col["c"]
    if c in ("Text", "Ascii"):
        return v
    if c == "Blob":
        b = bytes.fromhex(v["hex"])
        return bytearray(b) if v.get("ba") else b
    if c == "Inet":
        return ipaddress.ip_address(v["a"]) if v.get("obj") else v["a"]
    if c in ("Integer", "TinyInt", "SmallInt", "BigInt", "VarInt", "Counter"):
        return int(v)
    if c == "Boolean":
        return bool(v)
    if c in ("Float", "Double"):
        return _float(v)
    if c == "Decimal":
        return decimal.Decimal(v["dec"]) if "dec" in v else int(v["int"])
    if c in ("UUID", "TimeUUID"):
        u = uuid.UUID(v["hex"])
        return str(u) if v.get("str") else u
    if c == "DateTime":
        if "date" in v:
            return datetime.date.fromordinal(v["date"])
        return build_datetime(v)
    if c == "Date":
        if "days" in v:
            return util.Date(v["days"])
        if "dtv" in v:      # a full datetime description (naive or aware, any time of day) given to a date column
            return build_datetime(v["dtv"])
        if "dt" in v:
            day = datetime.date.fromordinal(v["dt"])
            return datetime.datetime(day.year, day.month, day.day, 13, 14, 15)
        return datetime.date.fromordinal(v["ord"])
    if c == "Time":
        ns = v["ns"]
        if v.get("form") == "Time":
            return util.Time(ns)
        if v.get("form") == "int":
            return ns
        us = ns // 1000
        return datetime.time(us // 3600000000, us // 60000000 % 60, us // 1000000 % 60, us % 1000000)
    if c == "Duration":
        return util.Duration(v[0], v[1], v[2])
    if c == "List":
        return [build_value(col["of"], x) for x in v]
    if c == "Set":
        return set(build_value(col["of"], x) for x in v)
    if c == "Map":
        return dict((build_value(col["k"], a), build_value(col["v"], b)) for a, b in v)
    if c == "Tuple":
        return tuple(build_value(sub, x) for sub, x in zip(col["of"], v))
    if c == "UDT":
        cls = udt_class(col)
        return cls(**dict((n, build_value(sub, x)) for (n, sub), x in zip(col["fields"], v)))
    raise ValueError(c)


# ---------------------------------------------------------------------------------------------------------
# fake session
# ---------------------------------------------------------------------------------------------------------
class Exec(object):
    """one Session.execute call as cqlengine made it"""
    __slots__ = ("statement", "raw", "params", "text", "timeout", "routing_key", "keyspace", "consistency", "fetch_size", "error")

    def __init__(self, statement, raw, params, timeout):
        self.statement, self.raw, self.params, self.timeout = statement, raw, params, timeout
        self.text = None
        self.error = None
        self.routing_key = getattr(statement, "routing_key", None)
        self.keyspace = getattr(statement, "keyspace", None)
        self.consistency = getattr(statement, "consistency_level", None)
        self.fetch_size = getattr(statement, "fetch_size", None)


class _Profile(object):
    def __init__(self, row_factory):
        self.row_factory = row_factory
        self.consistency_level = None


class _ProfileManager(object):
    def __init__(self, row_factory):
        self.default = _Profile(row_factory)


class _TypeMeta(object):
    def __init__(self, field_names):
        self.field_names = field_names


class _KsMeta(object):
    def __init__(self):
        self.user_types = {}
        self.tables = {}


class _Metadata(object):
    def __init__(self):
        self.keyspaces = {}


class FakeCluster(object):
    def __init__(self, protocol_version=4):
        from cassandra.cluster import _ConfigMode
        from cassandra.query import dict_factory
        self.protocol_version = protocol_version
        self._config_mode = _ConfigMode.LEGACY
        self.profile_manager = _ProfileManager(dict_factory)
        self.metadata = _Metadata()
        self.sessions = []
        self.registered_udts = []
        self.is_shutdown = False

    def declare_udt(self, keyspace, name, field_names):
        """what CREATE TYPE would have put into the schema metadata"""
        self.metadata.keyspaces.setdefault(keyspace, _KsMeta()).user_types[name] = _TypeMeta(list(field_names))

    def register_user_type(self, keyspace, user_type, klass):
        # Cluster.register_user_type: remember + tell every session (the real Session.user_type_registered installs the
        # simple-statement encoder for the class)
        from cassandra.cluster import Session
        self.registered_udts.append((keyspace, user_type, klass))
        for s in self.sessions:
            Session.user_type_registered(s, keyspace, user_type, klass)

    def shutdown(self):
        self.is_shutdown = True


class _Future(object):
    """the slice of ResponseFuture a ResultSet looks at"""
    has_more_pages = False
    _continuous_paging_session = None
    _paging_state = None

    def __init__(self, query, names, row_factory):
        self.query = query
        self._col_names = names
        self._col_types = None
        self.row_factory = row_factory


class FakeSession(object):
    def __init__(self, backend=None, keyspace=None, protocol_version=4):
        from cassandra.encoder import Encoder
        from cassandra.query import dict_factory
        self.cluster = FakeCluster(protocol_version)
        self.cluster.sessions.append(self)
        self.hosts = []
        self.keyspace = keyspace
        self.row_factory = dict_factory
        self.encoder = Encoder()
        self.default_consistency_level = None
        self.default_timeout = 10.0
        self.backend = backend
        self.log = []

    def execute(self, query, parameters=None, timeout=None, trace=False, **kw):
        from cassandra.cluster import ResultSet
        from cassandra.query import SimpleStatement, bind_params
        if isinstance(query, str):
            query = SimpleStatement(query)
        raw = query.query_string
        ex = Exec(query, raw, parameters, timeout)
        self.log.append(ex)
        # Session._create_response_future: a simple statement's parameters are substituted client side
        ex.text = bind_params(raw, parameters, self.encoder) if parameters else raw
        names, rows = [], []
        if self.backend is not None:
            names, rows = self.backend(ex.text, ex)
        return ResultSet(_Future(query, names, self.row_factory), rows)

    def shutdown(self):
        pass


@contextlib.contextmanager
def connected(backend=None, keyspace="ks", protocol_version=4):
    from cassandra.cqlengine import connection as conn
    from cassandra.cqlengine import models
    session = FakeSession(backend, keyspace=None, protocol_version=protocol_version)
    saved_udts = dict((k, dict(v)) for k, v in conn.udt_by_keyspace.items())
    saved_default_ks = models.DEFAULT_KEYSPACE
    saved_default = conn._connections.get(conn.DEFAULT_CONNECTION)
    saved_globals = (conn.cluster, conn.session)
    # also the default connection: a BatchQuery fed only by query sets executes on the default connection
    conn.register_connection(CONNECTION, session=session, default=True)
    try:
        with warnings.catch_warnings():
            warnings.simplefilter("ignore")
            yield session
    finally:
        conn.unregister_connection(CONNECTION)
        if saved_default is not None:
            conn._connections[conn.DEFAULT_CONNECTION] = saved_default
        conn.cluster, conn.session = saved_globals
        conn.udt_by_keyspace.clear()
        for k, v in saved_udts.items():
            conn.udt_by_keyspace[k].update(v)
        models.DEFAULT_KEYSPACE = saved_default_ks


def make_model(name, columns, table="t", keyspace="ks", **attrs):
    """columns: ordered [(attribute name, Column instance)]"""
    from cassandra.cqlengine import models
    body = {"__keyspace__": keyspace, "__table_name__": table, "__connection__": CONNECTION, "__abstract__": False}
    body.update(attrs)
    for n, c in columns:
        body[n] = c
    return models.ModelMetaClass(str(name), (models.Model,), body)


def driver_value(tree, tagged):
    """python object the driver's decoder produces for the tagged value (None for null; an empty collection is null)"""
    from checks import _drv
    if tagged is None:
        return None
    wire = V.encode(tree, tagged, 4)
    if wire is None:
        return None
    return _drv.build_type(tree, "direct").from_binary(wire, 4)
