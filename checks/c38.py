"""C38 -- cqlengine routing keys equal the partition key Cassandra hashes."""
import json
import os
import re
import struct

from hypothesis import strategies as st

from checks import c36 as G
from spec import cqlparse, cqlterm
from spec import values as V
from vlib.harness import hyp_part

PID = "C38"
TITLE = "cqlengine routing keys equal the partition key Cassandra hashes"
LEVEL = "exploration"
ENGINE = "codec"
SERIAL = os.environ.get("VERIF_TIER") == "quick"
TECHNIQUE = ("property-based testing (Hypothesis): generated models and operations run against a fake session registered as cqlengine "
             "connection; the routing_key/keyspace of the SimpleStatement handed to Session.execute is compared with the independent "
             "encoding (spec.values.encode, composite framing u16 length | bytes | 0) of the partition key values that Cassandra reads "
             "from the very statement text (independent CQL parser + literal conversion), and with the values requested; the ORDER of the "
             "components is the one of the PRIMARY KEY ((...)) clause of the CREATE TABLE statement cqlengine issues for the model "
             "(management._get_create_table), which is what the server hashes, also when the key columns are inherited")
RULE = ("One case = a model with 1-3 partition key columns drawn from every key-capable cqlengine column (Text, Ascii, Integer, TinyInt, "
        "SmallInt, BigInt, VarInt, UUID, TimeUUID, DateTime, Date, Time, Boolean, Inet, Blob, Decimal, Float, Double), 0-2 clustering "
        "columns, optional db_field names, and 1-4 operations with boundary-weighted key values (generators of C36): create, get, "
        "queryset update / delete with equality on the whole key, save / delete of a loaded instance (statements that fix the partition "
        "key), and select/update with IN on a key column, a partial composite key, token() or a model with __compute_routing_key__ = "
        "False (statements that do not).  The columns are declared in one class (layout flat), spread over a chain of abstract "
        "bases A <- B <- model (chain), or over two abstract mixins and the model itself (mixin) where the mixins are defined in either "
        "order and listed in the bases tuple in either order, so that the order of the inherited partition key components in the table "
        "is independent of the order in which the column objects were instantiated (Column.position).  Non-trivial: a composite partition key, or a key column whose to_database form differs from "
        "the Python value (DateTime, Date, Time, Decimal, Blob, aware datetimes).")
ASSUMPTIONS = [
    "spec.values.encode stands for Cassandra's serializers; the composite partition key framing is the one of CompositeType (u16 length, bytes, 0 byte per component)",
    "the partition key a statement addresses is what Cassandra reads from the statement text after the driver's own parameter substitution "
    "(spec.cqlparse / spec.cqlterm); whether that text carries the requested value is the business of C36/C37 and is only cross-checked "
    "here for types without a known C36 conversion defect (everything except DateTime)",
    "token equality between routing key and row follows from C08 (murmur3) and is not re-checked",
    "the partition key order of the table is the one of the CREATE TABLE text produced by cqlengine.management for the model (the table a "
    "cqlengine user has); a clustering / data column is only placed in an abstract base that also declares a partition key column (an abstract "
    "base with primary keys but no partition key promotes its first primary key, which is outside this property)",
    "batches carry no routing key in cqlengine (BatchQuery sends plain text) and are not exercised",
]

_KEY_KINDS = ["Text", "Ascii", "Integer", "TinyInt", "SmallInt", "BigInt", "VarInt", "UUID", "TimeUUID", "DateTime", "Date", "Time", "Boolean",
              "Inet", "Blob", "Decimal", "Float", "Double"]
_FIXING = ["create", "get", "qupdate", "qdelete", "isave", "idelete", "select"]
_NOT_FIXING = ["select_in", "select_partial", "select_token", "qupdate_in"]


def _key_value(kind):
    if kind == "Float":
        return G.s_float32().filter(lambda f: f != "nan")
    if kind in G._KEYS:
        return G._key_value(kind)
    v = G.s_scalar_value(kind)
    if kind == "Decimal":
        return v
    return v


def s_case():
    def with_kinds(pk, ck):
        op = st.fixed_dictionaries({
            "op": st.one_of(st.sampled_from(_FIXING), st.sampled_from(_FIXING), st.sampled_from(_NOT_FIXING)),
            "pk": st.tuples(*[_key_value(k) for k in pk]).map(list),
            "pk2": st.tuples(*[_key_value(k) for k in pk]).map(list),
            "ck": st.tuples(*[_key_value(k) for k in ck]).map(list),
            "which": st.integers(0, 2)})
        return st.fixed_dictionaries({
            "pk": st.just(pk), "ck": st.just(ck), "pk_db": st.lists(st.sampled_from([False, False, True]), min_size=3, max_size=3),
            "compute": st.sampled_from([True] * 9 + [False]), "pv": st.sampled_from([3, 4, 4, 5]),
            "layout": st.fixed_dictionaries({
                "mode": st.sampled_from(["flat", "flat", "chain", "mixin", "mixin", "mixin"]),
                "pk_owner": st.lists(st.sampled_from([0, 1, 2, 1, 2]), min_size=3, max_size=3),       # 0 = the model itself, 1 = base A, 2 = base B
                "ck_owner": st.lists(st.integers(0, 2), min_size=2, max_size=2),
                "data_owner": st.lists(st.integers(0, 2), min_size=2, max_size=2),
                "define_b_first": st.booleans(), "list_b_first": st.booleans()}),
            "ops": st.lists(op, min_size=1, max_size=4)})
    ck_kinds = ["Integer", "Text", "DateTime", "UUID", "Time"]
    return st.tuples(st.lists(st.sampled_from(_KEY_KINDS), min_size=1, max_size=3), st.lists(st.sampled_from(ck_kinds), max_size=2)).flatmap(
        lambda p: with_kinds(p[0], p[1]))


def tagged_of(kind, d):
    """tagged value of a key value description, computed from the description alone (None when C36's DateTime defects apply)"""
    import datetime
    import decimal
    import ipaddress
    if kind in ("Text", "Ascii"):
        return d
    if kind == "Blob":
        return d["hex"]
    if kind == "Inet":
        return str(ipaddress.ip_address(d["a"]))
    if kind in ("Integer", "TinyInt", "SmallInt", "BigInt", "VarInt"):
        return int(d)
    if kind == "Boolean":
        return bool(d)
    if kind in ("UUID", "TimeUUID"):
        return d["hex"]
    if kind == "Date":
        if "days" in d:
            return d["days"]
        return d.get("ord", d.get("dt")) - G._EPOCH_ORD
    if kind == "Time":
        return d["ns"]
    if kind == "Decimal":
        if "int" in d:
            return [1 if d["int"] < 0 else 0, str(abs(d["int"])), 0]
        sign, digits, exp = decimal.Decimal(d["dec"]).as_tuple()
        return [sign, "".join(map(str, digits)), exp]
    if kind == "Double":
        return d
    if kind == "Float":
        if isinstance(d, str):
            return d
        return struct.unpack(">f", struct.pack(">f", d))[0]
    return None


def composite(parts):
    if len(parts) == 1:
        return parts[0]
    return b"".join(struct.pack(">H", len(p)) + p + b"\x00" for p in parts)


def interpret(case, ctx):
    from cassandra.cqlengine import functions, management
    from cassandra.cqlengine.query import DoesNotExist, QueryException
    from checks import _cqle
    pk_kinds, ck_kinds = case["pk"], case["ck"]
    layout = case.get("layout") or {"mode": "flat"}
    mode = layout["mode"]
    specs = []      # (attr, db, role, kind, tree, owner, column kwargs)
    for i, k in enumerate(pk_kinds):
        attr = "p%d" % i
        db = "dbp%d" % i if case["pk_db"][i] else attr
        owner = 0 if mode == "flat" else layout["pk_owner"][i]
        specs.append((attr, db, "pk", k, _cqle.tree_of({"c": k}), owner, dict(partition_key=True, db_field=db if db != attr else None)))
    pk_owners = set(sp[5] for sp in specs)
    for i, k in enumerate(ck_kinds):
        attr = "c%d" % i
        owner = 0 if mode == "flat" else layout["ck_owner"][i]
        if owner not in pk_owners:
            owner = 0       # see ASSUMPTIONS: no primary key column in a base without a partition key column
        specs.append((attr, attr, "ck", k, _cqle.tree_of({"c": k}), owner, dict(primary_key=True)))
    for i, (attr, k) in enumerate((("v", "Integer"), ("w", "Text"))):
        owner = 0 if mode == "flat" else layout["data_owner"][i]
        specs.append((attr, attr, "data", k, None, owner, {}))
    pks = [sp[:5] for sp in specs if sp[2] == "pk"]
    cks = [sp[:5] for sp in specs if sp[2] == "ck"]
    for k in pk_kinds:
        ctx.label("pk:" + k)
    ctx.label("pk-columns:%d" % len(pks))
    ctx.label("layout:" + mode)
    if len(set(o for o in pk_owners if o)) == 2:
        ctx.label("layout:%s-pk-in-both-bases" % mode)
    if mode == "mixin" and layout["define_b_first"] != layout["list_b_first"]:
        ctx.label("layout:mixins-listed-against-definition-order")
    ctx.nontrivial(len(pks) > 1 or any(k in ("DateTime", "Date", "Time", "Decimal", "Blob") for k in pk_kinds))

    def body_of(owner):
        # column objects are instantiated when "their" class body runs, in textual order: Column.position follows class definition order
        return [(sp[0], _cqle.make_column({"c": sp[3]}, **sp[6])) for sp in specs if sp[5] == owner]

    def build_model(attrs):
        from cassandra.cqlengine import models
        if mode == "flat":
            return _cqle.make_model("M38", body_of(0), **attrs)
        def abstract(name, bases, owner):
            body = {"__abstract__": True}
            body.update(body_of(owner))
            return models.ModelMetaClass(name, bases, body)
        if mode == "chain":
            a = abstract("A38", (models.Model,), 1)
            b = abstract("B38", (a,), 2)
            bases = (b,)
        else:
            if layout["define_b_first"]:
                b = abstract("B38", (models.Model,), 2)
                a = abstract("A38", (models.Model,), 1)
            else:
                a = abstract("A38", (models.Model,), 1)
                b = abstract("B38", (models.Model,), 2)
            bases = (b, a) if layout["list_b_first"] else (a, b)
        body = {"__keyspace__": "ks", "__table_name__": "t", "__connection__": _cqle.CONNECTION, "__abstract__": False}
        body.update(attrs)
        body.update(body_of(0))
        return models.ModelMetaClass("M38", bases, body)

    state = {"row": None}

    def backend(text, ex):
        if text.lstrip().upper().startswith("SELECT") and state["row"] is not None:
            return list(state["row"]), [dict(state["row"])]
        return [], []

    with _cqle.connected(backend, protocol_version=case["pv"]) as session:
        attrs = {} if case["compute"] else {"__compute_routing_key__": False}
        with ctx.driver(["C38.model", mode]):
            M = build_model(attrs)
            ddl = management._get_create_table(M)
        if ctx._failures:
            return
        # ---- the table's partition key order: the PRIMARY KEY ((...)) clause of the table cqlengine creates for this model
        m = re.search(r'PRIMARY KEY \(\(([^)]*)\)([^)]*)\)', ddl)
        table_pk = [n.strip().strip('"') for n in m.group(1).split(",")] if m else []
        table_ck = [n.strip().strip('"') for n in m.group(2).split(",") if n.strip()] if m else []
        if sorted(table_pk) != sorted(c[1] for c in pks) or sorted(table_ck) != sorted(c[1] for c in cks):
            ctx.fail(["C38.model", "primary-key-columns", mode], "declared partition key %r clustering %r, table %r" % (
                [c[1] for c in pks], [c[1] for c in cks], ddl))
            return
        order = [[c[1] for c in pks].index(n) for n in table_pk]
        ck_order = [[c[1] for c in cks].index(n) for n in table_ck]
        pks = [pks[i] for i in order]
        cks = [cks[i] for i in ck_order]
        positions = [getattr(M._columns[c[0]], "position", 0) for c in pks]         # label only
        if positions != sorted(positions):
            ctx.label("table-key-order!=column-instantiation-order")
        for op in case["ops"]:
            op = dict(op, pk=[op["pk"][i] for i in order], pk2=[op["pk2"][i] for i in order], ck=[op["ck"][i] for i in ck_order])
            kind = op["op"]
            ctx.label("op:" + kind)
            pv = [_cqle.build_value({"c": c[3]}, d) for c, d in zip(pks, op["pk"])]
            cv = [_cqle.build_value({"c": c[3]}, d) for c, d in zip(cks, op["ck"])]
            keykw = dict((c[0], v) for c, v in zip(pks + cks, pv + cv))
            fixing = kind in _FIXING and case["compute"]
            start = len(session.log)
            which = op["which"] % len(pks)
            with ctx.driver(["C38.run", kind], expect=(QueryException, DoesNotExist)):
                try:
                    if kind == "create":
                        M.create(v=1, **keykw)
                    elif kind in ("get", "isave", "idelete"):
                        row = dict((c[1], v) for c, v in zip(pks + cks, pv + cv))
                        row.update({"v": 5, "w": "x"})
                        state["row"] = row
                        inst = M.get(**keykw)
                        state["row"] = None
                        if kind == "isave":
                            del session.log[start:]
                            inst.v = 6
                            inst.w = None
                            inst.save()
                        elif kind == "idelete":
                            del session.log[start:]
                            inst.delete()
                    elif kind == "qupdate":
                        M.objects.filter(**keykw).update(v=7, w=None)
                    elif kind == "qdelete":
                        M.objects.filter(**dict((c[0], v) for c, v in zip(pks, pv))).delete()
                    elif kind == "select":
                        list(M.objects.filter(**keykw).limit(3))
                    elif kind in ("select_in", "qupdate_in"):
                        kw = dict(keykw)
                        other = _cqle.build_value({"c": pks[which][3]}, op["pk2"][which])
                        del kw[pks[which][0]]
                        kw[pks[which][0] + "__in"] = [pv[which], other]
                        if kind == "select_in":
                            list(M.objects.filter(**kw))
                        else:
                            M.objects.filter(**kw).update(v=8)
                    elif kind == "select_partial":
                        kw = dict((c[0], v) for c, v in zip(pks, pv))
                        if len(pks) > 1:
                            del kw[pks[which][0]]
                            list(M.objects.filter(**kw).allow_filtering())
                        else:
                            fixing = False
                            list(M.objects.filter(v=3).allow_filtering())
                    elif kind == "select_token":
                        list(M.objects.filter(pk__token__gt=functions.Token(*pv)))
                except (QueryException, DoesNotExist) as e:
                    ctx.label("refused:" + type(e).__name__)
                    state["row"] = None
                    continue
                finally:
                    state["row"] = None
            if ctx._failures:
                return
            for ex in session.log[start:]:
                check_exec(ctx, ex, pks, op, fixing, kind)
                if ctx._failures:
                    return


def check_exec(ctx, ex, pks, op, fixing, kind):
    rk = ex.routing_key
    if not fixing:
        if rk is not None:
            ctx.fail(["C38.routing_key", "unexpected", kind], "statement %r does not fix the partition key but carries the routing key %s" % (
                ex.text[:200], rk.hex() if isinstance(rk, bytes) else repr(rk)))
        else:
            ctx.label("no-routing-key")
        return
    try:
        ast = cqlparse.parse_statement(ex.text)
    except ValueError as e:
        ctx.label("unparseable")        # C37's business
        return
    # ---- the partition key Cassandra reads from the statement
    found = {}
    if ast["stmt"] == "insert":
        for n, t in zip(ast["columns"], ast["values"]):
            found[n] = t
    else:
        for r in ast.get("where", []):
            if "col" in r["lhs"] and r["op"] == "=":
                found[r["lhs"]["col"]] = r["rhs"]
    parts, described = [], []
    for (attr, db, _role, k, tree), d in zip(pks, op["pk"]):
        if db not in found:
            ctx.fail(["C38.statement", "key-column-missing"], "statement %r does not fix partition key column %s" % (ex.text[:200], db))
            return
        try:
            v = cqlterm.denote(found[db], tree)
            parts.append(V.encode(tree, v, 4))
        except (cqlterm.Invalid, cqlterm.Unsupported, V.SpecError) as e:
            ctx.label("key-literal-rejected")      # C36's business
            return
        t = tagged_of(k, d)
        if t is not None:
            try:
                described.append(V.encode(tree, t, 4))
            except V.SpecError:
                described.append(None)
        else:
            described.append(None)
    want = composite(parts)
    shape = "composite" if len(pks) > 1 else "single"
    if not isinstance(rk, bytes):
        ctx.fail(["C38.routing_key", "missing" if rk is None else "type", shape], "statement %r fixes the partition key but routing_key is %r" % (ex.text[:200], rk))
        return
    if rk != want:
        # which component differs
        blame = "framing"
        if len(pks) == 1:
            blame = pks[0][3]
        else:
            pos, ok = 0, True
            for (attr, db, _r, k, _t), p in zip(pks, parts):
                if len(rk) < pos + 3:
                    ok = False
                    break
                ln = struct.unpack(">H", rk[pos:pos + 2])[0]
                comp, end = rk[pos + 2:pos + 2 + ln], rk[pos + 2 + ln:pos + 3 + ln]
                if end != b"\x00":
                    ok = False
                    break
                if comp != p:
                    blame = k if sorted(parts) != sorted(_components(rk)) else "order"
                    break
                pos += 3 + ln
            if not ok:
                blame = "framing"
        ctx.fail(["C38.routing_key", "value", shape, blame], "statement %r: routing key %s, Cassandra hashes %s" % (ex.text[:200], rk.hex(), want.hex()))
        return
    if ex.keyspace != "ks":
        ctx.fail(["C38.keyspace"], "routing key attached but statement.keyspace is %r" % (ex.keyspace,))
    # ---- and it is the key that was asked for
    for (attr, db, _r, k, _t), p, dsc in zip(pks, parts, described):
        if dsc is not None and dsc != p:
            ctx.fail(["C38.statement", "key-value", k], "partition key column %s: the statement addresses %s, requested %s" % (db, p.hex(), dsc.hex()))
            return
    ctx.label("routing-key-checked")


def _components(rk):
    out, pos = [], 0
    while pos + 3 <= len(rk):
        ln = struct.unpack(">H", rk[pos:pos + 2])[0]
        out.append(rk[pos + 2:pos + 2 + ln])
        pos += 3 + ln
    return out


def parts(tier):
    cqlterm.self_test()
    cqlparse.self_test()
    return [hyp_part("routing", s_case, interpret, tier, quick=700, thorough=6000)]
