"""C38 -- cqlengine routing keys equal the partition key Cassandra hashes."""
import json
import os
import struct

from hypothesis import strategies as st

from checks import c36 as G
from spec import cqlparse, cqlterm
from spec import values as V
from vlib.harness import hyp_part

PID = "C38"
TITLE = "cqlengine routing keys equal the partition key Cassandra hashes"
LEVEL = "exploration"
ENGINE = "codec"
SERIAL = os.environ.get("VERIF_TIER") == "quick"
TECHNIQUE = ("property-based testing (Hypothesis): generated models and operations run against a fake session registered as cqlengine "
             "connection; the routing_key/keyspace of the SimpleStatement handed to Session.execute is compared with the independent "
             "encoding (spec.values.encode, composite framing u16 length | bytes | 0) of the partition key values that Cassandra reads "
             "from the very statement text (independent CQL parser + literal conversion), and with the values requested")
RULE = ("One case = a model with 1-3 partition key columns drawn from every key-capable cqlengine column (Text, Ascii, Integer, TinyInt, "
        "SmallInt, BigInt, VarInt, UUID, TimeUUID, DateTime, Date, Time, Boolean, Inet, Blob, Decimal, Float, Double), 0-2 clustering "
        "columns, optional db_field names, and 1-4 operations with boundary-weighted key values (generators of C36): create, get, "
        "queryset update / delete with equality on the whole key, save / delete of a loaded instance (statements that fix the partition "
        "key), and select/update with IN on a key column, a partial composite key, token() or a model with __compute_routing_key__ = "
        "False (statements that do not).  Non-trivial: a composite partition key, or a key column whose to_database form differs from "
        "the Python value (DateTime, Date, Time, Decimal, Blob, aware datetimes).")
ASSUMPTIONS = [
    "spec.values.encode stands for Cassandra's serializers; the composite partition key framing is the one of CompositeType (u16 length, bytes, 0 byte per component)",
    "the partition key a statement addresses is what Cassandra reads from the statement text after the driver's own parameter substitution "
    "(spec.cqlparse / spec.cqlterm); whether that text carries the requested value is the business of C36/C37 and is only cross-checked "
    "here for types without a known C36 conversion defect (everything except DateTime)",
    "token equality between routing key and row follows from C08 (murmur3) and is not re-checked",
    "batches carry no routing key in cqlengine (BatchQuery sends plain text) and are not exercised",
]

_KEY_KINDS = ["Text", "Ascii", "Integer", "TinyInt", "SmallInt", "BigInt", "VarInt", "UUID", "TimeUUID", "DateTime", "Date", "Time", "Boolean",
              "Inet", "Blob", "Decimal", "Float", "Double"]
_FIXING = ["create", "get", "qupdate", "qdelete", "isave", "idelete", "select"]
_NOT_FIXING = ["select_in", "select_partial", "select_token", "qupdate_in"]


def _key_value(kind):
    if kind == "Float":
        return G.s_float32().filter(lambda f: f != "nan")
    if kind in G._KEYS:
        return G._key_value(kind)
    v = G.s_scalar_value(kind)
    if kind == "Decimal":
        return v
    return v


def s_case():
    def with_kinds(pk, ck):
        op = st.fixed_dictionaries({
            "op": st.one_of(st.sampled_from(_FIXING), st.sampled_from(_FIXING), st.sampled_from(_NOT_FIXING)),
            "pk": st.tuples(*[_key_value(k) for k in pk]).map(list),
            "pk2": st.tuples(*[_key_value(k) for k in pk]).map(list),
            "ck": st.tuples(*[_key_value(k) for k in ck]).map(list),
            "which": st.integers(0, 2)})
        return st.fixed_dictionaries({
            "pk": st.just(pk), "ck": st.just(ck), "pk_db": st.lists(st.sampled_from([False, False, True]), min_size=3, max_size=3),
            "compute": st.sampled_from([True] * 9 + [False]), "pv": st.sampled_from([3, 4, 4, 5]),
            "ops": st.lists(op, min_size=1, max_size=4)})
    ck_kinds = ["Integer", "Text", "DateTime", "UUID", "Time"]
    return st.tuples(st.lists(st.sampled_from(_KEY_KINDS), min_size=1, max_size=3), st.lists(st.sampled_from(ck_kinds), max_size=2)).flatmap(
        lambda p: with_kinds(p[0], p[1]))


def tagged_of(kind, d):
    """tagged value of a key value description, computed from the description alone (None when C36's DateTime defects apply)"""
    import datetime
    import decimal
    import ipaddress
    if kind in ("Text", "Ascii"):
        return d
    if kind == "Blob":
        return d["hex"]
    if kind == "Inet":
        return str(ipaddress.ip_address(d["a"]))
    if kind in ("Integer", "TinyInt", "SmallInt", "BigInt", "VarInt"):
        return int(d)
    if kind == "Boolean":
        return bool(d)
    if kind in ("UUID", "TimeUUID"):
        return d["hex"]
    if kind == "Date":
        if "days" in d:
            return d["days"]
        return d.get("ord", d.get("dt")) - G._EPOCH_ORD
    if kind == "Time":
        return d["ns"]
    if kind == "Decimal":
        if "int" in d:
            return [1 if d["int"] < 0 else 0, str(abs(d["int"])), 0]
        sign, digits, exp = decimal.Decimal(d["dec"]).as_tuple()
        return [sign, "".join(map(str, digits)), exp]
    if kind == "Double":
        return d
    if kind == "Float":
        if isinstance(d, str):
            return d
        return struct.unpack(">f", struct.pack(">f", d))[0]
    return None


def composite(parts):
    if len(parts) == 1:
        return parts[0]
    return b"".join(struct.pack(">H", len(p)) + p + b"\x00" for p in parts)


def interpret(case, ctx):
    from cassandra.cqlengine import functions
    from cassandra.cqlengine.query import DoesNotExist, QueryException
    from checks import _cqle
    pk_kinds, ck_kinds = case["pk"], case["ck"]
    cols = []       # (attr, db, role, kind, tree)
    defs = []
    for i, k in enumerate(pk_kinds):
        attr = "p%d" % i
        db = "dbp%d" % i if case["pk_db"][i] else attr
        cols.append((attr, db, "pk", k, _cqle.tree_of({"c": k})))
        defs.append((attr, _cqle.make_column({"c": k}, partition_key=True, db_field=db if db != attr else None)))
    for i, k in enumerate(ck_kinds):
        attr = "c%d" % i
        cols.append((attr, attr, "ck", k, _cqle.tree_of({"c": k})))
        defs.append((attr, _cqle.make_column({"c": k}, primary_key=True)))
    defs.append(("v", _cqle.make_column({"c": "Integer"})))
    defs.append(("w", _cqle.make_column({"c": "Text"})))
    pks = [c for c in cols if c[2] == "pk"]
    cks = [c for c in cols if c[2] == "ck"]
    for k in pk_kinds:
        ctx.label("pk:" + k)
    ctx.label("pk-columns:%d" % len(pks))
    ctx.nontrivial(len(pks) > 1 or any(k in ("DateTime", "Date", "Time", "Decimal", "Blob") for k in pk_kinds))

    state = {"row": None}

    def backend(text, ex):
        if text.lstrip().upper().startswith("SELECT") and state["row"] is not None:
            return list(state["row"]), [dict(state["row"])]
        return [], []

    with _cqle.connected(backend, protocol_version=case["pv"]) as session:
        attrs = {} if case["compute"] else {"__compute_routing_key__": False}
        M = _cqle.make_model("M38", defs, **attrs)
        for op in case["ops"]:
            kind = op["op"]
            ctx.label("op:" + kind)
            pv = [_cqle.build_value({"c": c[3]}, d) for c, d in zip(pks, op["pk"])]
            cv = [_cqle.build_value({"c": c[3]}, d) for c, d in zip(cks, op["ck"])]
            keykw = dict((c[0], v) for c, v in zip(pks + cks, pv + cv))
            fixing = kind in _FIXING and case["compute"]
            start = len(session.log)
            which = op["which"] % len(pks)
            with ctx.driver(["C38.run", kind], expect=(QueryException, DoesNotExist)):
                try:
                    if kind == "create":
                        M.create(v=1, **keykw)
                    elif kind in ("get", "isave", "idelete"):
                        row = dict((c[1], v) for c, v in zip(pks + cks, pv + cv))
                        row.update({"v": 5, "w": "x"})
                        state["row"] = row
                        inst = M.get(**keykw)
                        state["row"] = None
                        if kind == "isave":
                            del session.log[start:]
                            inst.v = 6
                            inst.w = None
                            inst.save()
                        elif kind == "idelete":
                            del session.log[start:]
                            inst.delete()
                    elif kind == "qupdate":
                        M.objects.filter(**keykw).update(v=7, w=None)
                    elif kind == "qdelete":
                        M.objects.filter(**dict((c[0], v) for c, v in zip(pks, pv))).delete()
                    elif kind == "select":
                        list(M.objects.filter(**keykw).limit(3))
                    elif kind in ("select_in", "qupdate_in"):
                        kw = dict(keykw)
                        other = _cqle.build_value({"c": pks[which][3]}, op["pk2"][which])
                        del kw[pks[which][0]]
                        kw[pks[which][0] + "__in"] = [pv[which], other]
                        if kind == "select_in":
                            list(M.objects.filter(**kw))
                        else:
                            M.objects.filter(**kw).update(v=8)
                    elif kind == "select_partial":
                        kw = dict((c[0], v) for c, v in zip(pks, pv))
                        if len(pks) > 1:
                            del kw[pks[which][0]]
                            list(M.objects.filter(**kw).allow_filtering())
                        else:
                            fixing = False
                            list(M.objects.filter(v=3).allow_filtering())
                    elif kind == "select_token":
                        list(M.objects.filter(pk__token__gt=functions.Token(*pv)))
                except (QueryException, DoesNotExist) as e:
                    ctx.label("refused:" + type(e).__name__)
                    state["row"] = None
                    continue
                finally:
                    state["row"] = None
            if ctx._failures:
                return
            for ex in session.log[start:]:
                check_exec(ctx, ex, pks, op, fixing, kind)
                if ctx._failures:
                    return


def check_exec(ctx, ex, pks, op, fixing, kind):
    rk = ex.routing_key
    if not fixing:
        if rk is not None:
            ctx.fail(["C38.routing_key", "unexpected", kind], "statement %r does not fix the partition key but carries the routing key %s" % (
                ex.text[:200], rk.hex() if isinstance(rk, bytes) else repr(rk)))
        else:
            ctx.label("no-routing-key")
        return
    try:
        ast = cqlparse.parse_statement(ex.text)
    except ValueError as e:
        ctx.label("unparseable")        # C37's business
        return
    # ---- the partition key Cassandra reads from the statement
    found = {}
    if ast["stmt"] == "insert":
        for n, t in zip(ast["columns"], ast["values"]):
            found[n] = t
    else:
        for r in ast.get("where", []):
            if "col" in r["lhs"] and r["op"] == "=":
                found[r["lhs"]["col"]] = r["rhs"]
    parts, described = [], []
    for (attr, db, _role, k, tree), d in zip(pks, op["pk"]):
        if db not in found:
            ctx.fail(["C38.statement", "key-column-missing"], "statement %r does not fix partition key column %s" % (ex.text[:200], db))
            return
        try:
            v = cqlterm.denote(found[db], tree)
            parts.append(V.encode(tree, v, 4))
        except (cqlterm.Invalid, cqlterm.Unsupported, V.SpecError) as e:
            ctx.label("key-literal-rejected")      # C36's business
            return
        t = tagged_of(k, d)
        if t is not None:
            try:
                described.append(V.encode(tree, t, 4))
            except V.SpecError:
                described.append(None)
        else:
            described.append(None)
    want = composite(parts)
    shape = "composite" if len(pks) > 1 else "single"
    if not isinstance(rk, bytes):
        ctx.fail(["C38.routing_key", "missing" if rk is None else "type", shape], "statement %r fixes the partition key but routing_key is %r" % (ex.text[:200], rk))
        return
    if rk != want:
        # which component differs
        blame = "framing"
        if len(pks) == 1:
            blame = pks[0][3]
        else:
            pos, ok = 0, True
            for (attr, db, _r, k, _t), p in zip(pks, parts):
                if len(rk) < pos + 3:
                    ok = False
                    break
                ln = struct.unpack(">H", rk[pos:pos + 2])[0]
                comp, end = rk[pos + 2:pos + 2 + ln], rk[pos + 2 + ln:pos + 3 + ln]
                if end != b"\x00":
                    ok = False
                    break
                if comp != p:
                    blame = k if sorted(parts) != sorted(_components(rk)) else "order"
                    break
                pos += 3 + ln
            if not ok:
                blame = "framing"
        ctx.fail(["C38.routing_key", "value", shape, blame], "statement %r: routing key %s, Cassandra hashes %s" % (ex.text[:200], rk.hex(), want.hex()))
        return
    if ex.keyspace != "ks":
        ctx.fail(["C38.keyspace"], "routing key attached but statement.keyspace is %r" % (ex.keyspace,))
    # ---- and it is the key that was asked for
    for (attr, db, _r, k, _t), p, dsc in zip(pks, parts, described):
        if dsc is not None and dsc != p:
            ctx.fail(["C38.statement", "key-value", k], "partition key column %s: the statement addresses %s, requested %s" % (db, p.hex(), dsc.hex()))
            return
    ctx.label("routing-key-checked")


def _components(rk):
    out, pos = [], 0
    while pos + 3 <= len(rk):
        ln = struct.unpack(">H", rk[pos:pos + 2])[0]
        out.append(rk[pos + 2:pos + 2 + ln])
        pos += 3 + ln
    return out


def parts(tier):
    cqlterm.self_test()
    cqlparse.self_test()
    return [hyp_part("routing", s_case, interpret, tier, quick=700, thorough=6000)]
