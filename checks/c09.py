"""C09 -- multiplexed requests never receive another request's response."""
from hypothesis import strategies as st

from checks import _simpool as SP
from checks import _simutil as U
from vlib.harness import hyp_part

PID = "C09"
TITLE = "Multiplexed requests never receive another request's response"
LEVEL = "exploration"
ENGINE = "sim"
TECHNIQUE = ("model-based generation of event histories (Hypothesis) over the real Cluster/Session/pool/Connection on a "
             "deterministic simulated network; stream-id and delivery invariants checked from the server's and the "
             "handlers' point of view after every event")
RULE = ("A case is a history over one fake node reached through the real Session (pool = HostConnection for protocol "
        "v3-v5, HostConnectionPool for v1/v2) whose connections have max_in_flight in {2,3,4,5,8} (302-304 in the "
        "'grow' part, so that the free-id set has to grow past its initial 300 ids; 128/32768 on v1/v2 in the 'v2max' "
        "part, where 126-130 requests use every stream id up to the protocol maximum 127) and orphaned_threshold in "
        "{1,2,3,100}: events are send (Session.execute_async of a uniquely tagged query, client timeout 0.3/1/5/none), "
        "answer the i-th held request (rows echoing the tag / void / 6 server errors with a scripted retry policy / "
        "never / undecodable body / protocol error / negative length / close / reset), advance the virtual clock "
        "(client timeouts orphan streams, blocked borrowers give up after 2 s), kill a pooled connection, plus a "
        "schedule tape; the 'retrywait' part fills every stream id, keeps 1-3 more senders waiting, answers some requests "
        "with errors the scripted policy retries and lets 1 s client timeouts fire while the retries wait for an id.  "
        "At the end every held request is answered.  Non-trivial: some stream id was used by two "
        "requests of the same connection AND a response arrived for a stream whose request had already timed out; or "
        "the ids of a connection were exhausted (a send had to wait).  Distinct by case digest.")
ASSUMPTIONS = ["network, clock, executor and event loop are simulated (sim/); Cluster, Session, pools, connections, "
               "ResponseFuture, policies are the real classes",
               "send_msg/close of the connection class and pool.shutdown are wrapped for observation only",
               "pre-emption only at blocking operations ('blocking' parts) / additionally at every lock operation and "
               "clock read ('locks' part)"]


DELIVERABLE = ("rows", "void") + tuple(SP.ERR_ANSWERS)


def proto_max(pv):
    return 127 if pv < 3 else 32767


class C09Observer(SP.Observer):
    def __init__(self, ctx):
        self.ctx = ctx
        self.outstanding = {}     # (conn id, stream) -> SReq   (server view: request received, not answered)
        self.seen = 0
        self.used = {}            # (conn id, stream) -> number of requests that used it
        self.checked_calls = 0
        self.exhausted = False

    def after_event(self, m, where):
        from cassandra import OperationTimedOut
        from cassandra.cluster import NoHostAvailable
        from cassandra.connection import ConnectionException
        ctx = self.ctx
        # --- server view: a stream id is never shared by two unanswered requests, never beyond the maximum
        for s in m.sreqs[self.seen:]:
            key = (s.conn.sim_id, s.stream)
            prev = self.outstanding.get(key)
            if prev is not None and prev.answered is None:
                ctx.fail(["C09.stream.shared", "prev=" + _state_of(m, prev)],
                         "%s: request tag=%s was sent on connection #%d stream %d while request tag=%s on the same "
                         "stream is still unanswered (%s)" % (where, s.tag, s.conn.sim_id, s.stream, prev.tag,
                                                              _state_of(m, prev)))
            self.outstanding[key] = s
            self.used[key] = self.used.get(key, 0) + 1
            if self.used[key] == 2:
                m.counts["reuse"] += 1
            if s.stream < 0 or s.stream > proto_max(m.case["pv"]):
                ctx.fail(["C09.stream.beyond-protocol-max"], "%s: stream id %d on protocol v%d" % (where, s.stream, m.case["pv"]))
            elif s.stream > s.conn.max_request_id:
                ctx.fail(["C09.stream.beyond-max-request-id"],
                         "%s: stream id %d handed out on connection #%d whose max_request_id is %d (max_in_flight=%d)" % (
                             where, s.stream, s.conn.sim_id, s.conn.max_request_id, s.conn.max_in_flight))
        self.seen = len(m.sreqs)
        # --- handler view: a response is delivered only to the request that was sent on that stream
        for rec in m.recs:
            if rec.tag is None:
                continue
            for (_t, resp) in rec.calls:
                got = _tag_of_response(resp)
                if got is not None and got != rec.tag:
                    ctx.fail(["C09.delivery.crossed", "handler"],
                             "%s: the handler of request tag=%s (connection #%d stream %s) received the response "
                             "that the server sent for tag=%s" % (where, rec.tag, rec.conn.sim_id, rec.stream, got))
        for f in m.futs.values():
            for rs in f.pair.cb:
                for row in (rs or []):
                    k = getattr(row, "k", None)
                    if k is not None and k != f.tag:
                        ctx.fail(["C09.delivery.crossed", "future"],
                                 "%s: the future of request tag=%s delivered the row of tag=%s" % (where, f.tag, k))
            for e in f.pair.eb:
                # only errors the server sent for one request; a connection error quotes whatever killed the
                # connection (possibly the protocol error sent on another request's stream)
                if isinstance(e, (ConnectionException, NoHostAvailable, OperationTimedOut)):
                    continue
                got = _tag_in_text(str(e))
                if got is not None and got != f.tag:
                    ctx.fail(["C09.delivery.crossed", "future-error"],
                             "%s: the future of request tag=%s failed with the error of tag=%s" % (where, f.tag, got))
        # --- ... and IS delivered to it: a request whose future was still waiting when the server answered on its
        #     stream (connection alive) has had its handler invoked
        for s in m.sreqs:
            if s.delivery_checked or s.answered is None:
                continue
            s.delivery_checked = True
            if s.late or s.answered not in DELIVERABLE or s.conn.is_closed or s.conn.is_defunct:
                continue
            recs = [r for r in s.conn.handlers if r.stream == s.stream and r.tag == s.tag and r.seq < s.recs_before]
            if recs and not recs[-1].calls:
                # an earlier user of the same stream whose future ended in a client timeout although that attempt
                # had been answered => its timeout hit the recycled stream id
                why = "stream-orphaned-by-another-request's-timeout" if any(
                    o.conn is s.conn and o.stream == s.stream and o.seq < s.seq and o.tag != s.tag and
                    o.answered is not None and _state_of(m, o) == "timed-out" for o in m.sreqs) else "unknown"
                ctx.fail(["C09.delivery.lost", why],
                         "%s: the server answered request tag=%s on connection #%d stream %d (%s) while its future was "
                         "still waiting, but the handler registered for that request was never invoked (stream now %s)" % (
                             where, s.tag, s.conn.sim_id, s.stream, s.answered,
                             "free" if s.stream in s.conn.request_ids else "not free"))
        # --- accounting on every live pooled connection (quiescent point)
        for c in m.open_pooled():
            un = m.unanswered(c)
            streams = [s.stream for s in un]
            if c.in_flight >= c.max_request_id:
                self.exhausted = True
            if len(set(streams)) != len(streams):
                continue   # already reported as shared
            if c.in_flight < 0:
                ctx.fail(["C09.in_flight.negative"], "%s: connection #%d in_flight=%d" % (where, c.sim_id, c.in_flight))
            elif c.in_flight != len(un):
                ctx.fail(["C09.in_flight.count", "more" if c.in_flight > len(un) else "fewer"],
                         "%s: connection #%d in_flight=%d but %d requests are sent and unanswered (streams %r; "
                         "orphans %r)" % (where, c.sim_id, c.in_flight, len(un), sorted(streams),
                                          sorted(c.orphaned_request_ids)))
            free = list(c.request_ids)
            if len(set(free)) != len(free):
                ctx.fail(["C09.free-ids.duplicate"], "%s: connection #%d free ids contain a duplicate: %r" % (
                    where, c.sim_id, sorted(free)))
            both = set(free) & set(streams)
            if both:
                ctx.fail(["C09.free-ids.outstanding"],
                         "%s: connection #%d stream ids %r are free although their requests are unanswered" % (
                             where, c.sim_id, sorted(both)))
            if not both and len(set(free)) == len(free) and len(free) + len(streams) != c.highest_request_id + 1:
                ctx.fail(["C09.free-ids.lost" if len(free) + len(streams) < c.highest_request_id + 1 else "C09.free-ids.invented"],
                         "%s: connection #%d has %d free ids + %d outstanding, but ids 0..%d were created" % (
                             where, c.sim_id, len(free), len(streams), c.highest_request_id))
            tracked = set(c._requests) | set(c.orphaned_request_ids)
            if tracked != set(streams):
                ctx.fail(["C09.tracking", "untracked" if set(streams) - tracked else "stale"],
                         "%s: connection #%d tracks streams %r (handlers %r, orphans %r) but the unanswered requests "
                         "are on streams %r" % (where, c.sim_id, sorted(tracked), sorted(c._requests),
                                                sorted(c.orphaned_request_ids), sorted(streams)))
            if c.highest_request_id > c.max_request_id:
                ctx.fail(["C09.stream.beyond-max-request-id", "highest"],
                         "%s: connection #%d highest_request_id=%d > max_request_id=%d" % (
                             where, c.sim_id, c.highest_request_id, c.max_request_id))

    def final_answered(self, m):
        for c in m.open_pooled():
            if m.unanswered(c):
                continue
            if c.in_flight != 0:
                self.ctx.fail(["C09.final.in_flight"], "every request on connection #%d is answered but in_flight=%d" % (
                    c.sim_id, c.in_flight))
            if c.orphaned_request_ids:
                self.ctx.fail(["C09.final.orphans"], "every request on connection #%d is answered but orphaned ids "
                              "remain: %r" % (c.sim_id, sorted(c.orphaned_request_ids)))
            if sorted(c.request_ids) != list(range(c.highest_request_id + 1)):
                self.ctx.fail(["C09.final.free-ids"], "every request on connection #%d is answered but the free ids "
                              "are %r, created 0..%d" % (c.sim_id, sorted(c.request_ids), c.highest_request_id))


def _state_of(m, sreq):
    f = m.futs.get(sreq.tag)
    if f is None:
        return "unknown"
    if f.pair.eb and type(f.pair.eb[0]).__name__ == "OperationTimedOut":
        return "timed-out"
    return "done" if f.done else "live"


def _tag_in_text(text):
    i = text.find("tag=")
    if i < 0:
        return None
    j = i + 4
    while j < len(text) and text[j].isdigit():
        j += 1
    try:
        return int(text[i + 4:j])
    except ValueError:
        return None


def _tag_of_response(resp):
    rows = getattr(resp, "parsed_rows", None)
    if rows:
        try:
            return int(rows[0][0])
        except Exception:  # noqa
            return None
    msg = getattr(resp, "message", None)
    if isinstance(msg, str):
        return _tag_in_text(msg)
    return None


def interpret(case, ctx):
    sim = U.Sim(tape=case["tape"], granularity=case["gran"])
    try:
        with sim:
            _run(case, ctx, sim)
    except U.StepBudgetExceeded:
        ctx.stats.inconclusive += 1
        ctx.label("inconclusive:step-budget")


def _run(case, ctx, sim):
    m = SP.Machine(case, ctx, sim, PID)
    obs = C09Observer(ctx)
    m.observers.append(obs)
    with ctx.driver(["C09.setup"]):
        m.build()
    if ctx._failures:
        return
    ok = m.run(case["events"])
    if ok:
        try:
            m.finish()
        except U.Deadlock:
            ctx.stats.inconclusive += 1
            ctx.label("inconclusive:shutdown-deadlock")
    for name, e in sim.world.actor_errors:
        ctx.fail(["C09.thread-error", type(e).__name__], "virtual thread %s died with %r" % (name, e))
        break
    for name, e in sim.task_errors:
        if isinstance(e, AssertionError):
            ctx.fail(["C09.stream.assertion"], "executor task %s hit %r" % (name, e))
            break
    for f in m.futs.values():
        if isinstance(f.raised, AssertionError):
            ctx.fail(["C09.stream.assertion", "execute_async"], "execute_async raised %r" % (f.raised,))
            break
    exhausted = obs.exhausted
    late_after_timeout = any(s.late and _state_at_answer_timed_out(m, s) for s in m.sreqs)
    m.common_labels()
    if m.counts["reuse"]:
        ctx.label("has:stream-reuse")
    if late_after_timeout:
        ctx.label("has:late-response-to-orphan")
    if exhausted:
        ctx.label("has:ids-exhausted")
    if any(c.highest_request_id >= 300 for c in m.pooled_conns()):
        ctx.label("has:id-set-grown")
    ctx.nontrivial((m.counts["reuse"] > 0 and late_after_timeout) or exhausted)


def _state_at_answer_timed_out(m, s):
    f = m.futs.get(s.tag)
    return bool(f is not None and f.pair.eb and type(f.pair.eb[0]).__name__ == "OperationTimedOut")


def s_case(gran, pvs, grow=False, **kw):
    if not grow:
        return SP.s_case(st, "c09", gran, pvs, **kw)
    ev = st.one_of(
        st.tuples(st.just("send"), st.integers(0, 3)),
        st.tuples(st.just("answer"), st.integers(0, 400), st.sampled_from(["rows", "void", "overloaded", "drop"])),
        st.tuples(st.just("advance"), st.sampled_from([0.35, 1.1, 2.5])),
        st.tuples(st.just("burst"), st.sampled_from([2, 5]), st.integers(0, 3)),
    )
    return SP.s_case(st, "c09", gran, pvs, extra={
        "mif": st.sampled_from([302, 303, 304]),
        "thr": st.sampled_from([2, 250, 1000]),
        "events": st.tuples(st.tuples(st.just("burst"), st.sampled_from([299, 300, 301, 302, 303]), st.integers(0, 3)),
                            st.lists(ev, max_size=12)).map(lambda t: [list(t[0])] + [list(e) for e in t[1]]),
    })


def s_v2max():
    """protocol v1/v2 with the default-sized id space (ids 0..127): enough requests to use every id"""
    ev = st.one_of(
        st.tuples(st.just("send"), st.integers(0, 3)),
        st.tuples(st.just("answer"), st.integers(0, 130), st.sampled_from(["rows", "void", "overloaded", "drop"])),
        st.tuples(st.just("advance"), st.sampled_from([0.35, 1.1, 2.5])),
        st.tuples(st.just("burst"), st.sampled_from([2, 5]), st.integers(0, 3)),
    )
    return SP.s_case(st, "c09", "blocking", [1, 2], mifs=(128, 32768), thrs=(2, 96, 1000), extra={
        "poolcfg": st.just({"core": 1, "max": 1, "min_req": 0, "max_req": 100}),
        "events": st.tuples(st.tuples(st.just("burst"), st.sampled_from([126, 127, 128, 129, 130]), st.integers(0, 3)),
                            st.lists(ev, max_size=10)).map(lambda t: [list(t[0])] + [list(e) for e in t[1]]),
    })


def s_retrywait():
    """retries that have to wait for a free stream id: every id busy, several senders waiting, error responses the
    policy answers with RETRY, client timeouts shorter than the 2 s a borrower waits"""
    tail = st.one_of(
        st.tuples(st.just("answer"), st.integers(0, 5), st.sampled_from(["overloaded", "unavailable", "rows", "rows", "void"])),
        st.tuples(st.just("answer"), st.integers(0, 5), st.sampled_from(["overloaded", "read_timeout", "rows"])),
        st.tuples(st.just("send"), st.sampled_from([1, 1, 3, 0])),
        st.tuples(st.just("advance"), st.sampled_from([0.35, 0.75, 1.1, 1.1, 2.5])),
    )

    @st.composite
    def build(draw):
        case = draw(SP.s_case(st, "c09", "blocking", [3, 4, 4, 5, 2], mifs=(3, 3, 4), thrs=(100, 100, 3),
                              extra={"events": st.just([])}))
        cap = case["mif"] - 1 if case["pv"] >= 3 else case["mif"]
        n = cap + draw(st.integers(1, 3))
        ev = [["send", draw(st.sampled_from([1, 1, 1, 3, 2]))] for _ in range(n)]
        # some of the requests that got a stream are answered (errors => the retry joins the waiting senders) ...
        for _ in range(draw(st.integers(1, cap))):
            ev.append(["answer", draw(st.integers(0, cap - 1)),
                       draw(st.sampled_from(["overloaded", "overloaded", "unavailable", "read_timeout", "rows", "void"]))])
        # ... the 1 s client timeouts fire while the 2 s borrowers are still waiting ...
        ev.append(["advance", draw(st.sampled_from([0.75, 1.1, 1.1, 1.6]))])
        # ... and everything goes on
        ev += [list(e) for e in draw(st.lists(tail, min_size=2, max_size=12))]
        case["events"] = ev
        case["decisions"] = [["retry", None]] * draw(st.integers(1, 4))
        case["poolcfg"] = {"core": 1, "max": 1, "min_req": 0, "max_req": 100}
        return case
    return build()


def parts(tier):
    return [
        hyp_part("v3plus", lambda: s_case("blocking", [3, 4, 4, 5]), interpret, tier, quick=110, thorough=1500,
                 quick_shards=4, thorough_shards=8),
        hyp_part("v1v2", lambda: s_case("blocking", [1, 2]), interpret, tier, quick=80, thorough=1000,
                 quick_shards=2, thorough_shards=3),
        hyp_part("grow", lambda: s_case("blocking", [3, 4], grow=True), interpret, tier, quick=8, thorough=80,
                 quick_shards=1, thorough_shards=2),
        hyp_part("retrywait", s_retrywait, interpret, tier, quick=100, thorough=1200, quick_shards=2, thorough_shards=3),
        hyp_part("v2max", s_v2max, interpret, tier, quick=12, thorough=120, quick_shards=1, thorough_shards=2),
        hyp_part("locks", lambda: s_case("locks", [2, 3, 4, 4, 5], mifs=(3, 3, 4, 4, 5, 8)), interpret, tier, quick=40, thorough=700,
                 quick_shards=1, thorough_shards=3),
    ]
