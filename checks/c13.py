"""C13 -- replacing an overloaded connection never abandons live requests."""
from hypothesis import strategies as st

from checks import _simpool as SP
from checks import _simutil as U
from vlib.harness import hyp_part

PID = "C13"
TITLE = "Replacing an overloaded connection never abandons live requests"
LEVEL = "exploration"
ENGINE = "sim"
TECHNIQUE = ("model-based generation of event histories (Hypothesis) over the real Cluster/Session/HostConnection on a "
             "deterministic simulated network; the state of a connection is recorded at the moment close() is called "
             "on it and compared with the requests still awaiting a response")
RULE = ("A case is a history over one fake node reached through the real Session on protocol v3-v5 (HostConnection) "
        "with max_in_flight in {3,4,5,8} and orphaned_threshold in {1,2,3}: events are send (Session.execute_async of a "
        "tagged query, client timeout 0.3/1/5/none), answer the i-th held request -- live or already timed out -- "
        "(rows/void/errors with scripted retries/undecodable/.../close/reset), advance the clock (client timeouts "
        "orphan streams past the threshold; the next borrow submits the replacement task), connect delay 0/0.2/0.6/3 s "
        "and refused connects (the replacement finishes later / fails and is retried), kill a connection, plus a "
        "schedule tape; the 'trashfail' part builds the replacement by construction (timeouts past the threshold next to "
        "live requests, new requests on the fresh connection) and then fails / answers / times out the old connection.  "
        "Non-trivial: a connection reached its orphan threshold while at least one of its requests "
        "was neither answered nor timed out, and a replacement connection was opened.  Distinct by case digest.")
ASSUMPTIONS = ["network, clock, executor and event loop are simulated (sim/); Cluster, Session, pools, connections, "
               "ResponseFuture, policies are the real classes",
               "send_msg/close of the connection class and pool.shutdown are wrapped for observation only; close() "
               "callers are identified by the innermost cassandra/pool.py frame",
               "an orphaned stream = a stream id in Connection.orphaned_request_ids (the request timed out on the "
               "client); a request awaiting a response = a handler still registered in Connection._requests",
               "pre-emption only at blocking operations ('blocking' part) / additionally at every lock operation and "
               "clock read ('locks' part)"]

REPLACEMENT_CLOSERS = ("pool._replace", "pool.return_connection")


class C13Observer(SP.Observer):
    def __init__(self, ctx):
        self.ctx = ctx
        self.seen_closes = 0
        self.crossed_with_live = False
        self.closed_by_replacement = 0
        self.closed_from_trash = 0
        self.checked_new = set()
        self.checked_repl = set()

    def after_event(self, m, where):
        import cassandra.pool as P
        ctx = self.ctx
        # --- safety: the old connection is not closed while a non-orphaned request awaits its response
        for snap in m.closes[self.seen_closes:]:
            c = snap["conn"]
            if not isinstance(snap["pool"], P.HostConnection) or snap["defunct"] or snap["pool_shutdown"]:
                continue
            if snap["pool_by"] not in REPLACEMENT_CLOSERS:
                continue
            self.closed_by_replacement += 1
            if snap["in_trash"] or snap["pool_by"] == "pool.return_connection":
                self.closed_from_trash += 1
            if not snap["threshold"]:
                ctx.fail(["C13.close.not-overloaded", snap["pool_by"]],
                         "%s: %s closed connection #%d although it never reached its orphan threshold" % (
                             where, snap["pool_by"], c.sim_id))
            if snap["pending"]:
                ctx.fail(["C13.close.live-requests", snap["pool_by"]],
                         "%s: %s closed the replaced connection #%d (in_flight=%d, orphans=%r) while %d request(s) on it "
                         "were still awaiting a response and had not timed out: %s" % (
                             where, snap["pool_by"], c.sim_id, snap["in_flight"], sorted(snap["orphans"]),
                             len(snap["pending"]),
                             ", ".join("tag=%s stream=%s" % (r.tag, r.stream) for r in snap["pending"][:5])))
            else:
                live = [s for s in snap["unanswered"] if s.stream not in snap["orphans"]]
                if live:
                    ctx.fail(["C13.close.unanswered-not-orphaned", snap["pool_by"]],
                             "%s: %s closed connection #%d while requests %s were unanswered and not orphaned" % (
                                 where, snap["pool_by"], c.sim_id,
                                 ", ".join("tag=%s stream=%s" % (s.tag, s.stream) for s in live[:5])))
        self.seen_closes = len(m.closes)
        # --- user view: nobody is told "connection closed" without a failure or a shutdown
        for f in m.futs.values():
            for e in f.pair.eb:
                txt = str(getattr(e, "errors", e))
                if "was closed" in txt and "closed by server" not in txt and not self._explained(m, f):
                    ctx.fail(["C13.abandoned"], "%s: request tag=%s failed with %r although nobody shut the pool down and "
                             "its connection did not fail" % (where, f.tag, txt[:200]))
        # --- liveness: closed once only orphaned streams remain; and NT bookkeeping
        for c in m.pooled_conns():
            p = m.pool_of(c)
            if not isinstance(p, P.HostConnection) or c.is_closed or c.is_defunct:
                continue
            if c.orphaned_threshold_reached and c._requests:
                self.crossed_with_live = True
            if p.is_shutdown or m.replace_running() or not c.orphaned_threshold_reached:
                continue
            if p._connection is None or p._connection is c:
                continue
            un = m.unanswered(c)
            if not c._requests and all(s.stream in c.orphaned_request_ids for s in un):
                how = "in-trash" if c in p._trash else "not-in-trash"
                if not any(conn is c for (_p, conn, _t) in m.replace_args):
                    # the pool stopped using it although _replace was never asked to replace it
                    how += "+dropped-without-_replace"
                ctx.fail(["C13.not-closed", how],
                         "%s: connection #%d is no longer the pool's connection (that is #%d), has reached its orphan "
                         "threshold and has only orphaned streams left (in_flight=%d, orphans=%r, no handler registered) "
                         "but is still open; _replace was called for connections %r" % (
                             where, c.sim_id, p._connection.sim_id, c.in_flight, sorted(c.orphaned_request_ids),
                             [conn.sim_id for (_p, conn, _t) in m.replace_args]))
        # --- enough timed-out streams => the next borrow starts a replacement
        for f in m.futs.values():
            i = f.start_info
            if i is None or f.tag in self.checked_repl or f.actor is None or not f.actor.done:
                continue
            self.checked_repl.add(f.tag)
            p, x = i["pool"], i["conn"]
            if i["dead"] or i["replacing"] or i["orphans"] < i["thr"] or f.raised is not None:
                continue
            if not (m.replace_running() or p._connection is not x or p.is_shutdown or x.is_closed or x.is_defunct):
                ctx.fail(["C13.no-replacement"],
                         "%s: request tag=%s was started while connection #%d had %d orphaned streams (threshold %d) "
                         "and no replacement was running, yet no replacement has been started" % (
                             where, f.tag, x.sim_id, i["orphans"], i["thr"]))
        # --- new requests move to the fresh connection
        for f in m.futs.values():
            if f.tag in self.checked_new or f.pool_conn_at_start is None:
                continue
            first = next((s for s in m.sreqs if s.tag == f.tag), None)
            if first is None:
                continue
            self.checked_new.add(f.tag)
            x, y = f.pool_conn_at_start, first.conn
            if y is not x and y.orphaned_threshold_reached and y.opened_at < x.opened_at and \
                    m.pool_of(y) is m.pool_of(x):
                ctx.fail(["C13.new-request-on-replaced"],
                         "%s: request tag=%s was started when the pool's connection was already the fresh #%d, but was "
                         "sent on the replaced connection #%d" % (where, f.tag, x.sim_id, y.sim_id))

    def _explained(self, m, f):
        """the future's connection failed, was killed by the history, or its pool/session was shut down"""
        for s in m.sreqs:
            if s.tag != f.tag:
                continue
            snap = getattr(s.conn, "close_snapshot", None)
            if snap is None:
                continue
            if snap["defunct"] or snap["pool_shutdown"] or snap["pool_by"] not in REPLACEMENT_CLOSERS:
                return True
        return m.session_down

    def final_shutdown(self, m):
        self.after_event(m, "after shutdown")


def interpret(case, ctx):
    sim = U.Sim(tape=case["tape"], granularity=case["gran"])
    try:
        with sim:
            _run(case, ctx, sim)
    except U.StepBudgetExceeded:
        ctx.stats.inconclusive += 1
        ctx.label("inconclusive:step-budget")


def _run(case, ctx, sim):
    m = SP.Machine(case, ctx, sim, PID)
    obs = C13Observer(ctx)
    m.observers.append(obs)
    with ctx.driver(["C13.setup"]):
        m.build()
    if ctx._failures:
        return
    ok = m.run(case["events"])
    if ok:
        with ctx.driver(["C13.shutdown"], expect=(U.Deadlock,)):
            try:
                m.finish()
            except U.Deadlock:
                ctx.label("note:shutdown-deadlock")
    m.thread_errors("C13")
    m.common_labels()
    replaced = [c for c in m.pooled_conns() if c.creator == "pool._replace" and not c.is_closed or
                (c.creator == "pool._replace" and getattr(c, "close_snapshot", None) is not None)]
    if replaced:
        ctx.label("has:replacement-opened")
    if obs.crossed_with_live:
        ctx.label("has:threshold-crossed-with-live-requests")
    if obs.closed_by_replacement:
        ctx.label("has:old-connection-closed-by-pool")
    if obs.closed_from_trash:
        ctx.label("has:closed-from-trash")
    if any(p for p in m.pools if getattr(p, "_trash", None)) or obs.closed_from_trash:
        ctx.label("has:trash")
    ctx.nontrivial(obs.crossed_with_live and bool(replaced))


def s_case(gran):
    return SP.s_case(st, "c13", gran, [3, 4, 4, 5], mifs=(3, 4, 4, 5, 8), thrs=(1, 1, 2, 2, 3))


def s_trashfail():
    """a replaced connection that is still serving a live request fails (or is answered, or times out) while the
    fresh connection already carries requests of its own that will time out too"""
    tail = st.one_of(
        st.tuples(st.just("send"), st.sampled_from([0, 0, 3, 1])),
        st.tuples(st.just("answer"), st.integers(0, 7), st.sampled_from(["rows", "rows", "void", "overloaded"])),
        st.tuples(st.just("advance"), st.sampled_from([0.35, 0.35, 0.75, 1.1, 2.5])),
        st.tuples(st.just("kill"), st.integers(0, 2), st.sampled_from(["close", "reset", "eof"])),
    )

    @st.composite
    def build(draw):
        case = draw(SP.s_case(st, "c13", "blocking", [3, 4, 4, 5], mifs=(5, 8), thrs=(1, 1, 2),
                              extra={"events": st.just([]), "delay": st.sampled_from([0.0, 0.0, 0.2])}))
        thr = case["thr"]
        ev = [["send", 0]] * draw(st.integers(thr, thr + 1)) + [["send", 3]] * draw(st.integers(1, 2))
        ev += [["advance", 0.35]]                                      # orphans past the threshold, live ones remain
        ev += [["send", draw(st.sampled_from([0, 0, 1, 3]))] for _ in range(draw(st.integers(1, thr + 2)))]  # replacement
        ev += [draw(st.sampled_from([["kill", 0, "reset"], ["kill", 0, "close"], ["answer", 0, "rows"],
                                     ["answer", 1, "rows"], ["advance", 0.35]]))]
        ev += [["advance", draw(st.sampled_from([0.35, 0.35, 1.1]))]]
        ev += [list(e) for e in draw(st.lists(tail, max_size=8))]
        case["events"] = ev
        return case
    return build()


def parts(tier):
    return [
        hyp_part("blocking", lambda: s_case("blocking"), interpret, tier, quick=130, thorough=1500,
                 quick_shards=6, thorough_shards=12),
        hyp_part("trashfail", s_trashfail, interpret, tier, quick=100, thorough=1000, quick_shards=1, thorough_shards=2),
        hyp_part("locks", lambda: s_case("locks"), interpret, tier, quick=60, thorough=700,
                 quick_shards=2, thorough_shards=4),
    ]
