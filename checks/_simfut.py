"""Helpers shared by the request-level simulation checks C15-C19 (real Session/ResponseFuture/
ResultSet over the simulated world).  Everything here is harness: it builds worlds and reference
tables; the tables are written from the native-protocol spec / driver documentation, not derived
from driver code at run time."""
from checks import _simutil as U
from sim import wire

USER_Q = "SELECT k FROM t"
FILL_Q = "SELECT filler FROM t"

# server error kind -> (retry-policy method consulted, class name of the exception surfaced on RETHROW)
ERRORS = {
    "read_timeout": ("read_timeout", "ReadTimeout"),
    "write_timeout": ("write_timeout", "WriteTimeout"),
    "unavailable": ("unavailable", "Unavailable"),
    "overloaded": ("request_error", "OverloadedErrorMessage"),
    "bootstrapping": ("request_error", "IsBootstrappingErrorMessage"),
    "truncate": ("request_error", "TruncateError"),
    "server_error": ("request_error", "ServerError"),
}
# errors for which no policy is consulted: the exception is surfaced as is
FATAL = {"invalid": "InvalidRequest", "unauthorized": "Unauthorized", "syntax": "SyntaxException",
         "config": "ConfigurationException", "already_exists": "AlreadyExists"}
CONN_ERRORS = ("close", "reset")

CL_CODE = {"ANY": 0, "ONE": 1, "TWO": 2, "THREE": 3, "QUORUM": 4, "ALL": 5, "LOCAL_QUORUM": 6, "EACH_QUORUM": 7,
           "SERIAL": 8, "LOCAL_SERIAL": 9, "LOCAL_ONE": 10}


def addrs(n):
    return ["10.0.0.%d" % (i + 1) for i in range(n)]


class TickingTime(object):
    """`time` for cassandra.pool: the virtual clock plus one microsecond per read at the same
    virtual instant.  HostConnection.borrow_connection loops `remaining = timeout - time.time() +
    start; if remaining < 0: break; cond.wait(remaining)`: on a clock that stands still between two
    reads `remaining == 0.0` exactly at the deadline and the loop spins forever (a real clock
    always moves).  Only needed where a pool is busy."""

    def __init__(self, sim):
        self.sim = sim
        self.vt = sim.vtime
        self.at = None
        self.k = 0

    def time(self):
        now = self.vt.time()
        if now != self.at:
            self.at, self.k = now, 0
        self.k += 1
        return now + 1e-6 * min(self.k, 1000)

    def __getattr__(self, name):
        return getattr(self.vt, name)


def build(sim, n, profile, version=4, max_in_flight=None, keyspace=None, contact=0, **cluster_kw):
    """n fake nodes + a connected real Cluster/Session (pools to every node).  Returns
    (cluster, session, nodes)."""
    from cassandra.cluster import EXEC_PROFILE_DEFAULT
    import cassandra.pool as P
    if max_in_flight is not None:
        sim.patch.set(P, "time", TickingTime(sim))
    nodes = [sim.net.add_node(a) for a in addrs(n)]
    cc = sim.net.connection_class()
    if max_in_flight is not None:
        cc.max_in_flight = max_in_flight
    cluster = sim.make_cluster([addrs(n)[contact]], protocol_version=version, connection_class=cc,
                               execution_profiles={EXEC_PROFILE_DEFAULT: profile}, **cluster_kw)
    session = sim.call(cluster.connect, keyspace, wait_for_all_pools=True)
    sim.settle()
    return cluster, session, nodes


def host_of(cluster, address):
    for h in cluster.metadata.all_hosts():
        if h.endpoint.address == address:
            return h
    return None


def user_conn(conn):
    return not getattr(conn, "is_control_connection", False)


def is_user(req, query=USER_Q):
    return req["op"] == "QUERY" and req.get("query") == query


def make_busy(sim, session, cluster, node, capacity):
    """take every stream id of the pool's connection to `node` with held filler requests
    (capacity = max_in_flight - 1 on protocol v3+)"""
    from cassandra.query import SimpleStatement
    h = host_of(cluster, node.address)
    futs = []
    for _ in range(capacity):
        futs.append(sim.call(session.execute_async, SimpleStatement(FILL_Q), host=h, timeout=None))
    sim.settle()
    return futs


def chain(*handlers):
    """on_request = first handler that returns an action"""
    def on_request(node, conn, req):
        for h in handlers:
            a = h(node, conn, req)
            if a is not None:
                return a
        return None
    return on_request


def hold_fillers(node, conn, req):
    if req["op"] == "QUERY" and req.get("query") == FILL_Q:
        return ("hold",)
    return None


def later(sim, delay, fn):
    """run fn (from the world's main loop) at now+delay virtual seconds"""
    sim.world.call_at(sim.world.now + delay, fn, "server-delay")


class Outcome(object):
    """records every completion of a future (callbacks stay registered across pages)"""

    def __init__(self, sim, fut):
        self.sim = sim
        self.events = []     # (virtual time, "ok"|"err", value)
        fut.add_callbacks(self._ok, self._err)

    def _ok(self, rows):
        self.events.append((self.sim.world.now, "ok", rows))

    def _err(self, exc):
        self.events.append((self.sim.world.now, "err", exc))


def done(fut):
    return fut._event.is_set()


def exc_name(e):
    return type(e).__name__


def scripted_policy(decisions, log):
    """RetryPolicy answering with the generated [kind, cl-name] decisions in order (RETHROW when the
    script is exhausted) and recording every consultation with all its arguments."""
    from cassandra.policies import RetryPolicy

    class Scripted(RetryPolicy):
        def _next(self, method, query, retry_num, **info):
            i = len(log)
            d = decisions[i] if i < len(decisions) else ["rethrow", None]
            log.append({"method": method, "retry_num": retry_num, "decision": d, "info": info, "query": query})
            kind = d[0]
            cl = CL_CODE[d[1]] if len(d) > 1 and d[1] is not None else None
            if kind == "retry":
                return (RetryPolicy.RETRY, cl)
            if kind == "next_host":
                return (RetryPolicy.RETRY_NEXT_HOST, cl)
            if kind == "ignore":
                return (RetryPolicy.IGNORE, None)
            return (RetryPolicy.RETHROW, None)

        def on_read_timeout(self, query, consistency, required_responses, received_responses, data_retrieved, retry_num):
            return self._next("read_timeout", query, retry_num, consistency=consistency)

        def on_write_timeout(self, query, consistency, write_type, required_responses, received_responses, retry_num):
            return self._next("write_timeout", query, retry_num, consistency=consistency)

        def on_unavailable(self, query, consistency, required_replicas, alive_replicas, retry_num):
            return self._next("unavailable", query, retry_num, consistency=consistency)

        def on_request_error(self, query, consistency, error, retry_num):
            return self._next("request_error", query, retry_num, consistency=consistency, error=type(error).__name__)
    return Scripted()


WARM_Q = "SELECT w FROM warm"


def warm_up(sim, session, cluster, nodes, count):
    """`count` earlier requests per node (answered by the node's default handler).  Together with a small
    max_in_flight (few stream ids per connection) this makes the request under test travel on every
    stream id over count = 0 .. max_in_flight-1, id 0 included: with the default 300 ids per connection
    id 0 only comes round every 300th request, and falsy-zero mistakes stay invisible."""
    from cassandra.query import SimpleStatement
    for _ in range(count):
        for nd in nodes:
            h = host_of(cluster, nd.address)
            if h is not None and session._pools.get(h) is not None:
                sim.call(session.execute, SimpleStatement(WARM_Q), host=h, timeout=None)
    sim.settle()
