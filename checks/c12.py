"""C12 -- connection pools keep exact accounting and close what they open."""
from hypothesis import strategies as st

from checks import _simpool as SP
from checks import _simutil as U
from vlib.harness import hyp_part

PID = "C12"
TITLE = "Connection pools keep exact accounting and close what they open"
LEVEL = "exploration"
ENGINE = "sim"
TECHNIQUE = ("model-based generation of event histories (Hypothesis) over the real Cluster/Session with the real "
             "HostConnection / HostConnectionPool on a deterministic simulated network; capacity and sign invariants "
             "after every event, closure of every connection ever constructed for a pool after shutdown")
RULE = ("A case is a history over one fake node reached through the real Session; pool = HostConnection (v3-v5) or "
        "HostConnectionPool (v1/v2 with core 1-2, max 1-3 connections, min/max requests 0-2) with max_in_flight in "
        "{2,3,4,5,8}, orphaned_threshold in {1,2,3,100}, a conviction policy that does / does not mark the host down, "
        "connect delay 0/0.2/0.6/3 s and refused connects.  Events: send (borrow + request + return through "
        "Session.execute_async, client timeout 0.3/1/5/none), answer the i-th held request (rows/void/errors with "
        "scripted retries/never/undecodable/protocol error/negative length/close/reset), advance the clock (orphaning, "
        "borrow timeouts, trash interval, reconnection), kill a connection, refuse the next connects, change the "
        "connect delay, renew the pool (Session.add_or_renew_pool shuts the previous one down), Session.shutdown in "
        "mid-history, borrow from a pool that is shut down; the 'v3trash' part starts with requests that time out past the "
        "orphan threshold next to live/never-answered ones (replacement with the old connection set aside), the "
        "'v1v2trash' part with a burst that grows a HostConnectionPool beyond its core size followed by the 10 s trash "
        "interval, the 'v3refuse' part with a replacement (threshold reached or connection failed) whose first connect "
        "attempts are refused and slow while further borrows arrive before the retry completes, the 'usewindow' part (v1-v4) with "
        "a session keyspace set and a server that holds USE requests (event use_hold 1/0) followed by something that "
        "opens a connection (a burst growing a HostConnectionPool, a failed connection, orphans past the threshold, a "
        "pool renewal): the new connection stays inside set_keyspace_blocking while Session.shutdown, renewals, failures, "
        "further borrows and keyspace switches happen, until the USE is answered by an answer event (SET_KEYSPACE, or "
        "close/reset of the connection), by the server catching up, or at the latest before the final Cluster.shutdown "
        "(which waits for the executor; a USE is never left unanswered for good).  The history ends with every held request answered, "
        "Session/Cluster shutdown and enough virtual time for every pending connect to finish.  Non-trivial: a pool "
        "opened a connection after its first ones (replacement / growth) or set one aside (trash) before it was shut "
        "down, or a borrow was attempted on a shut-down pool (holding a USE alone does not make a case non-trivial; "
        "labels has:use-held* and has:shutdown-during-keyspace-selection-of-new-connection count how often the window "
        "was open and how often a pool shutdown fell into it, per pool class and opening code path).  Distinct by "
        "case digest.")
ASSUMPTIONS = ["network, clock, executor and event loop are simulated (sim/); Cluster, Session, pools, connections, "
               "ResponseFuture, policies are the real classes",
               "send_msg/close of the connection class and pool.shutdown are wrapped for observation only",
               "a connection 'the pool opened' = a connection constructed with that pool's on_orphaned_stream_released "
               "callback (every connection_factory call in pool.py passes it)",
               "a server may answer USE arbitrarily late but does answer it (or fails the connection): held USE requests "
               "are released by the history or, at the latest, before the final Cluster.shutdown, because "
               "set_keyspace_blocking has no timeout and Cluster.shutdown joins the executor",
               "pre-emption only at blocking operations ('blocking' parts) / additionally at every lock operation and "
               "clock read ('locks' part)"]


class C12Observer(SP.Observer):
    def __init__(self, ctx):
        self.ctx = ctx
        self.trash_seen = False
        self.checked_borrows = 0

    def after_event(self, m, where):
        ctx = self.ctx
        for c in m.pooled_conns():
            if c.in_flight < 0:
                ctx.fail(["C12.in_flight.negative", type(m.pool_of(c)).__name__],
                         "%s: connection #%d (%s) in_flight=%d" % (where, c.sim_id, _st(c), c.in_flight))
            if c.is_closed or c.is_defunct:
                continue
            if c.in_flight > c.max_request_id:
                ctx.fail(["C12.capacity.in_flight", type(m.pool_of(c)).__name__],
                         "%s: connection #%d in_flight=%d exceeds its request capacity %d" % (
                             where, c.sim_id, c.in_flight, c.max_request_id))
            un = m.unanswered(c)
            if len(un) > c.max_request_id:
                ctx.fail(["C12.capacity.outstanding", type(m.pool_of(c)).__name__],
                         "%s: %d requests are outstanding on connection #%d whose request capacity is %d" % (
                             where, len(un), c.sim_id, c.max_request_id))
        for p in m.pools:
            if getattr(p, "_trash", None):
                self.trash_seen = True
        for box in m.dead_borrows:
            if box.get("reported") or not box["actor"].done:
                continue
            box["reported"] = True
            if "got" in box:
                conn, rid = box["got"]
                ctx.fail(["C12.borrow-after-shutdown", type(box["pool"]).__name__],
                         "%s: borrow_connection on a pool that is shut down returned connection #%d (%s), request id %r" % (
                             where, conn.sim_id, _st(conn), rid))

    def final_shutdown(self, m):
        ctx = self.ctx
        self.after_event(m, "after shutdown")
        for box in m.dead_borrows:
            if not box["actor"].done:
                ctx.fail(["C12.borrow-after-shutdown", "never-returns"], "borrow_connection(timeout=0.2) on a shut-down "
                         "pool did not return within the rest of the history")
        for c in m.pooled_conns():
            if c.is_closed:
                continue
            p = m.pool_of(c)
            snap = m.shutdowns.get(id(p))
            if snap is None:
                # the statement speaks about pools that were shut down; a pool that nobody ever shut down
                # (e.g. one installed by add_or_renew_pool after Session.shutdown) is C45's business
                ctx.label("note:open-connection-of-pool-never-shut-down")
                continue
            if c in snap["trash"]:
                role = "in-trash-at-shutdown"
            elif c in snap["current"]:
                role = "current-at-shutdown"
            elif c.opened_at > snap["t"]:
                role = "opened-after-shutdown"
            elif c not in snap["installed_before"]:
                role = "connecting-at-shutdown"      # not yet installed in the pool when shutdown began
            else:
                role = "set-aside-before-shutdown"    # established earlier, no longer referenced by the pool
                if not any(conn is c for (_p, conn, _t) in m.replace_args) and hasattr(p, "_is_replacing"):
                    role += "+dropped-without-_replace"
            ctx.fail(["C12.final.open", type(p).__name__, role],
                     "after Session/Cluster shutdown and quiescence connection #%d (opened at t=%.3f by %s, in_flight=%d, "
                     "orphans=%r) of %s is still open; pool shut down at %s by %s; role: %s" % (
                         c.sim_id, c.opened_at - 1.0e9, c.creator, c.in_flight, sorted(c.orphaned_request_ids),
                         type(p).__name__, ("t=%.3f" % (snap["t"] - 1.0e9)) if snap else "never",
                         snap["by"] if snap else "-", role))


def _st(c):
    return "defunct" if c.is_defunct else ("closed" if c.is_closed else "open")


def _is_use(req):
    return req.get("op") == "QUERY" and str(req.get("query") or "").startswith("USE ")


class C12Machine(SP.Machine):
    """adds a server that is slow to answer USE: while the switch is on (event ["use_hold", 1]) every USE that
    arrives on a connection other than the control connection is held like a user query, so that the keyspace
    selection of a freshly opened connection (set_keyspace_blocking in both pools' __init__, HostConnection._replace
    and HostConnectionPool._add_conn_if_under_max) and Session.set_keyspace span further events of the history.
    A held USE is answered by an "answer" event that picks it (SET_KEYSPACE result whatever the answer kind, except
    close/reset/eof which fail the connection instead), by ["use_hold", 0] (the server catches up with all of them)
    or by the drain at the end of the history -- never left unanswered for good."""

    def __init__(self, *a, **kw):
        SP.Machine.__init__(self, *a, **kw)
        self.use_hold = False
        self.use_log = []          # {"conn", "req", "t", "t_rel"} of every USE the server held

    def build(self, *a, **kw):
        SP.Machine.build(self, *a, **kw)
        inner = self.node.on_request
        m = self

        def on_request(node, conn, req):
            if m.use_hold and _is_use(req) and not conn.is_control_connection:
                m.use_log.append({"conn": conn, "req": req, "t": m.sim.world.now, "t_rel": None})
                return ("hold",)
            return inner(node, conn, req)
        self.node.on_request = on_request

    def _use_released(self, req):
        for u in self.use_log:
            if u["req"] is req and u["t_rel"] is None:
                u["t_rel"] = self.sim.world.now

    def answer_req(self, node, conn, req, kind):
        if not _is_use(req):
            return SP.Machine.answer_req(self, node, conn, req, kind)
        self._use_released(req)
        if kind in ("close", "reset", "eof"):
            return SP.Machine.answer_req(self, node, conn, req, kind)
        for i, (_c, r) in enumerate(node.held):
            if r is req:
                node.release(i)
                break
        return None

    def finish(self):
        # Cluster.shutdown waits for its executor, i.e. for a task that sits in a keyspace selection: a server that
        # never answers it would hang any client.  The server catches up before the final shutdown; shutdowns that
        # overlap a held USE are the mid-history ones (Session.shutdown / pool renewal do not wait for the executor)
        self.apply(["use_hold", 0])
        return SP.Machine.finish(self)

    def apply(self, ev):
        if ev[0] == "use_hold":
            self.use_hold = bool(ev[1])
            if not self.use_hold:
                for (node, conn, req) in self.held():
                    if _is_use(req):
                        self.answer_req(node, conn, req, "rows")
            return
        return SP.Machine.apply(self, ev)


def interpret(case, ctx):
    sim = U.Sim(tape=case["tape"], granularity=case["gran"])
    try:
        with sim:
            _run(case, ctx, sim)
    except U.StepBudgetExceeded:
        ctx.stats.inconclusive += 1
        ctx.label("inconclusive:step-budget")


def _run(case, ctx, sim):
    m = C12Machine(case, ctx, sim, PID)
    obs = C12Observer(ctx)
    m.observers.append(obs)
    with ctx.driver(["C12.setup"]):
        m.build()
    if ctx._failures:
        return
    ok = m.run(case["events"])
    if ok:
        with ctx.driver(["C12.shutdown"], expect=(U.Deadlock,)):
            try:
                m.finish()
            except U.Deadlock as e:
                ctx.fail(["C12.shutdown", "never-finishes"], "Cluster.shutdown did not return: %s" % (str(e)[:200],))
    m.thread_errors("C12")
    m.common_labels()
    conns = m.pooled_conns()
    later = [c for c in conns if c.creator not in ("pool.__init__",)]
    if later:
        ctx.label("has:replacement-or-growth")
    for c in later:
        ctx.label("opened-by:" + c.creator)
    if obs.trash_seen:
        ctx.label("has:trash")
    if any(s["trash"] for s in m.shutdowns.values()):
        ctx.label("has:trash-at-shutdown")
    if any(c.opened_at <= s["t"] and m.pool_of(c) is s["pool"] and
           c not in s["installed_before"] and
           not (c.is_closed and getattr(c, "close_snapshot", None) is None)
           for s in m.shutdowns.values() for c in conns):
        ctx.label("has:connect-in-progress-at-shutdown")
    if m.dead_borrows:
        ctx.label("has:borrow-after-shutdown")
    if m.use_log:
        ctx.label("has:use-held")
        fresh = [u for u in m.use_log if u["conn"].creator != "pool.__init__" and m.pool_of(u["conn"]) is not None]
        if fresh:
            ctx.label("has:use-held-on-connection-opened-later")
        if any(u["conn"].creator == "pool.__init__" and not u["conn"].seen_installed for u in m.use_log):
            ctx.label("has:use-held-in-pool-constructor")
        during = set()
        for u in m.use_log:
            c = u["conn"]
            for s in m.shutdowns.values():
                if (m.pool_of(c) is s["pool"] and c not in s["installed_before"] and
                        u["t"] <= s["t"] and (u["t_rel"] is None or s["t"] <= u["t_rel"])):
                    during.add("shutdown-during-keyspace-selection:" + type(s["pool"]).__name__ + ":" + c.creator)
        if during:
            ctx.label("has:shutdown-during-keyspace-selection-of-new-connection", *sorted(during))
    ctx.nontrivial(bool(later) or obs.trash_seen or bool(m.dead_borrows))


# with pre-emption at every lock operation a max_in_flight of 2 is too small for the handshake of the
# control connection itself (OPTIONS/STARTUP ids are returned by the event loop after the callback that
# lets the connecting thread go on): no real configuration is that small, so the 'locks' part starts at 3
MIFS_LOCKS = (3, 3, 4, 4, 5, 8)


def s_case(gran, pvs, **kw):
    return SP.s_case(st, "c12", gran, pvs, **kw)


def s_trash():
    """HostConnectionPool growth beyond the core size and the 10 s trash interval: a pool of 1 core / 2-3 max
    connections grows under load, time passes, and returns at <= min_requests set a busy connection aside"""
    tail = st.one_of(
        st.tuples(st.just("send"), st.sampled_from([3, 3, 2, 0])),
        st.tuples(st.just("answer"), st.integers(0, 7), st.sampled_from(["rows", "rows", "void", "overloaded", "drop"])),
        st.tuples(st.just("answer"), st.integers(0, 7), st.sampled_from(["rows", "rows", "void", "drop", "drop"])),
        st.tuples(st.just("advance"), st.sampled_from([0.35, 1.1, 6.0, 11.0])),
        st.tuples(st.just("session_shutdown")),
        st.tuples(st.just("renew")),
        st.tuples(st.just("kill"), st.integers(0, 2), st.sampled_from(["close", "reset", "eof"])),
        st.tuples(st.just("borrow_dead"), st.integers(0, 2)),
    )
    ev = st.tuples(st.integers(3, 7), st.sampled_from([11.0, 11.0, 6.0]), st.lists(tail, min_size=2, max_size=14)).map(
        lambda t: [["burst", t[0], 3], ["advance", t[1]]] + [list(e) for e in t[2]])
    return SP.s_case(st, "c12", "blocking", [1, 2, 2], mifs=(4, 5, 8), extra={
        "poolcfg": st.sampled_from([{"core": 1, "max": 2, "min_req": 1, "max_req": 2},
                                    {"core": 1, "max": 3, "min_req": 1, "max_req": 2},
                                    {"core": 1, "max": 3, "min_req": 2, "max_req": 3},
                                    {"core": 2, "max": 3, "min_req": 1, "max_req": 2}]),
        "events": ev, "delay": st.sampled_from([0.0, 0.0, 0.2])})


def s_v3trash():
    """HostConnection replacement with live requests on the old connection: some requests time out (orphans past
    the threshold), others stay live or are never answered, the next borrow replaces the connection and the old
    one goes to the trash; then anything, including shutdown with the trash still populated"""
    tail = st.one_of(
        st.tuples(st.just("send"), st.sampled_from([0, 0, 3, 2])),
        st.tuples(st.just("answer"), st.integers(0, 7), st.sampled_from(["rows", "rows", "void", "drop", "drop", "overloaded"])),
        st.tuples(st.just("advance"), st.sampled_from([0.35, 0.35, 1.1, 6.0])),
        st.tuples(st.just("session_shutdown")),
        st.tuples(st.just("renew")),
        st.tuples(st.just("kill"), st.integers(0, 2), st.sampled_from(["close", "reset", "eof"])),
        st.tuples(st.just("delay"), st.sampled_from([0.0, 0.2, 0.6])),
        st.tuples(st.just("borrow_dead"), st.integers(0, 2)),
    )
    ev = st.tuples(st.integers(1, 3), st.integers(1, 2), st.lists(tail, min_size=1, max_size=14)).map(
        lambda t: [["send", 0]] * t[0] + [["send", 3]] * t[1] + [["advance", 0.35], ["send", 3]] + [list(e) for e in t[2]])
    return SP.s_case(st, "c12", "blocking", [3, 4, 4, 5], mifs=(5, 8), thrs=(1, 1, 2), extra={"events": ev})


def s_v3refuse():
    """a HostConnection replacement (orphan threshold reached, or the connection failed) whose first connect
    attempts are refused and whose connects take time, with borrows arriving while the retry is still pending"""
    tail = st.one_of(
        st.tuples(st.just("send"), st.sampled_from([0, 0, 3, 2])),
        st.tuples(st.just("send"), st.sampled_from([0, 3])),
        st.tuples(st.just("answer"), st.integers(0, 7), st.sampled_from(["rows", "rows", "void", "drop", "overloaded"])),
        st.tuples(st.just("advance"), st.sampled_from([0.05, 0.35, 0.35, 0.75, 1.1])),
        st.tuples(st.just("refuse"), st.integers(1, 2)),
        st.tuples(st.just("kill"), st.integers(0, 2), st.sampled_from(["close", "reset", "eof"])),
        st.tuples(st.just("session_shutdown")),
    )

    @st.composite
    def build(draw):
        case = draw(SP.s_case(st, "c12", "blocking", [3, 4, 4, 5], mifs=(5, 8), thrs=(1, 1, 2),
                              extra={"events": st.just([]), "delay": st.just(0.0),
                                     "convict": st.sampled_from([False, False, True])}))
        thr = case["thr"]
        d = draw(st.sampled_from([0.2, 0.6, 0.6]))
        ev = []
        if draw(st.booleans()) or True:
            ev += [["send", 0]] * draw(st.integers(thr, thr + 1)) + [["send", 3]] * draw(st.integers(0, 2))
        start = draw(st.sampled_from(["orphans", "orphans", "failure"]))
        if start == "orphans":
            ev += [["advance", 0.35]]
        ev += [["delay", d], ["refuse", draw(st.integers(1, 2))]]
        if start == "failure":
            ev += [["kill", 0, draw(st.sampled_from(["close", "reset", "eof"]))]]
        ev += [["send", draw(st.sampled_from([0, 3]))]]          # the borrow that starts the replacement
        for _ in range(draw(st.integers(1, 3))):                 # borrows while attempts fail / the retry is pending
            ev += [["advance", draw(st.sampled_from([d / 2, d + 0.05, d + 0.15, 0.35]))],
                   ["send", draw(st.sampled_from([0, 3]))]]
        ev += [["advance", draw(st.sampled_from([d + 0.1, 2 * d + 0.2, 2.5]))]]
        ev += [list(e) for e in draw(st.lists(tail, max_size=8))]
        case["events"] = ev
        return case
    return build()


GROW_CFGS = [{"core": 1, "max": 2, "min_req": 1, "max_req": 2},
             {"core": 1, "max": 3, "min_req": 1, "max_req": 2},
             {"core": 1, "max": 3, "min_req": 0, "max_req": 1},
             {"core": 2, "max": 3, "min_req": 1, "max_req": 2}]


def s_usewindow():
    """a session keyspace is set and the server has become slow to answer USE: whatever opens a connection next
    (HostConnectionPool growth under a burst, replacement after a failure or past the orphan threshold, a renewed
    pool's constructor) stays inside its keyspace selection while the history goes on -- shutdown, renewal,
    failures, further borrows -- until the USE is answered (by an answer event, by the server catching up, or by
    the final drain)"""
    tail = st.one_of(
        st.tuples(st.just("send"), st.sampled_from([0, 0, 3, 2])),
        st.tuples(st.just("answer"), st.integers(0, 7), st.sampled_from(["rows", "rows", "void", "drop", "overloaded",
                                                                         "close", "reset"])),
        st.tuples(st.just("advance"), st.sampled_from([0.05, 0.35, 1.1, 6.0])),
        st.tuples(st.just("session_shutdown")),
        st.tuples(st.just("session_shutdown")),
        st.tuples(st.just("renew")),
        st.tuples(st.just("kill"), st.integers(0, 2), st.sampled_from(["close", "reset", "eof"])),
        st.tuples(st.just("use_hold"), st.sampled_from([0, 0, 1])),
        st.tuples(st.just("use"), st.sampled_from([0, 1])),
        st.tuples(st.just("borrow_dead"), st.integers(0, 2)),
    )

    @st.composite
    def build(draw):
        case = draw(SP.s_case(st, "c12", "blocking", [1, 2, 2, 2, 3, 4], mifs=(4, 5, 8), thrs=(1, 2, 100),
                              extra={"events": st.just([]), "poolcfg": st.sampled_from(GROW_CFGS),
                                     "delay": st.sampled_from([0.0, 0.0, 0.2])}))
        ev = [["use", draw(st.sampled_from([0, 1]))], ["use_hold", 1]]
        trig = draw(st.sampled_from(["burst", "burst", "burst", "kill", "renew", "orphans"]))
        if trig == "burst":
            ev += [["burst", draw(st.integers(3, 7)), draw(st.sampled_from([3, 3, 0]))]]
        elif trig == "kill":
            ev += [["send", 3]] * draw(st.integers(0, 2))
            ev += [["kill", 0, draw(st.sampled_from(["close", "reset", "eof"]))], ["advance", 0.75], ["send", 3]]
        elif trig == "renew":
            ev += [["send", 3]] * draw(st.integers(0, 2)) + [["renew"]]
        else:
            ev += [["send", 0]] * draw(st.integers(1, 3)) + [["advance", 0.35], ["send", 3]]
        ev += [list(e) for e in draw(st.lists(tail, min_size=1, max_size=10))]
        case["events"] = ev
        return case
    return build()


def parts(tier):
    return [
        hyp_part("v3plus", lambda: s_case("blocking", [3, 4, 4, 5]), interpret, tier, quick=110, thorough=1500,
                 quick_shards=4, thorough_shards=8),
        hyp_part("v1v2", lambda: s_case("blocking", [1, 2, 2]), interpret, tier, quick=90, thorough=1200,
                 quick_shards=3, thorough_shards=5),
        hyp_part("v3trash", s_v3trash, interpret, tier, quick=80, thorough=800, quick_shards=1, thorough_shards=2),
        hyp_part("v3refuse", s_v3refuse, interpret, tier, quick=100, thorough=1000, quick_shards=1, thorough_shards=2),
        hyp_part("v1v2trash", s_trash, interpret, tier, quick=80, thorough=800, quick_shards=1, thorough_shards=2),
        hyp_part("usewindow", s_usewindow, interpret, tier, quick=90, thorough=900, quick_shards=1, thorough_shards=2),
        hyp_part("locks", lambda: s_case("locks", [2, 3, 4, 4, 5], mifs=MIFS_LOCKS), interpret, tier, quick=50, thorough=700,
                 quick_shards=1, thorough_shards=3),
    ]
