"""C34 -- date, time and time-UUID helpers convert consistently."""
import os
from fractions import Fraction

from hypothesis import strategies as st

from spec import civil, timeuuid
from vlib.harness import EnumPart, hyp_part

PID = "C34"
TITLE = "Date, time and time-UUID helpers convert consistently"
LEVEL = "exploration"
ENGINE = "models"
TECHNIQUE = ("exhaustive enumeration (every day of years 1..9999) and property-based testing (Hypothesis) against an "
             "independent proleptic-Gregorian model and Cassandra's time-UUID comparator")
RULE = ("Part 'days': one case per (year, month); all its days n are checked: Date(n).date()/str()/Date(str)/Date(date)/"
        "Date(datetime) against spec.civil (integer era arithmetic, no datetime/calendar), plus ==, <, hash.  Thorough: every "
        "month of years 1..9999 (3 652 059 days, exhaustive); quick: the years y with y % 9 == VERIF_SEED % 9 (one year in nine) plus the "
        "boundary years {1,2,4,100,400,1582,1600,1900,1969,1970,1971,2000,2038,2100,9998,9999}.  Part 'date-sampled': day "
        "numbers over the int32 wire range (boundary weighted: around the first/last representable day, +-2^31), padded/"
        "unpadded/'+'-prefixed and invalid 'yyyy-mm-dd' strings.  Part 'time-grid' (exhaustive): hour {0,1,11,12,23} x minute "
        "{0,1,59} x second {0,1,59} x fraction {0,1,999,1000,999999,1000000,123456789,500000000,999999999} ns, and the "
        "out-of-day probes.  Part 'time': random nanosecond counts, datetime.time values, strings with 0..9 fraction digits, "
        "and malformed / out-of-day strings (hour 24, minute 60, second 60/61, >9 fraction digits, signs).  Part 'uuid': "
        "instants as naive/aware datetimes (microsecond exact) and float seconds over 1582-10-15..5236 (the 60-bit tick "
        "range; weighted towards 1970..2100 and the float-precision boundaries 2^53 us, 2^53 and 2^54 ticks), node (48 bit) "
        "and clock_seq (14 bit) incl. all-0x7f/0x80 byte patterns: round trip, and min/max bounds under "
        "spec.timeuuid.compare for generated and independently constructed version-1 UUIDs of the same and of later ticks."
        "  Non-trivial: every month case; a date sample outside 1..9999 or at a boundary; a time value with a non-zero "
        "sub-microsecond part or an out-of-day probe; a UUID case whose node or clock bytes contain a byte >= 0x80 or whose "
        "instant lies outside 1970..2038.")
ASSUMPTIONS = ["naive datetimes are UTC (the driver's convention); aware datetimes denote their UTC instant",
               "float seconds given to uuid_from_time denote floor(t*10^6) microseconds (the driver truncates); the decoded "
               "float must be within 1 us of the given one",
               "a string the Time/Date parser accepts must denote exactly the value it was parsed to; malformed strings may be "
               "rejected or accepted, but an accepted time must lie within one day",
               "datetime_from_uuid1 / unix_time_from_uuid1 return floats/datetimes: exact equality is demanded for datetimes "
               "(microsecond exact instants), |delta| < 1 us for floats"]

SERIAL = os.environ.get("VERIF_TIER") == "quick"

DAY_NS = 86400 * 10 ** 9
_BOUNDARY_YEARS = (1, 2, 4, 100, 400, 1582, 1600, 1900, 1969, 1970, 1971, 2000, 2038, 2100, 9998, 9999)

_checked = [False]


def _spec_ok():
    if not _checked[0]:
        civil.self_check()
        _checked[0] = True


# ----------------------------------------------------------------------------
# part: days
# ----------------------------------------------------------------------------

def _day_chunks(tier):
    if tier == "quick":
        try:
            seed = int(os.environ.get("VERIF_SEED", "1")) or 1
        except ValueError:
            seed = 1
        # a stride coprime to 4, 100 and 400, so that every seed meets leap, century and 400-year cases
        k = seed % 9
        years = sorted(set(y for y in range(1, 10000) if y % 9 == k) | set(_BOUNDARY_YEARS))
        return [{"years": years[i::4]} for i in range(4)]
    return [{"years": list(range(lo, min(lo + 100, 10000)))} for lo in range(1, 10000, 100)]


def _day_cases(chunk):
    for y in chunk["years"]:
        for m in range(1, 13):
            yield {"y": y, "m": m}


def interpret_month(case, ctx):
    import datetime
    from cassandra.util import Date
    _spec_ok()
    y, m = case["y"], case["m"]
    first = civil.days_from_civil(y, m, 1)
    ndays = civil.days_in_month(y, m)
    prev = None
    for d in range(1, ndays + 1):
        n = first + d - 1
        want_iso = civil.iso(y, m, d)
        feat = []
        with ctx.driver(["C34.date.from-days"]):
            D = Date(n)
            got = D.date()
            ctx.check((got.year, got.month, got.day) == (y, m, d) and type(got) is datetime.date, ["C34.date.to-date"],
                      "Date(%d).date() = %r, civil model %s" % (n, got, want_iso))
            s = str(D)
            ctx.check(s == want_iso, ["C34.date.to-string"], "str(Date(%d)) = %r, model %r" % (n, s, want_iso))
        with ctx.driver(["C34.date.from-string"]):
            D2 = Date(want_iso)
            ctx.check(D2.days_from_epoch == n, ["C34.date.from-string"], "Date(%r) = day %r, model %d" % (
                want_iso, D2.days_from_epoch, n))
        with ctx.driver(["C34.date.from-date"]):
            D3 = Date(datetime.date(y, m, d))
            D4 = Date(datetime.datetime(y, m, d, 23, 59, 59, 999999))
            ctx.check(D3.days_from_epoch == n, ["C34.date.from-date"], "Date(date(%s)) = day %r, model %d" % (
                want_iso, D3.days_from_epoch, n))
            ctx.check(D4.days_from_epoch == n, ["C34.date.from-datetime"], "Date(datetime(%s 23:59:59.999999)) = day %r, model %d" % (
                want_iso, D4.days_from_epoch, n))
        with ctx.driver(["C34.date.compare"]):
            ok = (D == D2 and D == n and D == datetime.date(y, m, d) and hash(D) == hash(D2) and not (D != D3)
                  and D.seconds == n * 86400)
            if prev is not None:
                ok = ok and prev < D and not (D < prev) and prev != D and D > prev
            ctx.check(ok, ["C34.date.compare"], "comparison / hash / seconds of Date(%d) inconsistent" % n)
            prev = D
        if ctx._failures:
            break
    ctx.stats.extra["days_checked"] = ctx.stats.extra.get("days_checked", 0) + ndays
    ctx.label("month", "leap-feb" if (m == 2 and ndays == 29) else "plain-month")
    ctx.nontrivial(True)


# ----------------------------------------------------------------------------
# part: date-sampled
# ----------------------------------------------------------------------------

def s_date_sample():
    I32 = 2 ** 31
    edges = [civil.MIN_DAY - 2, civil.MIN_DAY - 1, civil.MIN_DAY, civil.MIN_DAY + 1, -1, 0, 1, civil.MAX_DAY - 1, civil.MAX_DAY,
             civil.MAX_DAY + 1, civil.MAX_DAY + 2, -I32, -I32 + 1, I32 - 2, I32 - 1]
    day = st.one_of(st.sampled_from(edges), st.integers(-I32, I32 - 1), st.integers(civil.MIN_DAY, civil.MAX_DAY))
    y = st.one_of(st.integers(1, 9999), st.sampled_from([1, 999, 1000, 9999]))
    ymd = st.tuples(y, st.integers(0, 13), st.integers(0, 32))
    form = st.sampled_from(["padded", "unpadded", "plus", "year5", "year0"])
    return st.one_of(
        st.builds(lambda n, n2: {"kind": "days", "n": n, "n2": n2}, day, day),
        st.builds(lambda t, f: {"kind": "string", "y": t[0], "m": t[1], "d": t[2], "form": f}, ymd, form))


def interpret_date_sample(case, ctx):
    import datetime
    from cassandra.util import Date
    _spec_ok()
    if case["kind"] == "days":
        n, n2 = case["n"], case["n2"]
        in_range = civil.MIN_DAY <= n <= civil.MAX_DAY
        rng = "in-range" if in_range else "out-of-range"
        with ctx.driver(["C34.date.from-days", rng]):
            D, E = Date(n), Date(n2)
            ctx.check(D.days_from_epoch == n and D.seconds == n * 86400, ["C34.date.days", rng], "Date(%d) holds %r" % (n, D.days_from_epoch))
            ctx.check((D == E) is (n == n2) and (D < E) is (n < n2) and (D != E) is (n != n2) and (D >= E) is (n >= n2)
                      and (hash(D) == hash(E) or n != n2), ["C34.date.compare", rng], "ordering of Date(%d) and Date(%d)" % (n, n2))
        raised = False
        got = None
        with ctx.driver(["C34.date.to-date", rng], expect=(ValueError,)):
            try:
                got = D.date()
            except ValueError:
                raised = True
        if ctx._failures:
            return
        if in_range:
            y, m, d = civil.civil_from_days(n)
            if ctx.check(not raised, ["C34.date.to-date", rng, "raises"], "Date(%d).date() raised for %s" % (n, civil.iso(y, m, d))):
                ctx.check((got.year, got.month, got.day) == (y, m, d), ["C34.date.to-date"], "Date(%d).date() = %r, model %s" % (
                    n, got, civil.iso(y, m, d)))
            with ctx.driver(["C34.date.to-string"]):
                s = str(D)
                ctx.check(s == civil.iso(y, m, d), ["C34.date.to-string"], "str(Date(%d)) = %r" % (n, s))
                ctx.check(Date(s) == D, ["C34.date.from-string"], "Date(str(Date(%d))) differs" % n)
        else:
            ctx.check(raised, ["C34.date.to-date", rng, "no-error"], "Date(%d).date() = %r for a day outside years 1..9999" % (n, got))
            with ctx.driver(["C34.date.to-string", rng]):
                s = str(D)
                ctx.check(s == str(n), ["C34.date.to-string", rng], "str(Date(%d)) = %r (documented fallback: the day number)" % (n, s))
        ctx.label("date:days", "date:" + rng)
        ctx.nontrivial(not in_range or n in (civil.MIN_DAY, civil.MAX_DAY, 0, -1))
        return
    # strings
    y, m, d, form = case["y"], case["m"], case["d"], case["form"]
    valid = 1 <= m <= 12 and 1 <= d <= civil.days_in_month(y, m)
    if form == "padded":
        s = "%04d-%02d-%02d" % (y, m, d)
    elif form == "unpadded":
        s = "%d-%d-%d" % (y, m, d)
    elif form == "plus":
        s = "+%04d-%02d-%02d" % (y, m, d)
    elif form == "year5":
        s = "1%04d-%02d-%02d" % (y, m, d)
        valid = False
    else:
        s = "0000-%02d-%02d" % (m, d)
        valid = False
    raised, D = False, None
    with ctx.driver(["C34.date.from-string", form], expect=(ValueError,)):
        try:
            D = Date(s)
        except ValueError:
            raised = True
    if ctx._failures:
        return
    if valid and form in ("padded", "plus"):
        # the documented form: must be accepted
        if ctx.check(not raised, ["C34.date.from-string", form, "rejected"], "Date(%r) raised ValueError" % s):
            ctx.check(D.days_from_epoch == civil.days_from_civil(y, m, d), ["C34.date.from-string", form],
                      "Date(%r) = day %r, model %d" % (s, D.days_from_epoch, civil.days_from_civil(y, m, d)))
    elif valid:
        # tolerated variants: if accepted, it must be the right day
        if not raised:
            ctx.check(D.days_from_epoch == civil.days_from_civil(y, m, d), ["C34.date.from-string", form],
                      "Date(%r) = day %r, model %d" % (s, D.days_from_epoch, civil.days_from_civil(y, m, d)))
    else:
        ctx.check(raised, ["C34.date.from-string", form, "invalid-accepted"], "Date(%r) accepted as day %r" % (
            s, None if D is None else D.days_from_epoch))
    ctx.label("date:string", "date:string-valid" if valid else "date:string-invalid")
    ctx.nontrivial(not valid or form != "padded")


# ----------------------------------------------------------------------------
# time
# ----------------------------------------------------------------------------

_H, _M, _S = (0, 1, 11, 12, 23), (0, 1, 59), (0, 1, 59)
_F = (0, 1, 999, 1000, 999999, 1000000, 123456789, 500000000, 999999999)
_BAD_INTS = (-1, -10 ** 9, -DAY_NS, DAY_NS, DAY_NS + 1, 2 * DAY_NS, 2 ** 63 - 1, -2 ** 63)


def _time_grid_cases(_chunk):
    for h in _H:
        for m in _M:
            for s in _S:
                for f in _F:
                    yield {"kind": "ns", "ns": ((h * 60 + m) * 60 + s) * 10 ** 9 + f}
    for n in _BAD_INTS:
        yield {"kind": "bad-int", "ns": n}
    for s in ("24:00:00", "23:60:00", "23:59:60", "23:59:61", "23:59:59.9999999999", "00:00:00.-1", "00:00:00.+1",
              "-1:00:00", "-00:00:01", "00:00:00.1_0", "25:00:00.5", "23:59:59.99999999999999999999"):
        yield {"kind": "string", "s": s}


def s_time():
    ns = st.one_of(st.integers(0, DAY_NS - 1), st.sampled_from([0, 1, 999, DAY_NS - 1, DAY_NS - 1000, 43200 * 10 ** 9]))
    hms = st.tuples(st.integers(0, 25), st.integers(0, 61), st.integers(0, 62))
    frac = st.one_of(st.just(None), st.text("0123456789", min_size=0, max_size=12), st.sampled_from(["-1", "+5", " 1", "1 ", "1_0", "1e2"]))
    pad = st.booleans()
    return st.one_of(
        st.builds(lambda n: {"kind": "ns", "ns": n}, ns),
        st.builds(lambda n: {"kind": "bad-int", "ns": n}, st.one_of(st.integers(-2 ** 63, -1), st.integers(DAY_NS, 2 ** 63 - 1))),
        st.builds(lambda t, us: {"kind": "pytime", "h": t[0] % 24, "m": t[1] % 60, "s": t[2] % 60, "us": us}, hms,
                  st.one_of(st.integers(0, 999999), st.sampled_from([0, 1, 999999]))),
        st.builds(lambda t, f, p: {"kind": "string", "s": (("%02d:%02d:%02d" if p else "%d:%d:%d") % t) + ("" if f is None else "." + f)},
                  hms, frac, pad))


def _split_ns(ns):
    return ns // (3600 * 10 ** 9), ns // (60 * 10 ** 9) % 60, ns // 10 ** 9 % 60, ns % 10 ** 9


def _model_time_string(s):
    """('ok', ns) for a string of the documented form HH:MM:SS[.f{1..9}] denoting a time of day (one- or
    two-digit fields), ('bad', None) for everything else"""
    head, dot, frac = s.partition(".")
    parts = head.split(":")
    if len(parts) != 3 or not all(p.isascii() and p.isdigit() and 1 <= len(p) <= 2 for p in parts):
        return "bad", None
    h, m, sec = (int(p) for p in parts)
    if not (h < 24 and m < 60 and sec < 60):
        return "bad", None
    if dot and not (frac.isascii() and frac.isdigit() and 1 <= len(frac) <= 9):
        # "HH:MM:SS." (empty fraction) is tolerated by the parser and unambiguous: judged like no fraction
        if frac == "":
            return "lenient", ((h * 60 + m) * 60 + sec) * 10 ** 9
        if frac.isascii() and frac.isdigit():
            # more digits than nanoseconds: still a well-defined number -- if it is accepted at all it must
            # be that number cut (or rounded) to nanoseconds, not the digit string read as a nanosecond count
            return "long", ((h * 60 + m) * 60 + sec) * 10 ** 9 + int(frac[:9])
        return "bad", None
    f = int(frac + "0" * (9 - len(frac))) if dot else 0
    return "ok", ((h * 60 + m) * 60 + sec) * 10 ** 9 + f


def interpret_time(case, ctx):
    import datetime
    from cassandra.util import Time
    kind = case["kind"]
    if kind == "ns":
        ns = case["ns"]
        h, m, s, f = _split_ns(ns)
        with ctx.driver(["C34.time.from-ns"]):
            T = Time(ns)
            ctx.check((T.hour, T.minute, T.second, T.nanosecond, T.nanosecond_time) == (h, m, s, f, ns), ["C34.time.fields"],
                      "Time(%d) fields %r, model %r" % (ns, (T.hour, T.minute, T.second, T.nanosecond), (h, m, s, f)))
            text = str(T)
            ctx.check(text == "%02d:%02d:%02d.%09d" % (h, m, s, f), ["C34.time.to-string"], "str(Time(%d)) = %r" % (ns, text))
            back = Time(text)
            ctx.check(back.nanosecond_time == ns, ["C34.time.string-roundtrip"], "Time(%r) = %r ns, started from %d" % (
                text, back.nanosecond_time, ns))
            pt = T.time()
            ctx.check(pt == datetime.time(h, m, s, f // 1000) and pt.tzinfo is None, ["C34.time.to-pytime"],
                      "Time(%d).time() = %r" % (ns, pt))
            ctx.check(Time(pt).nanosecond_time == ns - ns % 1000, ["C34.time.from-pytime"], "Time(%r) = %r ns" % (
                pt, Time(pt).nanosecond_time))
            ctx.check(T == back and T == ns and hash(T) == hash(back) and (T == pt) is (ns % 1000 == 0) and not (T != back)
                      and (ns == 0 or Time(ns - 1) < T), ["C34.time.compare"], "comparison / hash of Time(%d) inconsistent" % ns)
        ctx.label("time:ns")
        ctx.nontrivial(ns % 1000 != 0 or ns in (0, DAY_NS - 1))
    elif kind == "bad-int":
        ns = case["ns"]
        side = "negative" if ns < 0 else "too-large"
        accepted = None
        with ctx.driver(["C34.time.accepts-out-of-day", "int", side], expect=(ValueError, OverflowError)):
            try:
                accepted = Time(ns)
            except (ValueError, OverflowError):
                pass
        if ctx._failures:
            return
        ctx.check(accepted is None, ["C34.time.accepts-out-of-day", "int", side], "Time(%d) accepted (a day has %d ns)" % (ns, DAY_NS))
        ctx.label("time:out-of-day-int")
        ctx.nontrivial(True)
    elif kind == "pytime":
        pt = datetime.time(case["h"], case["m"], case["s"], case["us"])
        want = ((case["h"] * 60 + case["m"]) * 60 + case["s"]) * 10 ** 9 + case["us"] * 1000
        with ctx.driver(["C34.time.from-pytime"]):
            T = Time(pt)
            ctx.check(T.nanosecond_time == want, ["C34.time.from-pytime"], "Time(%r) = %r ns, model %d" % (pt, T.nanosecond_time, want))
            ctx.check(T.time() == pt and T == pt, ["C34.time.to-pytime"], "Time(%r).time() = %r" % (pt, T.time()))
        ctx.label("time:pytime")
        ctx.nontrivial(case["us"] not in (0,))
    else:
        s = case["s"]
        verdict, want = _model_time_string(s)
        T = None
        with ctx.driver(["C34.time.from-string"], expect=(ValueError,)):
            try:
                T = Time(s)
            except ValueError:
                pass
        if ctx._failures:
            return
        if T is not None:
            got = T.nanosecond_time
            # whatever the string looked like: an accepted time lies within one day
            ctx.check(isinstance(got, int) and 0 <= got < DAY_NS, ["C34.time.accepts-out-of-day", "string"],
                      "Time(%r) accepted as %r ns (a day has %d ns)" % (s, got, DAY_NS))
        if verdict == "ok":
            if ctx.check(T is not None, ["C34.time.from-string", "rejected"], "Time(%r) raised ValueError" % s):
                ctx.check(T.nanosecond_time == want, ["C34.time.from-string", "value"], "Time(%r) = %r ns, model %d" % (
                    s, T.nanosecond_time, want))
        elif verdict == "long" and T is not None:
            exact = set(s.partition(".")[2][9:]) <= set("0")
            ctx.check(T.nanosecond_time == want or (not exact and T.nanosecond_time == want + 1), ["C34.time.from-string", "value", "long-fraction"],
                      "Time(%r) = %r ns, the string denotes %d ns (cut to nanoseconds)" % (s, T.nanosecond_time, want))
        elif verdict == "lenient" and T is not None:
            ctx.check(T.nanosecond_time == want, ["C34.time.from-string", "value"], "Time(%r) = %r ns, model %d" % (
                s, T.nanosecond_time, want))
        ctx.label("time:string", "time:string-" + verdict, "time:string-accepted" if T is not None else "time:string-rejected")
        ctx.nontrivial(verdict != "ok" or "." in s)
        if verdict == "long":
            ctx.label("time:string-long-fraction")


# ----------------------------------------------------------------------------
# uuid
# ----------------------------------------------------------------------------

_NODES = [0, 1, 0x7f7f7f7f7f7f, 0x808080808080, 0xffffffffffff, 0x7f8080808080, 0x807f7f7f7f7f, 0x00ff00ff00ff, 0x800000000000]
_CLOCKS = [0, 1, 0x80, 0x7f, 0x3f7f, 0x3fff, 0x3f80, 0x0080, 0x00ff, 0x2000]


def s_uuid():
    E = timeuuid
    two53 = 2 ** 53
    us_edges = [0, 1, -1, E.MIN_UNIX_US, E.MIN_UNIX_US + 1, E.MAX_UNIX_US, E.MAX_UNIX_US - 1,
                two53 - 1, two53, two53 + 1,                                   # microseconds as a float
                (two53 - E.UUID_EPOCH_OFFSET) // 10, (two53 - E.UUID_EPOCH_OFFSET) // 10 + 1,   # ticks reach 2^53 (1998)
                (2 ** 54) // 10 + 1, (2 ** 54) // 10 + 3,                      # us*10 reaches 2^54 (2027)
                2 ** 31 * 10 ** 6 - 1, 2 ** 31 * 10 ** 6, 2 ** 33 * 10 ** 6 + 1, 2 ** 32 * 10 ** 6 + 999999]
    us = st.one_of(st.sampled_from(us_edges),
                   st.integers(0, 4102444800 * 10 ** 6),                        # 1970..2100
                   st.integers(E.MIN_UNIX_US, E.MAX_UNIX_US),
                   st.integers(two53 - 10 ** 7, two53 + 10 ** 9))
    node = st.one_of(st.sampled_from(_NODES), st.integers(0, 2 ** 48 - 1),
                     st.lists(st.sampled_from([0x00, 0x7f, 0x80, 0xff, 0x01]), min_size=6, max_size=6).map(
                         lambda bs: int.from_bytes(bytes(bs), "big")))
    clock = st.one_of(st.sampled_from(_CLOCKS), st.integers(0, 2 ** 14 - 1))
    tz = st.sampled_from([None, 0, 60, -300, 330, 840, -720])
    return st.builds(lambda u, form, n, c, z, others, later: {"us": u, "form": form, "node": n, "clock": c, "tz": z,
                                                               "others": others, "later": later},
                     us, st.sampled_from(["datetime", "datetime", "float"]), node, clock, tz,
                     st.lists(st.tuples(node, clock).map(list), max_size=3),
                     st.sampled_from([1, 1, 2, 9, 10, 10 ** 6, 10 ** 9]))


def _mk_datetime(us, tz_minutes):
    import datetime
    dt = datetime.datetime(1970, 1, 1) + datetime.timedelta(microseconds=us)
    if tz_minutes is None:
        return dt, dt
    tz = datetime.timezone(datetime.timedelta(minutes=tz_minutes))
    aware = (dt + datetime.timedelta(minutes=tz_minutes)).replace(tzinfo=tz)
    return aware, dt


def _era(us):
    y = civil.civil_from_days(us // (86400 * 10 ** 6))[0]
    if y < 1970:
        return "before-1970"
    if us < 2 ** 53 // 10:
        return "1970..1998"         # ticks*1 fit a double exactly on every path
    if y <= 2038:
        return "1998..2038"
    if us < 2 ** 53:
        return "2039..2255"
    return "after-2255"


def interpret_uuid(case, ctx):
    import datetime
    import uuid
    from cassandra import util as U
    _spec_ok()
    us, form, node, clock = case["us"], case["form"], case["node"], case["clock"]
    E = timeuuid
    era = _era(us)
    if form == "datetime":
        try:
            arg, naive = _mk_datetime(us, case["tz"])
        except OverflowError:
            arg, naive = _mk_datetime(us, None)
        exact_us = us
    else:
        arg = us / 1e6
        # what the float actually denotes, truncated to whole microseconds as documented ("timestamp in seconds")
        fr = Fraction(arg) * 10 ** 6
        exact_us = fr.numerator // fr.denominator
        if not (E.MIN_UNIX_US <= exact_us <= E.MAX_UNIX_US):
            # float rounding at the very edge of the 60-bit range: use the whole second instead
            arg = float(us // 10 ** 6)
            exact_us = (us // 10 ** 6) * 10 ** 6
        naive = None
    ticks = E.intervals_from_unix_us(exact_us)
    feats = [form, era]
    u = None
    with ctx.driver(["C34.uuid.generate"] + feats):
        u = U.uuid_from_time(arg, node, clock)
    if ctx._failures:
        return
    if not ctx.check(isinstance(u, uuid.UUID), ["C34.uuid.type"], "uuid_from_time returned %r" % (type(u),)):
        return
    raw = u.bytes
    ctx.check(E.version(raw) == 1 and E.variant_rfc4122(raw), ["C34.uuid.version"], "%s is not an RFC 4122 version-1 UUID" % u)
    ctx.check(raw[8:] == E.make(0, clock, node)[8:], ["C34.uuid.node-clock"], "node/clock_seq bytes %s, expected %s" % (
        raw[8:].hex(), E.make(0, clock, node)[8:].hex()))
    # --- a UUID generated for a microsecond-exact instant carries the 100-ns tick of that instant: both the
    # round trip and the min/max bounds against UUIDs of that instant made elsewhere rest on it
    if form == "datetime" and E.timestamp(raw) != ticks:
        ctx.fail(["C34.uuid.instant-ticks", "datetime"],
                 "uuid_from_time(%r) -> %s carries tick %d, the instant is tick %d (off by %d x 100 ns): it does not decode to / "
                 "is not bounded with the time-UUIDs of that instant" % (arg, u, E.timestamp(raw), ticks, E.timestamp(raw) - ticks))
        ctx.label("uuid", "uuid:" + form, "uuid:era=" + era)
        ctx.nontrivial(True)
        return
    # --- round trip (the statement): decode back to the instant, to the microsecond
    with ctx.driver(["C34.uuid.decode", form]):
        secs = U.unix_time_from_uuid1(u)
        back = U.datetime_from_uuid1(u)
    if ctx._failures:
        return
    want_dt = datetime.datetime(1970, 1, 1) + datetime.timedelta(microseconds=exact_us)
    if form == "datetime":
        ctx.check(back == want_dt, ["C34.uuid.decode-datetime"],
                  "uuid_from_time(%r) -> %s (tick %d, exact) -> datetime_from_uuid1 = %r" % (arg, u, ticks, back))
        # the float is documented to have time.time() precision only: within 1 us wherever a double can hold that
        if abs(exact_us) < 2 ** 51:
            delta = abs(Fraction(secs) - Fraction(exact_us, 10 ** 6))
            ctx.check(delta < Fraction(1, 10 ** 6), ["C34.uuid.decode-seconds"],
                      "unix_time_from_uuid1(%s) = %r, instant %d us (off by %.3g s)" % (u, secs, exact_us, float(delta)))
    else:
        delta = abs(Fraction(secs) - Fraction(arg))
        # truncation to whole microseconds (< 1 us) plus what the double arithmetic on either side may add: the
        # product t*1e6 and the quotient ticks/1e7 are each rounded (<= 1 ulp of t each) and the tick count itself
        # is rounded to a double beyond 2^53 (<= 2 ticks for |t| < 2^52 us)
        tol = Fraction(1, 10 ** 6) + Fraction(2, 10 ** 7) + 2 * abs(Fraction(arg)) / 2 ** 52
        if abs(exact_us) >= 2 ** 52:
            tol += 8 * abs(Fraction(arg)) / 2 ** 52
        ctx.check(delta < tol, ["C34.uuid.roundtrip", "float"],
                  "uuid_from_time(%r) -> %s -> unix_time_from_uuid1 = %r (off by %.3g s)" % (arg, u, secs, float(delta)))
    # --- bounds under Cassandra's comparator
    with ctx.driver(["C34.uuid.bounds.generate"] + feats):
        lo = U.min_uuid_from_time(arg)
        hi = U.max_uuid_from_time(arg)
    if ctx._failures:
        return
    t_of = E.timestamp(raw)
    ctx.check(E.timestamp(lo.bytes) == t_of and E.timestamp(hi.bytes) == t_of and E.version(lo.bytes) == 1 and E.version(hi.bytes) == 1,
              ["C34.uuid.bounds.instant"], "min/max uuids %s / %s are not version-1 UUIDs of the instant of %s" % (lo, hi, u))
    # time-UUIDs of that instant: the generated one and independently constructed ones -- for a datetime
    # (microsecond-exact instant) with the exact 100-ns tick of the instant, as any other generator
    # (Cassandra's now(), another client) would produce them
    peer_tick = ticks if form == "datetime" else t_of
    peers = [raw] + [E.make(peer_tick, c, n) for n, c in case["others"]]
    for p in peers:
        if E.compare(lo.bytes, p) > 0:
            ctx.fail(["C34.uuid.bounds.min"], "min_uuid_from_time %s sorts after %s of the same instant" % (lo, uuid.UUID(bytes=p)))
            break
        if E.compare(hi.bytes, p) < 0:
            ctx.fail(["C34.uuid.bounds.max"], "max_uuid_from_time %s sorts before %s of the same instant" % (hi, uuid.UUID(bytes=p)))
            break
    # a later instant bounds strictly above
    later_us = exact_us + case["later"]
    if later_us <= E.MAX_UNIX_US and t_of == ticks:
        larg = (_mk_datetime(later_us, None)[0] if form == "datetime" else None)
        if larg is not None:
            with ctx.driver(["C34.uuid.bounds.generate"] + feats):
                lo2 = U.min_uuid_from_time(larg)
            if ctx._failures:
                return
            if E.timestamp(lo2.bytes) == E.intervals_from_unix_us(later_us):
                for p in peers + [hi.bytes]:
                    if E.compare(lo2.bytes, p) <= 0:
                        ctx.fail(["C34.uuid.bounds.later"], "min uuid of a later instant %s does not sort after %s" % (
                            lo2, uuid.UUID(bytes=p)))
                        break
    highbyte = any(b >= 0x80 for b in raw[9:]) or (raw[8] & 0x3f) != 0
    ctx.label("uuid", "uuid:" + form, "uuid:era=" + era)
    if highbyte:
        ctx.label("uuid:high-bytes")
    ctx.nontrivial(highbyte or era not in ("1970..1998", "1998..2038"))


def parts(tier):
    return [
        EnumPart("days", _day_chunks(tier), _day_cases, interpret_month, sampled=(tier == "quick")),
        hyp_part("date-sampled", s_date_sample, interpret_date_sample, tier, quick=600, thorough=5000, thorough_shards=4),
        EnumPart("time-grid", [{}], _time_grid_cases, interpret_time),
        hyp_part("time", s_time, interpret_time, tier, quick=800, thorough=6000, thorough_shards=4),
        hyp_part("uuid", s_uuid, interpret_uuid, tier, quick=1500, thorough=10000, thorough_shards=8),
    ]
