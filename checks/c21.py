"""C21 -- load-balancing plans reflect the live cluster membership."""
from hypothesis import strategies as st

from checks import _ring
from vlib.harness import HarnessError, hyp_part

PID = "C21"
TITLE = "Load-balancing plans reflect the live cluster membership"
LEVEL = "exploration"
ENGINE = "models"
TECHNIQUE = "property-based testing (Hypothesis) of event histories against a reference model of live hosts"
RULE = ("A case is a policy spec (RoundRobin | DCAwareRoundRobin(local_dc given or '' = discovered from the contact points, used_hosts_per_remote_dc 0..3) | "
        "WhiteListRoundRobin | HostFilterPolicy(child) | DefaultLoadBalancingPolicy(child)), <= 6 host slots in <= 3 DCs/racks and a history as the cluster delivers it: "
        "either the connect flow (populate with the contact-point hosts, whose dc/rack are still unknown, then the first node-list refresh: location updates as "
        "on_down; set_location_info; on_up and on_add for the peers) or the add_execution_profile flow (populate with every known host in metadata order, with their "
        "DCs, followed by on_up for each host marked up), then up to 12 events up/down/add/remove/move/bounce (move = on_down; set_location_info; on_up; bounce = down "
        "then up; white lists are given by IP literal, by host NAME or by a name resolving to two hosts; events whose "
        "precondition does not hold -- up for an unknown host, add for a known one -- are skipped).  After populate and after every event two consecutive plans are "
        "compared with the model (live = last event was populate/up/add/move): no duplicates, only live hosts, every live LOCAL host present and before every REMOTE "
        "host, per remote DC exactly min(used, live) hosts (at most, under a HostFilterPolicy), distance() LOCAL/REMOTE/IGNORED agreeing with the plan, filtered / "
        "non-white-listed hosts absent and IGNORED.  Non-trivial: >= 2 DCs interleaved in the populate order, or a DC change (move to another DC), or a remove "
        "followed by an add of the same slot.")
ASSUMPTIONS = [
    "cassandra.policies.randint is substituted (round-robin start offset is part of the case); order inside the local / remote groups is free",
    "name resolution is substituted: cassandra.policies sees a socket module whose getaddrinfo knows node<i>.test -> 10.0.0.<i+1> and pair<i>-<j>.test -> both",
    "hosts whose datacenter is not known yet count as local for DCAwareRoundRobinPolicy (its documented-by-code rule host.datacenter or local_dc)",
    "with local_dc='' the expected local DC is the DC of the first contact-point host that is reported up/added with a known DC",
    "event discipline is read off Cluster.connect / add_execution_profile / on_up / on_down / on_add / on_remove and ControlConnection._update_location_info",
]

DCS = ["dc0", "dc1", "dc2"]


def _find(spec, kind):
    while spec is not None:
        if spec["kind"] == kind:
            return spec
        spec = spec.get("child")
    return None


class _Model(object):
    def __init__(self, spec, contact_points):
        self.spec = spec
        self.loc = {}           # slot -> (dc, rack) of known hosts
        self.live = set()
        self.discovered = None
        self.contact_points = set(contact_points)
        self.dca = _find(spec, "dcaware")

    def local_dc(self):
        if not self.dca:
            return None
        return self.dca.get("local_dc") or self.discovered

    def note_up(self, slot):
        """on_up / on_add delivered for a known host"""
        if self.dca and not self.dca.get("local_dc") and self.discovered is None and slot in self.contact_points \
                and self.loc[slot][0] is not None:
            self.discovered = self.loc[slot][0]
        self.live.add(slot)

    def classify(self, slot, spec=None):
        spec = spec or self.spec
        kind = spec["kind"]
        if kind == "rr":
            return "local"
        if kind == "whitelist":
            return "local" if slot in _white(spec) else "excluded"
        if kind == "dcaware":
            dc = self.loc[slot][0]
            if dc is None or dc == self.local_dc():
                return "local"
            return ("remote", dc)
        if kind == "filter":
            if slot not in spec["allowed"]:
                return "excluded"
            return self.classify(slot, spec["child"])
        if kind == "default":
            return self.classify(slot, spec["child"])
        raise HarnessError("unknown policy kind %r" % (kind,))


def _white(spec):
    """slots a white list lets through: literal addresses, names (by_name) and two-address names (pairs)"""
    return set(spec["allowed"]) | set(i for p in spec.get("pairs", ()) for i in p)


def _interleaved(dcs):
    """True when equal DCs are not contiguous in the list"""
    seen, last = set(), object()
    for d in dcs:
        if d != last:
            if d in seen:
                return True
            seen.add(d)
            last = d
    return False


def _allowed_fn(spec):
    """slots a wrapper chain lets through (None = everything)"""
    allowed = None
    while spec.get("child"):
        if spec["kind"] == "filter":
            a = set(spec["allowed"])
            allowed = a if allowed is None else allowed & a
        spec = spec["child"]
    return allowed


def interpret(case, ctx):
    from cassandra.connection import DefaultEndPoint
    from cassandra.metadata import Metadata
    from cassandra.policies import HostDistance
    from cassandra.query import SimpleStatement
    spec = case["policy"]
    slots = case["slots"]
    flow = case["flow"]
    top = spec["kind"]
    leaf = spec
    while leaf.get("child"):
        leaf = leaf["child"]
    sub = "C21." + leaf["kind"]
    wsub = "C21.wrapper." + top
    with _ring.pinned_random(case.get("randint", 0), 0), _ring.fake_dns():
        md = Metadata()
        cps = [i for i in case.get("contact_points", []) if i < len(slots)]
        cluster = _ring.FakeCluster(md, [DefaultEndPoint(_ring.address(i)) for i in cps])
        model = _Model(leaf, cps)
        known = {}
        graveyard = {}
        pols = []
        with ctx.driver([sub + ".new"]):
            pols.append(_ring.make_policy(leaf))            # the bare leaf policy: judged against the model
        if leaf is not spec:
            with ctx.driver([wsub + ".new"]):
                pols.append(_ring.make_policy(spec))        # the wrapped one: judged against the bare leaf's plan
        if len(pols) != (1 if leaf is spec else 2):
            return
        pol = pols[0]
        wrapped = pols[1] if len(pols) > 1 else None
        allowed = _allowed_fn(spec)
        dca = model.dca
        used = dca.get("used", 0) if dca else 0
        nontrivial = False
        early = set()           # slots filed while the local dc was still undiscovered and their own dc unknown
        split_dcs = set()       # DCs that were not contiguous in the populate order
        not_last_run = set()    # slots of such a DC that were not in its last run

        def deliver(name, h):
            okc = 0
            for k, p in enumerate(pols):
                with ctx.driver([(sub if k == 0 else wsub) + "." + name]):
                    getattr(p, name)(h)
                    okc += 1
            return okc == len(pols)

        def going_live(i):
            if dca and model.local_dc() is None and model.loc[i][0] is None:
                early.add(i)
            model.note_up(i)

        # ---- initial population
        initial = [i for i in case["initial"] if i < len(slots)]
        initial = [i for k, i in enumerate(initial) if i not in initial[:k]]
        hosts0 = []
        if flow == "connect":
            initial = [i for i in initial if i in cps] or cps[:1]
            for i in initial:
                h = _ring.make_host(i, None, None, True)
                known[i] = h
                model.loc[i] = (None, None)
                md.add_or_return_host(h)
                hosts0.append(h)
        else:
            ups = case.get("initial_up", [])
            for k, i in enumerate(initial):
                up = ups[k % len(ups)] if ups else True
                h = _ring.make_host(i, slots[i]["dc"], slots[i]["rack"], up)
                known[i] = h
                model.loc[i] = (slots[i]["dc"], slots[i]["rack"])
                md.add_or_return_host(h)
                hosts0.append(h)
            dcs0 = [slots[i]["dc"] for i in initial]
            if _interleaved(dcs0):
                nontrivial = True
                ctx.label("populate:interleaved-dcs")
                last_run_start = {}
                for k, d in enumerate(dcs0):
                    if k == 0 or dcs0[k - 1] != d:
                        if d in last_run_start:
                            split_dcs.add(d)
                        last_run_start[d] = k
                for k, d in enumerate(dcs0):
                    if d in split_dcs and k < last_run_start[d]:
                        not_last_run.add(initial[k])
        okc = 0
        for k, p in enumerate(pols):
            with ctx.driver([(sub if k == 0 else wsub) + ".populate"]):
                p.populate(cluster, list(hosts0))
                okc += 1
        if okc != len(pols):
            return
        for i in initial:
            if dca and model.local_dc() is None and model.loc[i][0] is None:
                early.add(i)
        model.live = set(initial)
        if flow == "profile":
            # "on_up after populate allows things like DCA LBP to choose default local dc"
            for i in initial:
                if known[i].is_up:
                    if not deliver("on_up", known[i]):
                        return
                    going_live(i)
                    not_last_run.discard(i)

        removed_once = set()
        named = set(leaf.get("by_name", ())) | set(i for p_ in leaf.get("pairs", ()) for i in p_) if leaf["kind"] == "whitelist" else set()
        named_downed = set()
        if named:
            ctx.label("whitelist:by-name")

        def feats_for(offenders, dcs=()):
            """minimal structural features explaining a failure about these slots / DCs"""
            f = []
            if dca and any(i in early for i in offenders) and model.local_dc() is not None and not dca.get("local_dc"):
                f.append("filed-before-local_dc-discovery")
            if dca and (any(i in not_last_run for i in offenders) or any(d in split_dcs for d in dcs)):
                f.append("dc-split-at-populate")
            if named:
                f.append("allowed-by-name" if any(i in named for i in offenders) else "allowed-by-address")
            return f

        def slot_of(h):
            for i, kh in known.items():
                if kh is h:
                    return i
            return None

        def check(after):
            for n in range(case.get("plans", 2)):
                plan = wplan = None
                q = SimpleStatement("SELECT 1") if n % 2 else None
                with ctx.driver([sub + ".make_query_plan"]):
                    plan = list(pol.make_query_plan("ks" if q else None, q))
                if plan is None:
                    return False
                if wrapped is not None:
                    with ctx.driver([wsub + ".make_query_plan"]):
                        wplan = list(wrapped.make_query_plan("ks" if q else None, q))
                    if wplan is None:
                        return False
                idx = []
                for h in plan:
                    i = slot_of(h)
                    if i is None:
                        g = graveyard.get(id(h))
                        ctx.fail([sub + ".not-live", "forgotten-host"] + feats_for([] if g is None else ["gone-%d" % g]),
                                 "after %s plan %d yields %r, a host the cluster has removed" % (after, n, h))
                        return True
                    idx.append(i)
                where = "after %s, plan %d = %r; live=%r locations=%r local_dc=%r policy=%r" % (
                    after, n, idx, sorted(model.live), dict((i, model.loc[i][0]) for i in sorted(known)), model.local_dc(), leaf)
                good = True
                if len(set(idx)) != len(idx):
                    good = False
                    rep = [i for i in set(idx) if idx.count(i) > 1]
                    ctx.fail([sub + ".repeat"] + feats_for(rep), "a host is repeated " + where)
                cls = dict((i, model.classify(i)) for i in known)
                for i in sorted(set(idx)):
                    if i not in model.live:
                        good = False
                        ctx.fail([sub + ".not-live"] + feats_for([i]), "host %d is not live " % i + where)
                    elif cls[i] == "excluded":
                        good = False
                        ctx.fail([sub + ".excluded-host-in-plan"], "host %d is not white-listed " % i + where)
                lost = [i for i in sorted(model.live) if cls[i] == "local" and i not in idx]
                if lost:
                    good = False
                    ctx.fail([sub + ".lost"] + feats_for(lost), "live local host(s) %r missing " % lost + where)
                kinds = ["L" if cls[i] == "local" else "R" for i in idx if cls[i] != "excluded"]
                if "".join(kinds) != "L" * kinds.count("L") + "R" * kinds.count("R"):
                    good = False
                    firstr = kinds.index("R")
                    late = [i for i in [j for j in idx if cls[j] != "excluded"][firstr:] if cls[i] == "local"]
                    ctx.fail([sub + ".local-first"] + feats_for(late), "a remote host precedes local host(s) %r " % late + where)
                by_dc = {}
                for i in model.live:
                    if isinstance(cls[i], tuple):
                        by_dc.setdefault(cls[i][1], []).append(i)
                for dc, members in sorted(by_dc.items()):
                    got = len(set(i for i in idx if i in members))
                    want = min(used, len(members))
                    if got != want:
                        good = False
                        ctx.fail([sub + ".remote-count", "too-many" if got > want else "too-few"] + feats_for(members, [dc]),
                                 "%d host(s) of remote dc %s (used_hosts_per_remote_dc=%d, %d live) " % (got, dc, used, len(members)) + where)
                # distance() of the leaf agrees with its plan
                dist = {}
                for i, h in sorted(known.items()):
                    d = None
                    with ctx.driver([sub + ".distance"]):
                        d = pol.distance(h)
                    if d is None:
                        return False
                    dist[i] = d
                    if not good:
                        continue
                    c = cls[i]
                    if c == "excluded":
                        want_d = (HostDistance.IGNORED,)
                    elif c == "local":
                        want_d = (HostDistance.LOCAL,)
                    elif i in model.live:
                        want_d = (HostDistance.REMOTE,) if i in idx else (HostDistance.IGNORED,)
                    else:
                        want_d = (HostDistance.IGNORED, HostDistance.REMOTE)
                    if d not in want_d:
                        good = False
                        ctx.fail([sub + ".distance", "class=%s" % (c if isinstance(c, str) else "remote")] + feats_for([i]),
                                 "distance(host %d) = %r, expected %r " % (i, d, want_d) + where)
                # the wrapper: exactly the leaf's plan minus the filtered-out hosts, in the leaf's order
                if wrapped is not None:
                    want_w = [h for h in plan if allowed is None or slot_of(h) in allowed]
                    if [id(h) for h in wplan] != [id(h) for h in want_w]:
                        ctx.fail([wsub + ".plan"], "%r yields %r, the wrapped policy's plan filtered is %r (%s)" % (
                            spec, wplan, want_w, where))
                    for i, h in sorted(known.items()):
                        d = None
                        with ctx.driver([wsub + ".distance"]):
                            d = wrapped.distance(h)
                        if d is None:
                            return False
                        want_d = HostDistance.IGNORED if (allowed is not None and i not in allowed) else dist[i]
                        if d != want_d:
                            ctx.fail([wsub + ".distance"], "%r: distance(host %d) = %r, expected %r (%s)" % (spec, i, d, want_d, where))
                if not good:
                    return True
            return True

        if not check("populate"):
            return
        # ---- events
        nev = 0
        events = []
        for ev in case["events"]:
            if ev["op"] == "bounce":        # a node restart: marked down, then up again
                events.extend([{"op": "down", "host": ev["host"]}, {"op": "up", "host": ev["host"]}])
            else:
                events.append(ev)
        for ev in events:
            op, i = ev["op"], ev["host"]
            if i >= len(slots):
                continue
            h = known.get(i)
            if op == "up" and h is not None and i in named_downed:
                named_downed.discard(i)
                ctx.label("whitelist:named-host-down-then-up")
            if op == "down" and h is not None and i in named and i in model.live:
                named_downed.add(i)
            if op == "up" and h is not None:
                if not deliver("on_up", h):
                    return
                h.set_up()
                going_live(i)
                not_last_run.discard(i)
            elif op == "down" and h is not None:
                if model.local_dc() is None:
                    early.discard(i)        # taken out again under the same (empty) key it was filed under
                h.set_down()
                if not deliver("on_down", h):
                    return
                model.live.discard(i)
            elif op == "add" and h is None:
                dc, rack = ev.get("dc") or slots[i]["dc"], ev.get("rack") or slots[i]["rack"]
                h = _ring.make_host(i, dc, rack, None)
                known[i] = h
                model.loc[i] = (dc, rack)
                md.add_or_return_host(h)
                if not deliver("on_add", h):
                    return
                h.set_up()
                going_live(i)
                not_last_run.discard(i)
                if i in removed_once:
                    nontrivial = True
                    ctx.label("ev:remove-then-add")
            elif op == "remove" and h is not None:
                if model.local_dc() is None:
                    early.discard(i)
                md.remove_host(h)
                h.set_down()
                if not deliver("on_remove", h):
                    return
                model.live.discard(i)
                graveyard[id(h)] = i
                if i in early:
                    early.add("gone-%d" % i)
                    early.discard(i)
                not_last_run.discard(i)
                del known[i]
                del model.loc[i]
                removed_once.add(i)
                graveyard["keep-%d" % id(h)] = h        # keep the object alive so that id() stays unique
            elif op == "move" and h is not None:
                dc, rack = ev.get("dc") or slots[i]["dc"], ev.get("rack") or slots[i]["rack"]
                if (dc, rack) == model.loc[i]:
                    continue
                old_dc = model.loc[i][0]
                if model.local_dc() is None:
                    early.discard(i)
                if not deliver("on_down", h):
                    return
                model.live.discard(i)
                h.set_location_info(dc, rack)
                model.loc[i] = (dc, rack)
                if not deliver("on_up", h):
                    return
                going_live(i)
                not_last_run.discard(i)
                if old_dc is not None and old_dc != dc:
                    nontrivial = True
                    ctx.label("ev:dc-change")
                elif old_dc is None:
                    ctx.label("ev:location-learned")
            else:
                ctx.label("ev:skipped")
                continue
            nev += 1
            ctx.label("ev:" + op)
            if not check("event #%d %r" % (nev, ev)):
                return
        ctx.label("policy=" + top, "leaf=" + leaf["kind"], "flow=" + flow)
        if dca and not dca.get("local_dc"):
            ctx.label("local_dc:discovered" if model.discovered else "local_dc:never-discovered")
        ctx.nontrivial(nontrivial)


# ---------------------------------------------------------------------------------------------
# strategy
# ---------------------------------------------------------------------------------------------

def s_case():
    @st.composite
    def case(draw):
        n = draw(st.sampled_from([1, 2, 3, 3, 4, 4, 5, 5, 6, 6]))
        ndc = draw(st.sampled_from([1, 2, 2, 3, 3]))
        slots = []
        for i in range(n):
            dc = i if i < ndc else draw(st.integers(0, ndc - 1))
            slots.append({"dc": DCS[dc], "rack": "r%d" % draw(st.integers(0, 2))})
        idxs = list(range(n))
        subset = st.lists(st.sampled_from(idxs), unique=True, max_size=n)
        leafs = st.one_of(
            st.just({"kind": "rr"}),
            st.fixed_dictionaries({"kind": st.just("dcaware"), "local_dc": st.sampled_from(DCS[:ndc] + ["", "", "dcZ"]),
                                   "used": st.integers(0, 3)}),
            st.fixed_dictionaries({"kind": st.just("dcaware"), "local_dc": st.sampled_from(DCS[:ndc] + [""]),
                                   "used": st.integers(0, 3)}),
            st.fixed_dictionaries({"kind": st.just("whitelist"), "allowed": subset.filter(lambda l: len(l) > 0)}),
            # white list given (partly) by host NAME, possibly a name resolving to two hosts
            st.builds(lambda allowed, named, pair: dict({"kind": "whitelist", "allowed": allowed,
                                                        "by_name": [i for i in allowed if i in named] or allowed[:1]},
                                                       **({"pairs": [pair]} if pair and pair[0] != pair[1] else {})),
                      subset.filter(lambda l: len(l) > 0), subset, st.one_of(st.none(), st.lists(st.sampled_from(idxs), min_size=2, max_size=2))),
        )
        leaf = draw(leafs)
        wrap = draw(st.integers(0, 5))
        if wrap == 0 and leaf["kind"] != "whitelist":
            spec = {"kind": "filter", "allowed": draw(subset), "child": leaf}
        elif wrap == 1:
            spec = {"kind": "default", "child": leaf}
        elif wrap == 2 and leaf["kind"] != "whitelist":
            spec = {"kind": "default", "child": {"kind": "filter", "allowed": draw(subset), "child": leaf}}
        else:
            spec = leaf
        flow = draw(st.sampled_from(["connect", "profile", "profile"]))
        cps = draw(st.lists(st.sampled_from(idxs), unique=True, min_size=1, max_size=min(3, n)))
        events = []
        if flow == "connect":
            initial = list(cps)
            # first node-list refresh: locations of the contact points, peers added
            first = [{"op": "move", "host": i} for i in cps] + [{"op": "add", "host": i} for i in idxs if i not in cps]
            first = draw(st.permutations(first))
            events.extend(first[:draw(st.integers(0, len(first)))] if draw(st.integers(0, 3)) == 0 else first)
            initial_up = [True]
        else:
            initial = draw(st.permutations(idxs))
            initial = initial[:draw(st.integers(1, n))] if draw(st.booleans()) else list(initial)
            initial_up = draw(st.lists(st.sampled_from([True, True, False, None]), min_size=1, max_size=n))
        op = st.one_of(
            st.fixed_dictionaries({"op": st.sampled_from(["up", "down", "down", "add", "remove", "bounce"]), "host": st.sampled_from(idxs)}),
            st.fixed_dictionaries({"op": st.just("move"), "host": st.sampled_from(idxs), "dc": st.sampled_from(DCS[:ndc]),
                                   "rack": st.sampled_from(["r0", "r1", "r2"])}),
            st.fixed_dictionaries({"op": st.just("add"), "host": st.sampled_from(idxs), "dc": st.sampled_from(DCS[:ndc]),
                                   "rack": st.sampled_from(["r0", "r1"])}))
        events.extend(draw(st.lists(op, max_size=12)))
        if leaf["kind"] == "whitelist" and leaf.get("by_name") and draw(st.booleans()):
            # by construction: a host allowed by NAME restarts (down, up) somewhere in the history
            events.insert(draw(st.integers(0, len(events))), {"op": "bounce", "host": draw(st.sampled_from(leaf["by_name"]))})
        return {"policy": spec, "slots": slots, "flow": flow, "contact_points": list(cps), "initial": list(initial),
                "initial_up": initial_up, "randint": draw(st.integers(0, 5)), "events": events, "plans": 2}

    return case()


def parts(tier):
    return [hyp_part("histories", s_case, interpret, tier, quick=1200, thorough=4000, quick_shards=4, thorough_shards=16)]
