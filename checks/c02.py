"""C02 -- value encodings are byte-exact with Cassandra's type serializers (driver against spec.values)."""
import os

from hypothesis import strategies as st

from vlib.harness import EnumPart, HarnessError, hyp_part
from spec import values as V
from checks import _drv

V.self_test()

PID = "C02"
TITLE = "Value encodings are byte-exact with Cassandra's type serializers"
LEVEL = "exploration"
ENGINE = "codec"
TECHNIQUE = ("property-based testing (Hypothesis) against an independent reference codec written from the native protocol "
             "specification and Cassandra's serializers (spec/values.py), plus an enumerated catalogue of out-of-range probes")
RULE = ("forward: the (type tree, value, protocol version, input style) cases of C01; the driver's bytes must equal the reference "
        "encoding byte for byte (trees containing a set: the reference decodes the driver's bytes, compares the value and re-encodes "
        "to the identical bytes, i.e. exactness up to the sender's set order).  backward: the reference encodes a generated value "
        "(also null elements written as length -1, UDT values with trailing fields missing) and the driver must decode that image to "
        "the same value.  range: an enumerated catalogue of out-of-range values per type (integers beyond their width, date/time/"
        "duration/decimal-scale limits, float32 overflow, non-ASCII ascii, wrong vector dimension, over-long tuple/UDT, 16-bit "
        "collection widths of protocol v1/v2) x 7 embeddings (bare, list, set, map key, map value, tuple, UDT, vector) x protocol "
        "{2,4} x input style {objects, raw ints}, plus Hypothesis-drawn magnitudes beyond each bound; the driver must raise, and "
        "bytes that the reference reads back as a different value are the violation.  varint-boundaries: every +-2^k and "
        "+-2^k+-1, k = 0..130, and 0, as a varint and as the unscaled value of a decimal (exponents 0, -2, 3, -20), bare / in a list / "
        "as a map key, forward and backward, enumerated completely.  vint-size-boundaries: vectors (dimension 1-3, every position) of "
        "variable-width element types (text, ascii, blob, varint, decimal, list, set, map, tuple) holding one element whose encoding is "
        "exactly 0, 1, 126..129, 255, 256, 16383..16385 or 2^21-1..2^21+1 bytes, forward, backward and round trip.  input-spellings: every accepted python spelling of a date (datetime.datetime at "
        "five times of day incl. non-midnight, 'yyyy-mm-dd', datetime.date, util.Date), time ('HH:MM:SS.n', int, util.Time, "
        "datetime.time) and timestamp (datetime.date, float, int, naive and aware datetime) value over 22 boundary days on both sides "
        "of the epoch x 5 embeddings, enumerated; the Hypothesis parts draw the same spellings as input style 4.  The forward part also feeds timezone-aware datetimes (fixed "
        "offsets) whose bytes must be those of the UTC instant.  Non-trivial: forward/backward cases whose "
        "encoding is >= 2 bytes and whose value is in a boundary class or whose tree has depth >= 2; every range probe.")
ASSUMPTIONS = [
    "Cassandra's serializers are represented by spec/values.py (pinned by the fixed vectors of tests/unit/test_marshalling.py and test_types.py)",
    "fixed-width vector element types are those with valueLengthIfFixed in Cassandra 4.x/5.0 (boolean, int, bigint, float, double, timestamp, uuid, timeuuid and vectors of those)",
    "timestamps are restricted to what datetime can represent; set order on the wire is the sender's (the server re-sorts)",
    "a null element in a top-level collection on protocol v1/v2 has no representation and is outside the domain; so are vectors of collections on v1/v2 (no server speaks both)",
    "durations with components of mixed sign are not generated (rejected by Cassandra's validation, not a range question)",
]

# the quick tier is ~15 s of single-core work; forking workers costs more than it saves
SERIAL = os.environ.get("VERIF_TIER") == "quick"

_BOUNDARY = {"int-boundary", "varint>=64bit", "non-bmp", "null-inside", "empty-collection", "v2-toplevel-collection",
             "ts-outside-1970-2038", "short-tuple", "float-special", "date-beyond-pydate", "decimal-big-exp", "duration-boundary",
             "long>=128B", "ts-far", "decimal-neg-zero", "nul-char", "aware-datetime", "alt-spelling"}


def s_forward_quick():
    return _drv.codec_cases(3)


def s_forward_thorough():
    return _drv.codec_cases(4)


def s_backward_quick():
    return _drv.codec_cases(3, short_udts=True, styles=(0,), vias=("direct", "direct", "string"))


def s_backward_thorough():
    return _drv.codec_cases(4, short_udts=True, styles=(0,), vias=("direct", "direct", "string"))


def _diff_key(sub, d, tree):
    if d["kind"] == "null-as-empty":
        # where the null lived decides the root cause: collections write nulls through to_binary(None)
        return [sub, "null-as-empty", "collection" if d["parent"] in ("list", "set", "map") else str(d["parent"])]
    if d["kind"] == "empty-as-null":
        return [sub, "empty-as-null", tree["t"] if tree["t"] in ("reversed", "frozen") and not d["path"] else "inner"]
    return [sub, d["leaf"], d["kind"]]


def _vector_of_collection(tree):
    if tree["t"] == "vector" and any(V.contains(tree["of"], c) for c in ("list", "set", "map")):
        return True
    return any(_vector_of_collection(c) for c in V.children(tree))


def _out_of_domain(ctx, tree, pv):
    if pv < 3 and _vector_of_collection(tree):
        ctx.label("skip:vector-of-collection-on-v1/v2")
        return True
    return False


def _report_diffs(ctx, sub, tree, pv, expected, observed, what):
    ds = V.diffs(tree, expected, observed)
    seen = set()
    for d in ds:
        k = _diff_key(sub, d, tree)
        if tuple(k) not in seen:
            seen.add(tuple(k))
            ctx.fail(k, "%s pv=%d %s: at %r expected %r, got %r" % (V.cql_name(tree), pv, what, d["path"], d["a"], d["b"]))
    return ds


def interpret_forward(case, ctx):
    tree, value, pv, style, via = case["tree"], case["value"], case["pv"], case["style"], case["via"]
    shp = _drv.shape(tree)
    feats = _drv.label_case(ctx, tree, value, pv)
    ctx.label("style:%d" % style, "via:" + via)
    if style == 3 and V.contains_value(tree, value, "timestamp"):
        feats = feats | {"aware-datetime"}
        ctx.label("f:aware-datetime")
    for sp in sorted(V.spelling_features(tree, value, style)):
        feats = feats | {"alt-spelling"}
        ctx.label("f:" + sp)
    if _out_of_domain(ctx, tree, pv):
        return
    try:
        expected = V.encode(tree, value, pv)
    except V.SpecError:
        ctx.label("skip:no-v1/v2-representation")
        return
    with ctx.driver(["C02.build", via, V.core(tree)["t"]]):
        typ = _drv.build_type(tree, via)
    if ctx._failures:
        return
    with ctx.driver(["C02.forward.encode", shp]):
        obj = _drv.to_driver(tree, value, style)
        data = typ.to_binary(obj, pv)
    if ctx._failures:
        return
    ctx.nontrivial(len(expected) >= 2 and (V.depth(tree) >= 2 or bool(feats & _BOUNDARY)))
    has_set = V.contains(tree, "set")
    if not has_set and data == expected:
        ctx.label("forward:exact")
        return
    # classify (and, for sets, judge up to element order) through the reference decoder
    try:
        seen = V.decode(tree, data, pv)
    except V.SpecError as e:
        ctx.fail(["C02.forward", "undecodable", shp], "%s pv=%d: reference cannot read the driver's bytes %s: %s (expected %s)" % (
            V.cql_name(tree), pv, data.hex()[:120], e, expected.hex()[:120]))
        return
    if _report_diffs(ctx, "C02.forward", tree, pv, value, seen, "driver bytes read by the reference"):
        return
    again = V.encode(tree, seen, pv)
    if again != data:
        ctx.fail(["C02.forward", "non-canonical", shp], "%s pv=%d: driver wrote %s, Cassandra writes %s for the same value" % (
            V.cql_name(tree), pv, data.hex()[:120], again.hex()[:120]))
    elif not has_set:
        ctx.fail(["C02.forward", "equal-value-different-bytes", shp], "%s pv=%d: driver wrote %s, reference %s" % (
            V.cql_name(tree), pv, data.hex()[:120], expected.hex()[:120]))
    else:
        ctx.label("forward:exact-up-to-set-order")


def interpret_backward(case, ctx):
    tree, value, pv, via = case["tree"], case["value"], case["pv"], case["via"]
    shp = _drv.shape(tree)
    feats = _drv.label_case(ctx, tree, value, pv)
    if _out_of_domain(ctx, tree, pv):
        return
    try:
        image = V.encode(tree, value, pv)
    except V.SpecError:
        ctx.label("skip:no-v1/v2-representation")
        return
    with ctx.driver(["C02.build", via, V.core(tree)["t"]]):
        typ = _drv.build_type(tree, via)
    if ctx._failures:
        return
    with ctx.driver(["C02.backward.decode", shp]):
        back = typ.from_binary(image, pv)
    if ctx._failures:
        return
    got = None
    try:
        with ctx.driver(["C02.backward.readback", shp], expect=(V.NormaliseError,)):
            got = _drv.from_driver(tree, back)
    except V.NormaliseError as e:
        ctx.fail(["C02.backward.type", shp], "decoded value has the wrong python type: %s" % e)
    if ctx._failures:
        return
    ctx.nontrivial(len(image) >= 2 and (V.depth(tree) >= 2 or bool(feats & _BOUNDARY)))
    if "short-tuple" in feats:
        ctx.label("image:short-tuple-or-udt")
    _report_diffs(ctx, "C02.backward", tree, pv, value, got, "image %s" % image.hex()[:80])


# ----------------------------------------------------------------------------------------------------------------
# out-of-range probes
# ----------------------------------------------------------------------------------------------------------------

_DAY = 86400 * 10 ** 9
_VALID = {"tinyint": 1, "smallint": 1, "int": 1, "bigint": 1, "counter": 1, "timestamp": 1, "date": 1, "time": 1,
          "duration": [1, 1, 1], "decimal": [0, "1", 0], "float": 1.0, "ascii": "a"}


def _scalar_probes():
    out = []
    for t, bits in (("tinyint", 8), ("smallint", 16), ("int", 32), ("bigint", 64), ("counter", 64)):
        hi, lo = 2 ** (bits - 1) - 1, -(2 ** (bits - 1))
        vals = [hi + 1, lo - 1, 2 ** bits - 1, 2 ** bits, -(2 ** bits), 2 ** bits + 5, 2 ** 64 + 5, -(2 ** 64) - 3]
        if bits < 64:
            vals += [2 ** 63, 2 ** 31 if bits < 32 else 2 ** 40]
        out += [(t, v) for v in sorted(set(vals)) if not lo <= v <= hi]
    out += [("timestamp", v) for v in (2 ** 63, -(2 ** 63) - 1, 2 ** 64 + 1)]
    out += [("date", v) for v in (2 ** 31, -(2 ** 31) - 1, 2 ** 32, -(2 ** 32) + 5, 2 ** 32 + 7)]
    out += [("time", v) for v in (-1, -10 ** 9, -_DAY, _DAY, _DAY + 1, 2 ** 63, -(2 ** 63) - 1, 2 ** 64 + 1)]
    out += [("duration", v) for v in ([2 ** 31, 0, 0], [-(2 ** 31) - 1, 0, 0], [0, 2 ** 31, 0], [0, -(2 ** 31) - 1, 0],
                                      [2 ** 32 + 1, 0, 0], [0, 2 ** 32 + 1, 1], [2 ** 62, 0, 0], [2 ** 31, 2 ** 31, 1],
                                      [0, 0, 2 ** 63], [0, 0, -(2 ** 63) - 1], [1, 1, 2 ** 64 + 1])]
    out += [("decimal", v) for v in ([0, "1", 2 ** 31 + 1], [0, "1", -(2 ** 31)], [1, "5", -(2 ** 31) - 5], [0, "12345", 2 ** 40],
                                     [0, "1", -(2 ** 32) + 3])]
    out += [("float", v) for v in (1e39, -1e39, 3.5e38, 1.7976931348623157e308)]
    out += [("ascii", v) for v in ("é", "aĀ", "\U0001F600")]
    return out


def _embed(t, v):
    """(label, tree, value) embeddings of scalar probe value v of type t"""
    S = V.T(t)
    ok = _VALID[t]
    out = [("bare", S, v),
           ("list", V.t_list(S), [ok, v]),
           ("map-value", V.t_map(V.T("int"), S), [[1, ok], [2, v]]),
           ("tuple", V.t_tuple([V.T("int"), S]), [1, v]),
           ("udt", V.t_udt("ks", "Type_2", [["a", V.T("text")], ["b", S]]), ["x", v]),
           ("vector", V.t_vector(S, 2), [ok, v])]
    if t not in ("duration", "counter"):
        out += [("set", V.t_set(S), [v]), ("map-key", V.t_map(S, V.T("int")), [[v, 1]])]
    if t == "counter":
        out = out[:1]
    return out


def _structural_probes():
    i, tx = V.T("int"), V.T("text")
    return [
        ("vector-dim", "short", V.t_vector(V.T("float"), 3), [1.0, 2.0]),
        ("vector-dim", "long", V.t_vector(V.T("float"), 3), [1.0, 2.0, 3.0, 4.0]),
        ("vector-dim", "short-var", V.t_vector(tx, 2), ["a"]),
        ("vector-dim", "long-var", V.t_vector(V.T("varint"), 1), [1, 2]),
        ("vector-dim", "empty", V.t_vector(i, 1), []),
        ("vector-dim", "nested", V.t_list(V.t_vector(i, 2)), [[1, 2], [1, 2, 3]]),
        ("tuple-arity", "long", V.t_tuple([i, tx]), [1, "a", 2]),
        ("tuple-arity", "nested", V.t_list(V.t_tuple([i])), [[1, 2]]),
        ("udt-arity", "long", V.t_udt("ks", "Type_2", [["a", i], ["b", tx]]), [1, "a", 2]),
        ("v2-width", "element-64KiB", V.t_list(V.T("blob")), ["00" * 65536]),
        ("v2-width", "65536-elements", V.t_list(V.T("tinyint")), [1] * 65536),
        ("v2-width", "map-value-64KiB", V.t_map(i, V.T("blob")), [[1, "ab" * 40000]]),
        ("v2-width", "set-element-64KiB", V.t_set(tx), ["z" * 70000]),
    ]


_PROBE_CHUNKS = ["scalars:" + t for t in ("tinyint", "smallint", "int", "bigint", "counter", "timestamp", "date", "time", "duration",
                                          "decimal", "float", "ascii")] + ["structural"]


def probe_cases(chunk):
    if chunk == "structural":
        for leaf, label, tree, value in _structural_probes():
            for pv in (1, 2, 4, 0x42):
                for style in (0, 1):
                    yield {"leaf": leaf, "label": label, "tree": tree, "value": value, "pv": pv, "style": style}
        return
    want = chunk.split(":")[1]
    for t, v in _scalar_probes():
        if t != want:
            continue
        for label, tree, value in _embed(t, v):
            for pv in (2, 4):
                for style in (0, 2):
                    yield {"leaf": t, "label": label, "tree": tree, "value": value, "pv": pv, "style": style}


_RANDOM_LEAVES = ["tinyint", "smallint", "int", "bigint", "timestamp", "date", "time", "duration.months", "duration.days",
                  "duration.nanos", "decimal.exponent"]
_BOUNDS = {"tinyint": (-(2 ** 7), 2 ** 7 - 1), "smallint": (-(2 ** 15), 2 ** 15 - 1), "int": (-(2 ** 31), 2 ** 31 - 1),
           "bigint": (-(2 ** 63), 2 ** 63 - 1), "timestamp": (-(2 ** 63), 2 ** 63 - 1), "date": (-(2 ** 31), 2 ** 31 - 1),
           "time": (0, _DAY - 1), "duration.months": (-(2 ** 31), 2 ** 31 - 1), "duration.days": (-(2 ** 31), 2 ** 31 - 1),
           "duration.nanos": (-(2 ** 63), 2 ** 63 - 1), "decimal.exponent": (-(2 ** 31) + 1, 2 ** 31)}


def s_random_range():
    offs = st.one_of(st.sampled_from(V._int_bounds(0, 2 ** 70, 70)), st.integers(0, 2 ** 66), st.integers(0, 300))

    def mk(leaf, high, off, embed, pv, style):
        lo, hi = _BOUNDS[leaf]
        x = hi + 1 + off if high else lo - 1 - off
        t = leaf.split(".")[0]
        if leaf.startswith("duration"):
            sgn = 1 if x >= 0 else -1
            v = {"duration.months": [x, sgn, sgn], "duration.days": [sgn, x, sgn], "duration.nanos": [sgn, sgn, x]}[leaf]
        elif leaf == "decimal.exponent":
            v = [0, "1", x]
        else:
            v = x
        embeds = _embed(t, v)
        label, tree, value = embeds[embed % len(embeds)]
        return {"leaf": t, "label": label, "tree": tree, "value": value, "pv": pv, "style": style}
    return st.builds(mk, st.sampled_from(_RANDOM_LEAVES), st.booleans(), offs, st.integers(0, 7), st.sampled_from([1, 2, 3, 4, 5, 0x42]),
                     st.sampled_from([0, 2]))


def interpret_probe(case, ctx):
    leaf, label, tree, value, pv, style = case["leaf"], case["label"], case["tree"], case["value"], case["pv"], case["style"]
    ctx.label("probe:" + leaf, "embed:" + label)
    ctx.nontrivial(True)
    try:
        expected = V.encode(tree, value, pv)
    except V.SpecError:
        expected = None
    if leaf != "v2-width" and expected is not None:
        raise HarnessError("probe %r %r is representable -- the catalogue is wrong" % (V.cql_name(tree), value))
    with ctx.driver(["C02.build", "direct", V.core(tree)["t"]]):
        typ = _drv.build_type(tree)
    if ctx._failures:
        return
    if expected is not None:
        # a v2-width probe on a protocol with 32-bit widths: representable, must be exact
        ctx.label("probe:in-range-control")
        with ctx.driver(["C02.range.control", leaf]):
            data = typ.to_binary(_drv.to_driver(tree, value, style), pv)
        if ctx._failures:
            return
        if V.contains(tree, "set"):
            ctx.check(V.same(tree, V.decode(tree, data, pv), value) and len(data) == len(expected), ["C02.range.control", leaf, "bytes"],
                      "large value not encoded exactly")
        else:
            ctx.check(data == expected, ["C02.range.control", leaf, "bytes"], "large value not encoded exactly")
        return
    try:
        obj = _drv.to_driver(tree, value, style)
        data = typ.to_binary(obj, pv)
    except Exception as e:  # raising is the required behaviour
        ctx.label("probe:raised", "raised:" + type(e).__name__)
        return
    ctx.label("probe:not-raised")
    try:
        seen = V.decode(tree, data, pv, validate=False)
    except V.SpecError:
        ctx.fail(["C02.range", leaf, "undecodable-bytes"], "%s %r (pv=%d, %s): no exception, wrote %s which Cassandra cannot read" % (
            V.cql_name(tree), value, pv, label, data.hex()[:80]))
        return
    if V.same(tree, seen, value):
        ctx.fail(["C02.range", leaf, "accepted-out-of-range"],
                 "%s %r (pv=%d, %s): outside the type's range but encoded as %s without an exception" % (
                     V.cql_name(tree), value, pv, label, data.hex()[:80]))
    else:
        ctx.fail(["C02.range", leaf, "encoded-as-different-value"],
                 "%s %r (pv=%d, %s): no exception; the bytes %s mean %r to Cassandra" % (
                     V.cql_name(tree), value, pv, label, data.hex()[:80], seen))


# ----------------------------------------------------------------------------------------------------------------
# varint boundaries, enumerated: every +-2^k and +-2^k+-1 (k = 0..130) as a varint and as a decimal's unscaled value
# ----------------------------------------------------------------------------------------------------------------

_VB_EXPONENTS = (0, -2, 3, -20)
_VB_CHUNKS = [[0, 33], [33, 66], [66, 99], [99, 131]]
_VB_TYPES = {}


def _vb_numbers(lo, hi):
    out = set()
    if lo == 0:
        out.add(0)
    for k in range(lo, hi):
        for x in (2 ** k - 1, 2 ** k, 2 ** k + 1):
            out.add(x)
            out.add(-x)
    return sorted(out)


def varint_boundary_cases(chunk):
    for n in _vb_numbers(chunk[0], chunk[1]):
        for kind, exp in [("varint", 0)] + [("decimal", e) for e in _VB_EXPONENTS]:
            for embed in ("bare", "list", "map-key"):
                yield {"n": n, "kind": kind, "exp": exp, "embed": embed, "pv": 2 if (n + exp) % 2 else 4}


def interpret_varint_boundary(case, ctx):
    n, kind, exp, embed, pv = case["n"], case["kind"], case["exp"], case["embed"], case["pv"]
    leaf = V.T(kind)
    x = n if kind == "varint" else [1 if n < 0 else 0, str(abs(n)), exp]
    if embed == "bare":
        tree, value = leaf, x
    elif embed == "list":
        tree, value = V.t_list(leaf), [x, x]
    else:
        tree, value = V.t_map(leaf, V.T("int")), [[x, 1]]
    ctx.label("varint-boundary", "vb:" + kind, "vb:" + embed)
    ctx.nontrivial(True)
    typ = _VB_TYPES.get((kind, embed))
    if typ is None:
        with ctx.driver(["C02.build", "direct", tree["t"]]):
            typ = _VB_TYPES[(kind, embed)] = _drv.build_type(tree)
        if ctx._failures:
            return
    expected = V.encode(tree, value, pv)
    shp = _drv.shape(tree)
    with ctx.driver(["C02.forward.encode", shp]):
        data = typ.to_binary(_drv.to_driver(tree, value, 0), pv)
    if not ctx._failures and data != expected:
        try:
            seen = V.decode(tree, data, pv)
        except V.SpecError as e:
            ctx.fail(["C02.forward", "undecodable", shp], "%s %r: driver wrote %s (%s)" % (V.cql_name(tree), value, data.hex()[:80], e))
        else:
            if not _report_diffs(ctx, "C02.forward", tree, pv, value, seen, "driver bytes read by the reference"):
                ctx.fail(["C02.forward", "non-canonical", shp], "%s %r pv=%d: driver wrote %s, Cassandra writes %s" % (
                    V.cql_name(tree), value, pv, data.hex()[:80], expected.hex()[:80]))
    before = len(ctx._failures)
    got = None
    try:
        with ctx.driver(["C02.backward.decode", shp], expect=(V.NormaliseError,)):
            got = _drv.from_driver(tree, typ.from_binary(expected, pv))
    except V.NormaliseError as e:
        ctx.fail(["C02.backward.type", shp], "decoded value has the wrong python type: %s" % e)
    if len(ctx._failures) == before:
        _report_diffs(ctx, "C02.backward", tree, pv, value, got, "image %s" % expected.hex()[:80])


# ----------------------------------------------------------------------------------------------------------------
# size prefix of variable-width vector elements at the unsigned-vint boundaries, enumerated
# ----------------------------------------------------------------------------------------------------------------

def interpret_vint_size(case, ctx):
    tree, value = _drv.vsb_build(case)
    pv, feat = case["pv"], "size=%d" % case["size"]
    ctx.label("vint-size-boundary", "vsb:" + case["etype"], "vsb:" + feat)
    ctx.nontrivial(True)
    with ctx.driver(["C02.build", "direct", "vector"]):
        typ = _drv.build_type(tree)
    if ctx._failures:
        return
    expected = V.encode(tree, value, pv)
    data = None
    with ctx.driver(["C02.forward.encode", "vector-element-size", feat]):
        data = typ.to_binary(_drv.to_driver(tree, value, 0), pv)
    if data is not None and data != expected:
        i = next((j for j in range(min(len(data), len(expected))) if data[j] != expected[j]), min(len(data), len(expected)))
        ctx.fail(["C02.forward", "vector-element-size", feat], "%s with an element of %d bytes at %d: driver wrote ...%s..., Cassandra writes ...%s... (offset %d)" % (
            V.cql_name(tree), case["size"], case["pos"], data[max(0, i - 2):i + 6].hex(), expected[max(0, i - 2):i + 6].hex(), i))
    for sub, image in (("C02.backward", expected), ("C02.roundtrip", data)):
        if image is None or (sub == "C02.roundtrip" and image == expected):
            continue
        got, before = None, len(ctx._failures)
        try:
            with ctx.driver([sub + ".decode", "vector-element-size", feat], expect=(V.NormaliseError,)):
                got = _drv.from_driver(tree, typ.from_binary(image, pv))
        except V.NormaliseError as e:
            ctx.fail([sub + ".type", "vector-element-size", feat], str(e)[:300])
        if len(ctx._failures) == before and not V.same(tree, value, got):
            ctx.fail([sub, "vector-element-size", feat], "%s with an element of %d bytes does not decode to the value sent" % (V.cql_name(tree), case["size"]))


# ----------------------------------------------------------------------------------------------------------------
# alternate python spellings of date / time / timestamp values, enumerated
# ----------------------------------------------------------------------------------------------------------------

def interpret_spelling(case, ctx):
    tree, value, obj = _drv.spelling_build(case)
    pv = case["pv"]
    feat = "%s-from-%s" % (case["leaf"], case["form"])
    sub = ("pre-epoch" if case["n"] < 0 else "post-epoch") + ("-non-midnight" if case["tod_us"] else "")
    ctx.label("spelling", "sp:" + feat, "sp:" + feat + ":" + sub, "embed:" + case["embed"])
    ctx.nontrivial(True)
    with ctx.driver(["C02.build", "direct", tree["t"]]):
        typ = _drv.build_type(tree)
    if ctx._failures:
        return
    expected = V.encode(tree, value, pv)
    data = None
    with ctx.driver(["C02.forward.encode", feat, sub]):
        data = typ.to_binary(obj, pv)
    if data is None:
        return
    if data != expected:
        try:
            seen = V.decode(tree, data, pv)
        except V.SpecError as e:
            seen = "<unreadable: %s>" % e
        ctx.fail(["C02.forward", feat, sub], "%s given as %r (%s): driver wrote %s = %r, Cassandra writes %s = %r" % (
            V.cql_name(tree), obj, case["embed"], data.hex(), seen, expected.hex(), value))
    got, before = None, len(ctx._failures)
    try:
        with ctx.driver(["C02.backward.decode", _drv.shape(tree)], expect=(V.NormaliseError,)):
            got = _drv.from_driver(tree, typ.from_binary(expected, pv))
    except V.NormaliseError as e:
        ctx.fail(["C02.backward.type", _drv.shape(tree)], str(e)[:300])
    if len(ctx._failures) == before:
        _report_diffs(ctx, "C02.backward", tree, pv, value, got, "image %s" % expected.hex()[:80])


def parts(tier):
    q = tier == "quick"
    return [
        hyp_part("forward", s_forward_quick if q else s_forward_thorough, interpret_forward, tier,
                 quick=400, thorough=4000, quick_shards=3, thorough_shards=16,
                 # generator-degenerate guard (labels are shared with the backward part, so these are loose)
                 floors={"has:vector": 0.03, "has:udt": 0.03, "has:map": 0.04, "has:set": 0.04, "f:null-inside": 0.035,
                         "f:int-boundary": 0.025, "pv:v1-2": 0.06, "forward:exact": 0.1, "forward:exact-up-to-set-order": 0.03}),
        hyp_part("backward", s_backward_quick if q else s_backward_thorough, interpret_backward, tier,
                 quick=400, thorough=4000, quick_shards=3, thorough_shards=16),
        EnumPart("probes", _PROBE_CHUNKS, probe_cases, interpret_probe),
        EnumPart("varint-boundaries", _VB_CHUNKS, varint_boundary_cases, interpret_varint_boundary),
        EnumPart("vint-size-boundaries", _drv.vsb_chunks(), _drv.vsb_cases, interpret_vint_size),
        EnumPart("input-spellings", _drv.spelling_chunks(), _drv.spelling_cases, interpret_spelling),
        hyp_part("range", s_random_range, interpret_probe, tier, quick=300, thorough=3000, quick_shards=1, thorough_shards=4),
    ]
