"""C20 -- switching the session keyspace is applied everywhere or reported."""
import itertools

import os

from hypothesis import strategies as st

from checks import _simclu as S
from checks import _simutil as U
from vlib.harness import EnumPart, hyp_part

PID = "C20"
TITLE = "Switching the session keyspace is applied everywhere or reported"
LEVEL = "exploration"
ENGINE = "sim"
THOROUGH_SCALE = 1.0
SERIAL = os.environ.get("VERIF_TIER") == "quick"   # heavily loaded machine: a forked pool is slower than one process
TECHNIQUE = ("bounded exhaustive enumeration plus model-based generation (Hypothesis) of per-pool outcomes and delivery "
             "orders (classic pools: per connection, and again per retry) over the real Cluster/Session/pools/connections on a deterministic simulated network; the fake "
             "servers' own record of what they answered is the ground truth")
RULE = ("A case is 1-4 fake nodes, one session (protocol 4/3 = one connection per host, protocol 2 = classic pool with "
        "2 connections), and per host a situation at the moment of the switch: pool open and the node answers the "
        "pool's USE with success / InvalidRequest (keyspace unknown on that node) / another server error / by closing "
        "the connection; connection closed by the peer but not yet noticed; connection dying right now with a request "
        "in flight (pool shut down or being replaced, depending on the conviction policy); pool without a connection "
        "(REMOTE host with connect_to_remote_hosts=False); connection died earlier (host down and reconnecting, or "
        "replacement connection being opened, the clock advanced by a generated amount); optionally a pooled connection is "
        "killed after a successful switch (its replacement must select the keyspace).  On classic pools the host's "
        "second connection may be given its own generated answer, so one pool can end a failed switch partly switched "
        "(one connection has the keyspace, its sibling does not).  A switch that reported an error is retried up to "
        "three times: 0-2 retries with generated per-connection answers (ok / InvalidRequest / server error; "
        "connections that already have the keyspace answer synchronously inside the driver), then a retry that every "
        "node accepts.  Besides the final outcome, at every release step the case checks that success has not been "
        "reported while a live pooled connection still has its USE unanswered.  The switch is triggered by "
        "execute_async('USE ks'), execute('USE ks') or set_keyspace('ks') through a generated coordinator, nodes hold "
        "the pools' USE requests and the case releases them in a generated order; a schedule tape picks the runnable "
        "virtual thread at every choice point.  Non-trivial: >= 2 hosts in >= 2 distinct situations and the switch "
        "reached the pools (the per-connection / retry dimensions do not count towards non-triviality; labels "
        "switch:/retry:pool-conns-answer-differently, retry:pool-partly-switched, retry:switched-conn-first|not-first "
        "and retry1:/retry2:/retry:<outcome> show how often they were generated).  Distinct by case digest.")
ASSUMPTIONS = ["network, clock, executor and event loop are simulated (sim/); Cluster, Session, pools, connections, "
               "ResponseFuture are the real classes",
               "the pools' _set_keyspace_for_all_conns and Session._set_keyspace_for_all_pools are wrapped by a recorder "
               "(call/callback log) that is used only to name the finding key, never for the verdict",
               "a hang is judged after every held request was answered and 3 virtual seconds (plus the client timeout) passed",
               "a pooled connection that is open, not defunct, not closed by the peer and whose USE the fake node still holds "
               "has not selected the keyspace; reporting success at that moment violates 'every pooled connection the "
               "session uses for a later request has that keyspace' (nothing stops the next request from borrowing it)",
               "which connection of a classic pool is 'first' is read from the pool's public get_connections() order",
               "pre-emption at blocking operations (enumeration, 'blocking' part) / at every lock operation ('locks' part)"]
LEVEL_TEXT = ("protocol 4, execute_async: exhaustive over <= 2 hosts x 8 situations x 2 release orders x 2 conviction "
              "policies (quick: plus 3 hosts with the default conviction policy and reverse release order; thorough: 3 hosts "
              "complete); sampled beyond that (4 hosts, protocol 2/3, per-connection answers inside a classic pool, generated "
              "retry scripts, blocking triggers, client timeout, schedules)")

KS = "ks"
USE_USER = "USE ks"            # what Session.set_keyspace('ks') sends
USE_POOL = 'USE "ks"'          # what Connection.set_keyspace_async/_blocking send
ANSWERS = ["ok", "invalid", "error", "die"]
RETRY_ANSWERS = ["ok", "ok", "invalid", "error"]
PRES = ["open", "closed", "dying", "noconn", "died_earlier"]
SITUATIONS = [["open", "ok"], ["open", "invalid"], ["open", "error"], ["open", "die"], ["closed", "ok"],
              ["dying", "ok"], ["noconn", "ok"], ["died_earlier", "ok"]]


def s_case(gran):
    host = st.one_of(st.sampled_from(SITUATIONS), st.tuples(st.sampled_from(PRES), st.sampled_from(ANSWERS)).map(list))
    return st.fixed_dictionaries({
        "pv": st.sampled_from([4, 4, 3, 2, 2]),
        "hosts": st.lists(host, min_size=1, max_size=4),
        "convict": st.booleans(),
        "trigger": st.sampled_from(["execute_async", "execute_async", "execute", "set_keyspace"]),
        "timeout": st.sampled_from([None, None, None, 2.0]),
        "coord": st.integers(0, 3),
        "t_before": st.sampled_from([0.0, 0.3, 1.3, 1.9, 2.5, 4.0]),
        "order": st.lists(st.integers(0, 5), max_size=6),
        "kill_after": st.sampled_from([None, 0, 1, 2, 3]),
        "retry": st.booleans(),
        # classic (protocol 1/2) pools: the host's second connection may answer differently from the first
        "conn2": st.lists(st.sampled_from([None, None, "ok", "invalid", "error", "die"]), max_size=4),
        # answers (first, second connection; per host) during the retries that precede the final all-accepting retry
        "retry_scripts": st.lists(st.lists(st.tuples(st.sampled_from(RETRY_ANSWERS), st.sampled_from(RETRY_ANSWERS)).map(list),
                                           min_size=4, max_size=4), max_size=2),
        "tape": st.lists(st.integers(0, 3), max_size=30 if gran == "locks" else 10),
        "gran": st.just(gran),
    })


def enum_chunks(tier):
    """quick: <= 2 hosts complete, 3 hosts with the default conviction policy and reverse release order;
    thorough: <= 3 hosts x both orders x both conviction policies"""
    out = [{"n": n, "convict": c, "first": None, "orders": [[0], [5]]} for n in (1, 2) for c in (True, False)]
    for f in range(len(SITUATIONS)):
        if tier == "quick":
            out.append({"n": 3, "convict": True, "first": f, "orders": [[5]]})
        else:
            out.extend({"n": 3, "convict": c, "first": f, "orders": [[0], [5]]} for c in (True, False))
    return out


def enum_cases(chunk):
    n = chunk["n"]
    for combo in itertools.product(range(len(SITUATIONS)), repeat=n):
        if chunk["first"] is not None and combo[0] != chunk["first"]:
            continue
        for order in (chunk["orders"] if n > 1 else [[0]]):
            yield {"pv": 4, "hosts": [list(SITUATIONS[i]) for i in combo], "convict": chunk["convict"],
                   "trigger": "execute_async", "timeout": None, "coord": 0, "t_before": 1.9,
                   "kill_after": None, "retry": True, "order": list(order) * 4, "tape": [], "gran": "blocking"}


def interpret(case, ctx):
    sim = S.Sim(tape=case["tape"], granularity=case["gran"], max_steps=120000)
    try:
        with sim:
            _run(case, ctx, sim)
    except S.StepBudgetExceeded:
        ctx.stats.inconclusive += 1
        ctx.label("inconclusive:step-budget")


def _run(case, ctx, sim):
    import cassandra.cluster as C
    import cassandra.pool as P
    from cassandra.cluster import EXEC_PROFILE_DEFAULT, ExecutionProfile
    from cassandra.policies import ConstantReconnectionPolicy
    net = sim.net
    pv = case["pv"]
    hosts = case["hosts"]
    n = len(hosts)
    addrs = [S.addr(i) for i in range(n)]
    pool_class = "HostConnection" if pv >= 3 else "HostConnectionPool"
    stt = {"armed": False, "pre_conns": set(), "answered": set(), "in_switch": False}
    conn2 = case.get("conn2") or []
    # per host: [answer of the pool's first connection, answer of its other connections (classic pools only)]
    script = dict((addrs[i], [hosts[i][1], (conn2[i] if i < len(conn2) and conn2[i] else hosts[i][1])]) for i in range(n))

    def on_request(node, conn, req):
        if conn.is_control_connection:
            return S.legacy_system_tables(node, conn, req)
        if req["op"] == "QUERY":
            q = req.get("query", "")
            if q == "SELECT hold FROM t_%s" % node.address.replace(".", "_"):
                return ("hold",)
            if q == USE_POOL and stt["armed"] and conn.sim_id in stt["pre_conns"] and conn.sim_id not in stt["answered"]:
                stt["answered"].add(conn.sim_id)
                return ("hold",)
        return None

    for a in addrs:
        net.add_node(a).on_request = on_request
    any_noconn = any(h[0] == "noconn" for h in hosts)
    distances = dict((addrs[i], "remote") for i in range(n) if hosts[i][0] == "noconn")
    policy = S.plan_policy(distances=distances)
    prof = ExecutionProfile(load_balancing_policy=policy, request_timeout=case["timeout"])
    kw = {}
    if not case["convict"]:
        kw["conviction_policy_factory"] = S.never_convict_factory()
    cluster = sim.make_cluster(addrs[:1], protocol_version=pv, execution_profiles={EXEC_PROFILE_DEFAULT: prof},
                               reconnection_policy=ConstantReconnectionPolicy(1.0, max_attempts=None), **kw)
    if any_noconn:
        cluster.connect_to_remote_hosts = False     # documented Cluster attribute
    S.fixed_random(sim, [0.0])

    # recorder (finding keys only)
    calls, cb_order, switches = [], [], []
    for cls in (P.HostConnection, P.HostConnectionPool):
        def wrapper(self, keyspace, callback, _orig=cls._set_keyspace_for_all_conns):
            rec = {"addr": self.host.endpoint.address, "shutdown": bool(self.is_shutdown),
                   "nconn": len([c for c in self.get_connections() if c]), "cb": None, "switch": stt["in_switch"]}
            calls.append(rec)

            def cb(pool, errors):
                rec["cb"] = list(errors)
                cb_order.append(rec)
                return callback(pool, errors)
            return _orig(self, keyspace, cb)
        sim.patch.set(cls, "_set_keyspace_for_all_conns", wrapper)

    def switch_wrapper(self, keyspace, callback, _orig=C.Session._set_keyspace_for_all_pools):
        switches.append(keyspace)
        stt["in_switch"] = True
        try:
            return _orig(self, keyspace, callback)
        finally:
            stt["in_switch"] = False
    sim.patch.set(C.Session, "_set_keyspace_for_all_pools", switch_wrapper)

    with ctx.driver(["C20.setup", "connect"]):
        session = sim.call(cluster.connect, wait_for_all_pools=True)
    if not ctx._failures:
        _history(case, ctx, sim, cluster, session, policy, addrs, script, stt, calls, cb_order, switches, pool_class)
    if not cluster.is_shutdown:
        try:
            S.drain_held(sim)
            sim.call(cluster.shutdown)
        except S.Deadlock:
            pass


def _history(case, ctx, sim, cluster, session, policy, addrs, script, stt, calls, cb_order, switches, pool_class):
    net = sim.net
    hosts = case["hosts"]
    n = len(hosts)
    sim.settle()

    # ---- establish the per-host situations
    for i, (pre, _ans) in enumerate(hosts):
        a = addrs[i]
        conns = S.pool_connections(session, a)
        if pre in ("dying", "died_earlier") and conns:
            policy.order = [a]
            for _ in conns:
                with ctx.driver(["C20.setup", "hold-query"]):
                    sim.call(session.execute_async, "SELECT hold FROM t_%s" % a.replace(".", "_"))
                sim.settle()
        if pre == "died_earlier":
            net.nodes[a].connect_delay = 0.6
            for c in conns:
                net.server_close(c)
            sim.settle()
        elif pre == "closed":
            for c in conns:
                net.server_close(c)
            sim.settle()
    if any(h[0] == "died_earlier" for h in hosts):
        sim.advance(case["t_before"])
    stt["pre_conns"] = set(c.sim_id for c in net.conns if not c.is_closed and not c.is_defunct)
    stt["armed"] = True
    rank = {}

    def rerank():
        # position of every pooled connection in its pool's list (= the order the pool walks them)
        rank.clear()
        for a in addrs:
            for j, c in enumerate(S.pool_connections(session, a)):
                rank[c.sim_id] = j

    def note_mixed(tag):
        # classic pools only: connections of ONE pool differ (in what they will answer / in whether they already have ks)
        for i, a in enumerate(addrs):
            conns = [c for c in S.pool_connections(session, a) if not c.is_closed and not c.is_defunct]
            if len(conns) >= 2:
                if len(set(script[a][min(rank.get(c.sim_id, 0), 1)] for c in conns)) > 1:
                    ctx.label(tag + ":pool-conns-answer-differently")
                has = [c.keyspace == KS for c in conns]
                if any(has) and not all(has):
                    ctx.label(tag + ":pool-partly-switched")
                    ctx.label(tag + (":switched-conn-first" if has[0] else ":switched-conn-not-first"))
    rerank()
    for i, (pre, _ans) in enumerate(hosts):
        if pre == "dying":
            for c in S.pool_connections(session, addrs[i]):
                net.server_close(c)

    def attempt(first):
        note_mixed("switch" if first else "retry")
        early = []
        # ---- trigger
        k = case["coord"] % n
        policy.order = addrs[k:] + addrs[:k]
        trig = case["trigger"]
        box = {}
        if trig == "execute_async":
            with ctx.driver(["C20.trigger", "execute_async"]):
                box["fut"] = sim.call(session.execute_async, USE_USER)
            if "fut" not in box:
                return "abort", [], []

            def done():
                return box["fut"]._event.is_set()

            def outcome():
                f = box["fut"]
                return ("error", f._final_exception) if f._final_exception is not None else ("ok", None)
        else:
            fn = (lambda: session.execute(USE_USER)) if trig == "execute" else (lambda: session.set_keyspace(KS))
            actor = sim.spawn(fn)

            def done():
                return actor.done

            def outcome():
                return ("error", actor.box["exc"]) if "exc" in actor.box else ("ok", None)

        # ---- the nodes answer the pools' USE requests in the generated order
        failures = []      # ground truth kept by the fake servers: (address, kind) of every failed selection
        delivered = []
        order = case["order"]
        for step in range(40):
            sim.settle()
            held = [(nd, c, r) for (nd, c, r) in U.all_held(net) if r.get("query") == USE_POOL]
            if not held:
                break
            # ---- oracle 3a: success is not reported while a live pooled connection has not answered its USE yet
            if not early and done() and outcome()[0] == "ok":
                waiting = [c for (nd, c, r) in held if not (c.is_closed or c.is_defunct or c.srv_closed)
                           and c.keyspace != KS and any(c is x for x in S.pool_connections(session, nd.address))]
                if waiting:
                    early.append(1)
                    ctx.fail(["C20.applied", "use-outstanding", pool_class],
                             "the switch reported success while pooled connection(s) %r (keyspace %r) have not answered "
                             "their USE yet; answers so far %r" % (waiting, [c.keyspace for c in waiting], delivered))
            idx = (order[step % len(order)] if order else 0) % len(held)
            node, conn, req = held[idx]
            for j, (_c, r) in enumerate(node.held):
                if r is req:
                    del node.held[j]
                    break
            ans = script[node.address][min(rank.get(conn.sim_id, 0), 1)]
            if conn.is_closed or conn.is_defunct or conn.srv_closed:
                # the client already gave up on this connection (e.g. its pool shut down because a sibling failed):
                # whatever the node would answer now is never seen
                ctx.label("answer-on-dead-connection")
                continue
            delivered.append((node.address, ans))
            if ans == "ok":
                node.default(conn, req)
            elif ans == "invalid":
                node.reply_error(conn, req, "invalid", "Keyspace 'ks' does not exist")
                failures.append((node.address, "invalid"))
            elif ans == "error":
                node.reply_error(conn, req, "overloaded", "simulated overload")
                failures.append((node.address, "error"))
            else:
                net.server_close(conn)
                failures.append((node.address, "died"))
        sim.settle()

        # ---- oracle 1: the switch completes
        late = False
        if not done():
            sim.advance(3.0 + (case["timeout"] or 0.0))
            S.drain_held(sim)
            late = done()
        started = bool(switches)
        situations = set((h[0], h[1] if h[0] == "open" else "-") for h in hosts)
        if first:
            ctx.nontrivial(started and n >= 2 and len(situations) >= 2)
            ctx.label("pools=%d" % n, pool_class, "trigger:" + trig, "switch-started" if started else "switch-not-started")
            for h in hosts:
                ctx.label("pre:" + h[0])
        for _a, ans in delivered:
            ctx.label("answered:" + ans)
        if not done():
            silent = [r for r in calls if r["switch"] and r["cb"] is None]
            feats = ["shut-down" if r["shutdown"] else ("no-connection" if r["nconn"] == 0 else "has-connection")
                     for r in silent][:1] or ["no-silent-pool"]
            ctx.fail(["C20.completes", pool_class] + feats,
                     "%s never completed although every USE was answered and %.1f virtual s passed; pools that never "
                     "called back: %r" % (trig, 3.0 + (case["timeout"] or 0.0), silent))
            ctx.label("outcome:hang")
            return "hang", failures, delivered
        kind, exc = outcome()
        ctx.label("outcome:" + kind + (":late" if late else ""))
        if kind == "error":
            ctx.label("error:" + type(exc).__name__)

        # ---- oracle 2: a failed selection on any pool is reported
        if kind == "ok" and failures:
            sw = [r for r in cb_order if r["switch"]]
            # the pool that finishes last is the one whose USE the fake servers answered last (ground truth, not the
            # driver's own bookkeeping)
            last_ok = bool(delivered) and delivered[-1][1] in ("ok", "die")
            real = [f for f in failures if f[1] != "died"]
            if real and last_ok:
                feat = ["failed-pool-not-last"]
            elif not real:
                feat = ["died-midway"]
            else:
                feat = ["last-pool-failed"]
            ctx.fail(["C20.error-reported"] + feat,
                     "the switch reported success although selecting the keyspace failed on %r (callback order %r)" % (
                         failures, [(r["addr"], [type(e).__name__ for e in r["cb"]]) for r in sw]))
        return kind, failures, delivered


    kind, failures, delivered = attempt(True)
    if kind == "error" and case.get("retry"):
        # the application retries the same switch a little later, up to three times: first with generated per-connection
        # answers (some connections may reject it again, others already have the keyspace), finally every node accepts it
        ctx.label("retried-after-error")
        for nth, rs in enumerate(list(case.get("retry_scripts") or []) + [None]):
            if kind != "error":
                break
            sim.advance(0.5)
            S.drain_held(sim)
            for i, a in enumerate(addrs):
                script[a] = ["ok", "ok"] if rs is None else list(rs[i])
            stt["pre_conns"] = set(c.sim_id for c in net.conns if not c.is_closed and not c.is_defunct)
            stt["answered"] = set()
            rerank()
            del calls[:], cb_order[:], switches[:]
            kind, failures, delivered = attempt(False)
            ctx.label("retry%d:%s" % (nth + 1, kind) if rs is not None else "retry:" + kind)
    if kind != "ok":
        return

    # ---- oracle 3: after a reported success every connection used for a later request has the keyspace
    with ctx.driver(["C20.applied", "session.keyspace"]):
        ctx.check(session.keyspace == KS, ["C20.applied", "session.keyspace"],
                  "switch reported success but session.keyspace is %r" % (session.keyspace,))
    failed_hosts = set(a for a, _k in failures)
    pre_of = dict((addrs[i], hosts[i][0]) for i in range(n))

    def probe(tag):
        for i, a in enumerate(addrs):
            policy.order = [a] + [x for x in addrs if x != a]
            q = "SELECT k FROM probe_%s_%d" % (tag, i)
            marker = len(net.requests)
            with ctx.driver(["C20.probe", tag]):
                sim.call(session.execute_async, q)
            sim.settle()
            for (nd, c, r) in S.requests_since(net, marker, lambda nd, c, r: S.is_user_query(r, q)):
                ctx.label("probe:" + tag)
                if c.keyspace != KS or c.srv_keyspace != KS:
                    if nd.address in failed_hosts:
                        cause = "after-unreported-failure"
                    elif pre_of.get(nd.address) != "open":
                        cause = "pool-without-connection"
                    else:
                        cause = "other"
                    ctx.fail(["C20.applied", cause] + ([] if cause == "after-unreported-failure" else [pool_class]),
                             "after the switch reported success a request (%s) went out on %r whose keyspace is %r "
                             "(server side %r), situation of that host: %r" % (
                                 tag, c, c.keyspace, c.srv_keyspace, pre_of.get(nd.address)))
                    return False
        return True

    if probe("now"):
        ka = case.get("kill_after")
        if ka is not None:
            # a pooled connection dies after the switch: its replacement (or the re-created pool) must select the keyspace
            a = addrs[ka % n]
            conns = [c for c in S.pool_connections(session, a) if not c.is_closed]
            if conns:
                ctx.label("killed-after-switch")
                policy.order = [a]
                for _ in conns:
                    with ctx.driver(["C20.probe", "hold-query"]):
                        sim.call(session.execute_async, "SELECT hold FROM t_%s" % a.replace(".", "_"))
                    sim.settle()
                for c in conns:
                    net.server_close(c)
                sim.settle()
        sim.advance(8.0)
        S.drain_held(sim)
        probe("later")
    for name, e in sim.world.actor_errors:
        ctx.fail(["C20.thread-error", type(e).__name__], "virtual thread %s died with %r" % (name, e))
        break


def parts(tier):
    return [
        EnumPart("enum", enum_chunks(tier), enum_cases, interpret),
        hyp_part("blocking", lambda: s_case("blocking"), interpret, tier, quick=150, thorough=1500,
                 quick_shards=6, thorough_shards=12),
        hyp_part("locks", lambda: s_case("locks"), interpret, tier, quick=50, thorough=500,
                 quick_shards=2, thorough_shards=4),
    ]
