"""C31 -- client-side timestamps strictly increase across all threads.

The real ``MonotonicTimestampGenerator.__call__`` is run by *virtual threads*: OS threads that pass a
baton (exactly one runs at a time, the others are parked on private semaphores), with the generator's
``lock``, the module's ``time`` and ``log`` and the shared attribute ``last`` replaced by objects whose
operations are pre-emption points handing the baton back to a scheduler.  Which thread continues at each
point is dictated by the case (a tape of small ints), so every history is a pure function of the case.
"""
import itertools
import os
import threading
from fractions import Fraction

from hypothesis import strategies as st

from vlib.harness import EnumPart, HarnessError, hyp_part

PID = "C31"
TITLE = "Client-side timestamps strictly increase across all threads"
LEVEL = "exploration"
ENGINE = "models"
TECHNIQUE = ("systematic schedule enumeration (stateless model checking over baton-passing virtual threads) plus "
             "property-based testing (Hypothesis) with schedule tapes")
RULE = ("Part 'schedules' (exhaustive): for each thread configuration (calls per virtual thread) [1],[2],[1,1],[2,1],[1,1,1],[2,2] "
        "every clock-reading sequence (one reading per call) over the alphabet {0,1,2,3 us, 1 s + 1 us} -- for [1,1,1] and [2,2] over "
        "{0,1 us, 1 s + 1 us} in quick and the full alphabet in thorough; thorough also [2,1,1] (full alphabet), [1,1,1,1] "
        "({0,1,1 s + 1 us}) and [2,2,1] ({0,1 us}); x two generator configurations (default; warning threshold "
        "and interval 0 so that the warning path is always taken) x every interleaving at the pre-emption points {before "
        "lock acquire, before the clock read, before each read/write of the shared attribute `last`, inside log.warning, "
        "before and after lock release}, enumerated depth-first over the scheduler's choice tree with sleep-set partial-"
        "order reduction: one representative of every class of interleavings that differ in the order of two dependent "
        "steps (same shared object -- lock, clock, `last` -- or an invocation against a return) is executed.  Part 'next' "
        "(exhaustive): _next_timestamp(now,last) for now,last in 0..8 and around 2^53 / 2^63.  Part 'random': Hypothesis "
        "draws <=4 threads x <=4 calls, clock sequences by class (advancing, standing still, stepping/jumping backwards, "
        "realistic epoch values, values around 2^53 us, arbitrary floats) , a subset of the point kinds and a schedule "
        "tape.  Non-trivial: the clock stands still or goes backwards within the consumed readings and (for more than one "
        "thread) two calls of different threads overlap in time.")
ASSUMPTIONS = ["pre-emption is modelled at lock operations, clock reads, accesses to the shared attribute `last` (a "
               "property on a harness subclass of the generator) and the logging call; other bytecode boundaries are "
               "not pre-emption points",
               "the i-th call of time.time() (in schedule order) returns the i-th reading of the case; the clock reading "
               "of a call in microseconds is floor(reading * 10^6) computed in exact rational arithmetic",
               "the oracle does not mention the lock: distinctness, real-time order (A returned before B was invoked => "
               "v(A) < v(B)) and v >= clock reading of that call"]
LEVEL_TEXT = ("all interleavings (up to commutation of independent steps) at the stated pre-emption points for the listed "
              "thread configurations and reading alphabets were evaluated; larger histories are sampled")

# the quick tier is a few CPU-seconds; forking a pool costs more than it saves
SERIAL = os.environ.get("VERIF_TIER") == "quick"

JUMP = 1000001
ALPHABET = (0, 1, 2, 3, JUMP)          # microseconds
ALL_POINTS = ("acquire", "clock", "last", "log", "release", "released")
SCHEDULE_CAP = 60000                     # per (config, sequence): never reached on a correct tree


# ----------------------------------------------------------------------------
# virtual threads
# ----------------------------------------------------------------------------

class _Killed(BaseException):
    pass


try:
    import greenlet as _greenlet
except ImportError:          # stdlib fallback: baton-passing OS threads
    _greenlet = None
if os.environ.get("VERIF_C31_BACKEND") == "threads":
    _greenlet = None


class _Slot(object):
    """A reusable greenlet: starting a fresh greenlet is far more expensive than switching to a parked
    one, and an exploration runs hundreds of thousands of tiny histories."""

    def __init__(self, main):
        self.main = main
        self.job = None
        self.gl = _greenlet.greenlet(self._loop, parent=main)

    def _loop(self):
        while True:
            job, self.job = self.job, None
            job()
            self.main.switch()


_SLOTS = {"main": None, "free": []}


def _take_slots(main, n):
    if _SLOTS["main"] is not main:
        _SLOTS["main"], _SLOTS["free"] = main, []
    pool = [sl for sl in _SLOTS["free"] if not sl.gl.dead]
    while len(pool) < n:
        pool.append(_Slot(main))
    _SLOTS["free"] = pool
    return pool[:n]


class _VT(object):
    def __init__(self, idx):
        self.idx = idx
        self.done = False
        self.pending = "start"   # the operation this thread is parked in front of
        self.want = None         # the lock it is about to take (enabled only while that lock is free)
        self.calls_left = 0
        self.sem = None
        self.thread = None
        self.gl = None

    def enabled(self):
        return not self.done and (self.want is None or self.want.holder is None)


class _World(object):
    """Scheduler of virtual threads: exactly one runs at a time and only hands control back at a
    pre-emption point or when it finishes.  A thread parked in front of a lock acquisition is enabled
    only while the lock is free.  Backed by greenlets when available (no OS scheduling latency) and by
    baton-passing OS threads otherwise; both give the same histories.  run() executes in the caller."""

    def __init__(self, tape, points, max_steps=4000):
        self.tape = list(tape)
        self.pos = 0
        self.points = frozenset(points)
        self.vts = []
        self.current = None
        self.killed = False
        self.trace = []          # (choice, options) at every step with >= 2 enabled threads
        self.steps = 0
        self.max_steps = max_steps
        self.events = 0          # global event counter (invocations / returns)
        self.status = "ok"
        self.use_gl = _greenlet is not None
        if self.use_gl:
            self.main_gl = _greenlet.getcurrent()
        else:
            self.main = threading.Semaphore(0)

    def spawn(self, body, n_calls):
        vt = _VT(len(self.vts))
        vt.calls_left = n_calls

        def runner():
            if not self.use_gl:
                vt.sem.acquire()
            try:
                if not self.killed:
                    body(vt)
            except _Killed:
                pass
            finally:
                vt.done = True
                if not self.use_gl:
                    self.main.release()

        if self.use_gl:
            slot = _take_slots(self.main_gl, len(self.vts) + 1)[len(self.vts)]
            if slot.job is not None:
                raise HarnessError("virtual thread slot busy")
            slot.job = runner
            vt.gl = slot.gl
        else:
            vt.sem = threading.Semaphore(0)
            vt.thread = threading.Thread(target=runner, name="vt%d" % vt.idx)
            vt.thread.daemon = True
            vt.thread.start()
        self.vts.append(vt)
        return vt

    def tick(self):
        self.events += 1
        return self.events

    def inside(self, vt):
        if vt is None:
            return False
        if self.use_gl:
            return _greenlet.getcurrent() is vt.gl
        return threading.current_thread() is vt.thread

    # --- called from virtual threads
    def point(self, kind, want=None):
        vt = self.current
        if not self.inside(vt):
            return
        if self.killed:
            raise _Killed()
        if kind not in self.points and (want is None or want.holder is None):
            return
        vt.pending, vt.want = kind, want
        try:
            if self.use_gl:
                self.main_gl.switch()
            else:
                self.main.release()
                vt.sem.acquire()
        finally:
            vt.want = None
        if self.killed:
            raise _Killed()

    def _resume(self, vt):
        self.current = vt
        if self.use_gl:
            vt.gl.switch()
        else:
            vt.sem.release()
            self.main.acquire()

    # --- scheduler loop
    def run(self, chooser=None):
        while True:
            runnable = [t for t in self.vts if t.enabled()]
            if not runnable:
                break
            self.steps += 1
            if self.steps > self.max_steps:
                self.status = "step-budget"
                break
            cur = self.current
            if cur is not None and cur in runnable:
                runnable.remove(cur)
                runnable.insert(0, cur)
            if chooser is not None:
                nxt = chooser(runnable)
                if nxt is None:
                    self.status = "pruned"
                    break
                c = runnable.index(nxt)
            elif len(runnable) > 1 and self.pos < len(self.tape):
                c = self.tape[self.pos] % len(runnable)
                self.pos += 1
            else:
                c = 0
            if len(runnable) > 1:
                self.trace.append((c, len(runnable)))
            self._resume(runnable[c])
        stuck = [t for t in self.vts if not t.done]
        if stuck and self.status == "ok":
            self.status = "deadlock"
        # unwind whatever is still parked
        self.killed = True
        for t in stuck:
            self._resume(t)
            if not t.done:
                raise HarnessError("virtual thread did not unwind")
        if not self.use_gl:
            for t in self.vts:
                t.thread.join(5)
                if t.thread.is_alive():
                    raise HarnessError("virtual thread did not finish")
        self.current = None


class _VLock(object):
    def __init__(self, world):
        self.world = world
        self.holder = None

    def acquire(self, blocking=True, timeout=-1):
        w = self.world
        vt = w.current
        if not w.inside(vt):
            self.holder = "main"
            return True
        if not blocking and self.holder is not None:
            return False
        w.point("acquire", want=self)
        if self.holder is not None:
            raise HarnessError("virtual lock handed to two threads")
        self.holder = vt
        return True

    def release(self):
        self.world.point("release")
        self.holder = None
        self.world.point("released")

    def locked(self):
        return self.holder is not None

    def __enter__(self):
        self.acquire()
        return self

    def __exit__(self, *a):
        self.release()
        return False


class _VClock(object):
    """stands in for the `time` module inside cassandra.timestamps"""

    def __init__(self, world, readings, calls_of):
        self.world, self.readings, self.calls_of = world, readings, calls_of
        self.n = 0

    def time(self):
        self.world.point("clock")
        r = self.readings[min(self.n, len(self.readings) - 1)]
        self.n += 1
        vt = self.world.current
        cur = self.calls_of.get(vt.idx if vt is not None else None)
        if cur is not None:
            cur["readings"].append(r)
        return r


class _VLog(object):
    def __init__(self, world):
        self.world = world
        self.warnings = 0

    def warning(self, *a, **kw):
        self.warnings += 1
        self.world.point("log")

    debug = info = error = exception = critical = warn = warning

    def isEnabledFor(self, *_):
        return True


_CUR = [None]        # the world of the history being run (one at a time per process)
_PROBE = {}


def _probe_class():
    """MonotonicTimestampGenerator with the shared attribute `last` turned into a pre-emption point.
    Built once per process (per imported tree)."""
    import cassandra.timestamps as T
    base = T.MonotonicTimestampGenerator
    cls = _PROBE.get(base)
    if cls is None:
        class Probe(base):
            def _get(self):
                w = _CUR[0]
                if w is not None:
                    w.point("last")
                return self.__dict__["_c31_last"]

            def _set(self, v):
                w = _CUR[0]
                if w is not None:
                    w.point("last")
                self.__dict__["_c31_last"] = v

            last = property(_get, _set)

        _PROBE.clear()
        _PROBE[base] = cls = Probe
    return cls


def us_floor(reading):
    """exact whole microseconds of a clock reading given in (float) seconds"""
    fr = Fraction(reading) * 1000000
    return fr.numerator // fr.denominator


def run_history(case, chooser=None):
    """Runs one history.  Returns dict(calls, trace, status, errors, warnings, reads)."""
    import cassandra.timestamps as T
    cfg = case.get("cfg") or {}
    world = _World(case.get("schedule") or [], case.get("points") or ALL_POINTS)
    Probe = _probe_class()
    gen = Probe(warn_on_drift=cfg.get("warn", True), warning_threshold=cfg.get("threshold", 1),
                warning_interval=cfg.get("interval", 1))
    gen.lock = _VLock(world)
    calls = []
    current_call = {}
    clock = _VClock(world, case["clock"], current_call)
    vlog = _VLog(world)
    errors = []

    def make_body(n_calls):
        def body(vt):
            for k in range(n_calls):
                vt.calls_left = n_calls - k - 1
                rec = {"thread": vt.idx, "k": k, "inv": world.tick(), "ret": None, "value": None, "readings": []}
                calls.append(rec)
                current_call[vt.idx] = rec
                try:
                    v = gen()
                except HarnessError:
                    raise
                except Exception as e:  # noqa
                    errors.append((vt.idx, k, e))
                    return
                finally:
                    current_call[vt.idx] = None
                rec["value"] = v
                rec["ret"] = world.tick()
        return body

    saved = (T.time, T.log)
    T.time, T.log = clock, vlog
    _CUR[0] = world
    try:
        for n in case["threads"]:
            world.spawn(make_body(n), n)
        world.run(chooser)
    finally:
        _CUR[0] = None
        T.time, T.log = saved
    return {"calls": calls, "trace": world.trace, "status": world.status, "errors": errors,
            "warnings": vlog.warnings, "reads": clock.n}


# ----------------------------------------------------------------------------
# systematic exploration: depth-first over the scheduler's choices with sleep sets
# ----------------------------------------------------------------------------

_SHARED = frozenset(["lock", "clock", "last"])


def _footprint(vt):
    """Shared objects the next segment of a parked thread touches.  With every point kind enabled each
    shared operation is preceded by its own pre-emption point, so the segment that starts at a point
    performs exactly that operation (plus, after a release, the return of the call and the invocation
    of the thread's next call)."""
    k = vt.pending
    if k == "start":
        return frozenset(["inv"])
    if k in ("acquire", "release"):
        return frozenset(["lock"])
    if k == "clock":
        return frozenset(["clock"])
    if k in ("last", "log"):          # the logging segment also writes _last_warn: keep it ordered with `last`
        return frozenset(["last"])
    if k == "released":
        return frozenset(["ret", "inv"]) if vt.calls_left > 0 else frozenset(["ret"])
    raise HarnessError("unknown pending operation %r" % (k,))


def _dependent(a, b):
    if a & b & _SHARED:
        return True
    return ("inv" in a and "ret" in b) or ("ret" in a and "inv" in b)


def explore(base, cap):
    """Yields (case, history) for one representative of every class of interleavings that differ in
    the order of two dependent steps (sleep-set partial-order reduction, Godefroid 1996).  Two steps are
    dependent when they touch the same shared object (the lock, the clock, `last`) or are an
    invocation and a return (the real-time order the oracle looks at)."""
    stack = []     # frames: enabled [idx], fp {idx: footprint}, sleep set(idx), done [idx], cur idx
    runs = 0
    while True:
        depth = [0]

        def chooser(runnable):
            d = depth[0]
            depth[0] += 1
            if d < len(stack):
                fr = stack[d]
            else:
                fp = dict((t.idx, _footprint(t)) for t in runnable)
                if d == 0:
                    sleep = set()
                else:
                    par = stack[d - 1]
                    tfp = par["fp"][par["cur"]]
                    sleep = set(u for u in (par["sleep"] | set(par["done"]))
                                if u != par["cur"] and u in fp and not _dependent(par["fp"][u], tfp))
                cands = [t.idx for t in runnable if t.idx not in sleep]
                if not cands:
                    return None
                fr = {"enabled": [t.idx for t in runnable], "fp": fp, "sleep": sleep, "done": [], "cur": cands[0]}
                stack.append(fr)
            for t in runnable:
                if t.idx == fr["cur"]:
                    return t
            raise HarnessError("exploration lost determinism")

        case = dict(base)
        h = run_history(case, chooser)
        runs += 1
        if h["status"] != "pruned":
            case["schedule"] = [c for c, _ in h["trace"]]
            h["cap_hit"] = runs >= cap
            yield case, h
        if runs >= cap:
            return
        while stack:
            fr = stack[-1]
            fr["done"].append(fr["cur"])
            cands = [u for u in fr["enabled"] if u not in fr["sleep"] and u not in fr["done"]]
            if cands:
                fr["cur"] = cands[0]
                break
            stack.pop()
        if not stack:
            return


# ----------------------------------------------------------------------------
# oracle
# ----------------------------------------------------------------------------

_MEMO = {"case": None, "hist": None}


def interpret_history(case, ctx):
    # run_history is a pure function of the case; the enumeration has just executed this very case
    # object to discover it, so its history is reused instead of being computed a second time
    if _MEMO["case"] is case:
        h = _MEMO["hist"]
    else:
        h = run_history(case)
    _MEMO["case"] = _MEMO["hist"] = None
    nthreads = len(case["threads"])
    tfeat = "threads=1" if nthreads == 1 else "threads>1"
    for (ti, k, e) in h["errors"]:
        ctx.fail(["C31.call", "raises", type(e).__name__], "call %d of thread %d raised %r" % (k, ti, e))
    if h["status"] == "deadlock":
        ctx.fail(["C31.deadlock"], "threads blocked forever on the generator's lock")
    elif h["status"] != "ok":
        ctx.fail(["C31.livelock"], "history did not finish within the step budget")
    calls = [c for c in h["calls"] if c["ret"] is not None]
    for c in calls:
        v = c["value"]
        if not isinstance(v, int) or isinstance(v, bool):
            ctx.fail(["C31.type"], "returned %r" % (v,))
            return
    # (i) pairwise distinct
    seen = {}
    for c in calls:
        if c["value"] in seen:
            o = seen[c["value"]]
            ctx.fail(["C31.distinct", tfeat], "value %d returned twice: thread %d call %d and thread %d call %d" % (
                c["value"], o["thread"], o["k"], c["thread"], c["k"]))
            break
        seen[c["value"]] = c
    # (ii) real-time order
    overlap = False
    done = False
    for a in calls:
        for b in calls:
            if a is b:
                continue
            if a["ret"] < b["inv"]:
                if not a["value"] < b["value"] and not done:
                    feat = "same-thread" if a["thread"] == b["thread"] else "cross-thread"
                    ctx.fail(["C31.order", feat], "call returning %d finished before the call returning %d was invoked" % (
                        a["value"], b["value"]))
                    done = True
            elif b["ret"] >= a["inv"] and a["thread"] != b["thread"]:
                overlap = True
    # (iii) never behind the clock reading taken for that call
    for c in calls:
        if not c["readings"]:
            ctx.fail(["C31.clock", "no-reading"], "call returned %d without reading the clock" % c["value"])
            break
        behind = [r for r in c["readings"] if c["value"] < us_floor(r)]
        if behind:
            ctx.fail(["C31.clock", "behind"], "returned %d, clock reading of that call was %r (= %d us)" % (
                c["value"], behind[0], us_floor(behind[0])))
            break
    used = [us_floor(r) for r in case["clock"][:max(1, h["reads"])]]
    still = any(b == a for a, b in zip(used, used[1:]))
    back = any(b < a for a, b in zip(used, used[1:]))
    ctx.label("threads=%d" % nthreads)
    if still:
        ctx.label("clock:still")
    if back:
        ctx.label("clock:backwards")
    if overlap:
        ctx.label("overlap")
    if h["warnings"]:
        ctx.label("warned")
    if h.get("cap_hit"):
        ctx.label("cap-hit")
    if len(h["trace"]) >= 1:
        ctx.label("choice-points>=1")
    ctx.nontrivial((still or back) and (nthreads == 1 or overlap))


# ----------------------------------------------------------------------------
# part (a): exhaustive schedules
# ----------------------------------------------------------------------------

_CFGS = [{"warn": True, "threshold": 1, "interval": 1}, {"warn": True, "threshold": 0, "interval": 0}]
SMALL = (0, 1)
MID = (0, 1, JUMP)
# (calls per thread, reading alphabet, number of leading readings fixed per chunk)
_COMMON = [([1], ALPHABET, 0), ([2], ALPHABET, 0), ([1, 1], ALPHABET, 0), ([2, 1], ALPHABET, 1)]
_QUICK_CONFIGS = _COMMON + [([1, 1, 1], MID, 1), ([2, 2], MID, 1)]
_THOROUGH_CONFIGS = _COMMON + [([1, 1, 1], ALPHABET, 1), ([2, 2], ALPHABET, 1), ([2, 1, 1], ALPHABET, 2), ([1, 1, 1, 1], SMALL, 2), ([2, 2, 1], SMALL, 3)]
# executions (complete + sleep-set-blocked) the exploration needs per reading sequence on a tree whose
# lock works, measured; the budget per sequence is 4x that, so that a tree with a broken lock (whose
# choice tree is astronomically larger) still terminates.  Reaching the budget is labelled "cap-hit".
_CALIBRATED = {"1": 1, "2": 1, "1,1": 23, "2,1": 65, "1,1,1": 394, "2,2": 181, "2,1,1": 1751, "1,1,1,1": 11208,
               "2,2,1": 8756, "2,2,2": 48600}


def _sched_chunks(tier):
    out = []
    configs = _QUICK_CONFIGS if tier == "quick" else _THOROUGH_CONFIGS
    for threads, alphabet, fixed in configs:
        for cfg in _CFGS:
            for prefix in itertools.product(alphabet, repeat=fixed):
                out.append({"threads": threads, "cfg": cfg, "alphabet": list(alphabet), "prefix": list(prefix)})
    # biggest first, so that the pool is evenly loaded
    out.sort(key=lambda c: -_CALIBRATED[",".join(map(str, c["threads"]))] * len(c["alphabet"]) ** (sum(c["threads"]) - len(c["prefix"])))
    return out


def _sched_cases(chunk):
    threads, cfg = chunk["threads"], chunk["cfg"]
    n = sum(threads)
    cap = 4 * _CALIBRATED[",".join(map(str, threads))] + 16
    for rest in itertools.product(chunk["alphabet"], repeat=n - len(chunk["prefix"])):
        clock = [u / 1e6 for u in tuple(chunk["prefix"]) + rest]
        base = {"threads": threads, "cfg": cfg, "clock": clock, "schedule": []}
        for case, h in explore(base, cap):
            _MEMO["case"], _MEMO["hist"] = case, h
            yield case


# ----------------------------------------------------------------------------
# part: _next_timestamp exhaustively
# ----------------------------------------------------------------------------

_NEXT_VALUES = list(range(0, 9)) + [2 ** 53 - 2, 2 ** 53 - 1, 2 ** 53, 2 ** 53 + 1, 2 ** 63 - 2, 2 ** 63 - 1]


def _next_cases(_chunk):
    for now in _NEXT_VALUES:
        for last in _NEXT_VALUES:
            for cfg in (0, 1):
                yield {"now": now, "last": last, "cfg": cfg}


def interpret_next(case, ctx):
    import cassandra.timestamps as T
    now, last = case["now"], case["last"]
    cfg = _CFGS[case["cfg"]]
    saved = T.log
    T.log = _VLog(_World([], ()))
    try:
        with ctx.driver(["C31.next"]):
            gen = T.MonotonicTimestampGenerator(warn_on_drift=cfg["warn"], warning_threshold=cfg["threshold"],
                                                warning_interval=cfg["interval"])
            gen.last = last
            got = gen._next_timestamp(now=now, last=last)
            state = gen.last
    finally:
        T.log = saved
    if ctx._failures:
        return
    want = max(now, last + 1)
    rel = "now>last" if now > last else ("now==last" if now == last else "now<last")
    ctx.check(got == want, ["C31.next.value", rel], "_next_timestamp(now=%d, last=%d) = %r, expected %d" % (now, last, got, want))
    ctx.check(state == want, ["C31.next.state", rel], "after _next_timestamp(now=%d, last=%d) last = %r, expected %d" % (
        now, last, state, want))
    ctx.label("next", rel)
    ctx.nontrivial(True)


# ----------------------------------------------------------------------------
# part (b): random histories
# ----------------------------------------------------------------------------

def _clock_seq(n):
    small = st.integers(0, 6)
    epoch = 1790000000 * 10 ** 6
    edge = 2 ** 53

    def steps(base, deltas):
        out, cur = [], base
        for d in deltas:
            cur = max(0, cur + d)
            out.append(cur / 1e6)
        return out

    delta = st.sampled_from([0, 0, 1, 1, 2, -1, -2, -1000000, -1000001, 1000000, 3, 250])
    by_steps = st.builds(steps, st.sampled_from([0, 5, 1000000, epoch, edge - 3, edge // 2]),
                         st.lists(delta, min_size=n, max_size=n))
    flat = st.builds(lambda b, k: [b / 1e6] * k, st.sampled_from([0, 1, 7, epoch, edge - 1]), st.just(n))
    tiny = st.lists(small.map(lambda u: u / 1e6), min_size=n, max_size=n)
    raw = st.lists(st.floats(min_value=0, max_value=9.1e9, allow_nan=False, allow_infinity=False), min_size=n, max_size=n)
    return st.one_of(by_steps, flat, tiny, raw)


def s_random():
    @st.composite
    def build(draw):
        threads = draw(st.lists(st.integers(1, 4), min_size=1, max_size=4))
        n = sum(threads)
        clock = draw(_clock_seq(n))
        cfg = draw(st.sampled_from(_CFGS + [{"warn": False, "threshold": 1, "interval": 1}]))
        points = draw(st.sampled_from([list(ALL_POINTS), ["acquire", "clock", "release"], ["last", "log"]]))
        schedule = draw(st.lists(st.integers(0, 3), max_size=60))
        return {"threads": threads, "cfg": cfg, "clock": clock, "points": points, "schedule": schedule}
    return build()


def parts(tier):
    return [
        EnumPart("schedules", _sched_chunks(tier), _sched_cases, interpret_history),
        EnumPart("next", [{}], _next_cases, interpret_next),
        hyp_part("random", s_random, interpret_history, tier, quick=400, thorough=3000, quick_shards=2),
    ]
