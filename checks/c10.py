"""C10 -- a failed connection fails every pending request exactly once."""
import struct

from hypothesis import strategies as st

from checks import _simpool as SP
from checks import _simutil as U
from sim import wire
from vlib.harness import hyp_part

PID = "C10"
TITLE = "A failed connection fails every pending request exactly once"
LEVEL = "exploration"
ENGINE = "sim"
TECHNIQUE = ("model-based generation of event histories with injected connection failures (Hypothesis) over the real "
             "Cluster/Session/pool/Connection on a deterministic simulated network; every invocation of every handler "
             "registered with Connection.send_msg is logged and compared with the set registered at the moment the "
             "connection was closed")
RULE = ("A case is a history over one fake node reached through the real Session (v1-v5, DSE_V1 for the paging part): "
        "send tagged requests (client timeout 0.3/1/5/none), answer some, let some time out, then fail the connection "
        "at a generated point by: socket reset, peer close, an undecodable RESULT body, a server ProtocolException, a "
        "negative body length, a ProtocolException carrying the 'unsupported protocol version' text servers use for "
        "frames of a version they do not speak, an orderly EOF (the reactor calls close(), not defunct()), the same "
        "decode/protocol failures followed in the same read by a valid response for another pending "
        "stream, an idle-heartbeat that is never answered, an explicit close(), Session/pool shutdown; the 'bulk' part "
        "has 99-103 requests pending at the failure (CALLBACK_ERR_THREAD_THRESHOLD: the helper thread runs as a "
        "virtual thread); the 'paging' part has DSE continuous-paging sessions open on the connection; afterwards "
        "every request still held by the server is answered (late bytes) and a send is attempted on the dead "
        "connection.  Non-trivial: at least 2 handlers were registered at the failure point, or a paging session was "
        "open, or a response was sent by the server after the failure.  Part 'raising' (no simulator): 1-9 or 98-103 raw "
        "handlers registered on a socket-less Connection, 1-4 of them raise ValueError/KeyError/RuntimeError/"
        "AttributeError when failed, the connection is failed by error_all_requests / defunct / close; every handler "
        "must still be invoked exactly once with a ConnectionShutdown (non-trivial: >= 3 handlers and a raiser that is "
        "not the one run first).  Distinct by case digest.")
ASSUMPTIONS = ["network, clock, executor and event loop are simulated (sim/); Cluster, Session, pools, connections, "
               "ResponseFuture, heartbeat, policies are the real classes",
               "close() is the simulated reactor's close(), a copy of what all six real reactors do (set is_closed under "
               "the lock; if not defunct: error_all_cp_sessions + error_all_requests(ConnectionShutdown), connected_event.set() "
               "-- a mutation of close() in cassandra/io/*reactor.py is therefore not visible to this check); like them it "
               "stops reading once closed, so bytes that arrive after the failure are never parsed -- late delivery is "
               "exercised by bytes that follow the failing frame in the same read",
               "send_msg/close/new_continuous_paging_session of the connection class are wrapped for observation only",
               "pre-emption only at blocking operations / additionally at every lock operation and clock read ('locks')"]

DSE_V1 = 0x41
CP_PREFIX = SP.PREFIX


def cp_page(version, tag, seq, last, rows=2):
    cols = U.ROW_COLS
    flags = 0x0001 | 0x40000000 | (0x80000000 if last else 0)
    out = struct.pack(">i", 2) + struct.pack(">I", flags) + struct.pack(">i", len(cols)) + struct.pack(">i", seq)
    out += wire._string("ks") + wire._string("t")
    for name, t in cols:
        out += wire._string(name) + wire.type_option(t)
    out += struct.pack(">i", rows)
    for r in range(rows):
        out += wire._bytes(wire.enc_value("int", tag)) + wire._bytes(wire.enc_value("text", "p%d.%d" % (seq, r)))
    return out


class C10Machine(SP.Machine):
    def __init__(self, *a):
        SP.Machine.__init__(self, *a)
        self.cp_open = []       # [dict(node, conn, req, seq, tag)]
        self.consumers = []     # [dict(tag, actor, rows, box)]
        self.probed = set()
        self.probe_results = []

    def apply(self, ev):
        k = ev[0]
        if k == "page":
            self.page(ev[1], ev[2])
        elif k == "consume":
            self.consume(ev[1])
        elif k == "pool_shutdown":
            p = self.current_pool()
            if p is not None:
                self.sim.spawn(p.shutdown)
        else:
            SP.Machine.apply(self, ev)

    def page(self, i, last):
        """send the next page of the i-th continuous-paging stream (first page for a held request)"""
        cands = [("held", h) for h in self.held()] + [("open", o) for o in self.cp_open]
        if not cands:
            return
        kind, x = cands[i % len(cands)]
        if kind == "held":
            node, conn, req = x
            s = self._sreq_by_id.get(id(req))
            for j, (c, r) in enumerate(node.held):
                if r is req:
                    del node.held[j]
                    break
            if s is not None:
                s.answered = "page"
            o = dict(node=node, conn=conn, req=req, seq=0, tag=s.tag if s else -1)
            self.cp_open.append(o)
        else:
            o = x
        o["seq"] += 1
        o["node"].reply(o["conn"], o["req"], "RESULT", cp_page(o["req"]["version"], o["tag"], o["seq"], bool(last)))
        if last:
            self.cp_open.remove(o)

    def drain_answers(self, limit=400):
        if not self.case.get("paging"):
            return SP.Machine.drain_answers(self, limit)
        # a continuous-paging request is answered by pages; finish every stream with a last page
        for _ in range(limit):
            self.sim.settle()
            self.scan()
            if not self.held() and not self.cp_open:
                break
            self.page(0, 1)
        self.sim.settle()
        self.scan()

    def answer_req(self, node, conn, req, kind):
        if self.case.get("paging") and kind in ("rows", "void"):
            raise ValueError("plain rows are not a sound answer to a continuous-paging request")
        return SP.Machine.answer_req(self, node, conn, req, kind)

    def consume(self, i):
        futs = [f for f in self.futs.values() if f.pair.cb and not any(c["tag"] == f.tag for c in self.consumers)]
        if not futs:
            return
        f = futs[i % len(futs)]
        rec = dict(tag=f.tag, rows=[], box={})

        def run():
            try:
                for row in f.pair.cb[0]:
                    rec["rows"].append(getattr(row, "k", None))
                rec["box"]["done"] = True
            except Exception as e:  # noqa
                rec["box"]["exc"] = e
        rec["actor"] = self.sim.spawn(run)
        self.consumers.append(rec)


class C10Observer(SP.Observer):
    def __init__(self, ctx):
        self.ctx = ctx
        self.max_pending = 0
        self.cp_at_failure = 0
        self.causes = set()
        self.thread_path = False
        self.checked_injected = set()

    @staticmethod
    def cause(snap):
        if snap["defunct"]:
            return "defunct"
        return "close"

    def after_event(self, m, where):
        from cassandra.connection import ConnectionException
        ctx = self.ctx
        for rec in m.recs:
            if len(rec.calls) > 1:
                ctx.fail(["C10.handler.twice", _kinds(rec)],
                         "%s: the handler of %s (connection #%d stream %s) was invoked %d times: %s" % (
                             where, _what(rec), rec.conn.sim_id, rec.stream, len(rec.calls), _kinds(rec)))
                return
        for snap in m.closes:
            c = snap["conn"]
            cause = self.cause(snap)
            if not snap.get("counted"):
                snap["counted"] = True
                self.max_pending = max(self.max_pending, len(snap["pending"]))
                self.cp_at_failure += len(snap["cp"])
                self.causes.add(snap["by"] if not snap["defunct"] else "defunct:" + type(c.last_error).__name__)
                if len(snap["pending"]) > 100:
                    self.thread_path = True
            for rec in snap["pending"]:
                if not rec.calls:
                    ctx.fail(["C10.pending.never-failed", cause],
                             "%s: connection #%d was closed (%s, last_error=%r) while the handler of %s (stream %s) was "
                             "registered, and that handler has not been invoked" % (
                                 where, c.sim_id, snap["by"], c.last_error, _what(rec), rec.stream))
                    return
                resp = rec.calls[0][1]
                if not isinstance(resp, ConnectionException):
                    ctx.fail(["C10.pending.not-a-connection-error", cause, type(resp).__name__],
                             "%s: connection #%d was closed (%s) and the handler of %s (stream %s) was invoked with %s "
                             "instead of a connection error" % (where, c.sim_id, snap["by"], _what(rec), rec.stream,
                                                                SP.describe_response(resp)))
                    return
            for (sid, sess) in snap["cp"]:
                log = [l for (cc, s_id, s_obj, l) in m.cp_sessions if s_obj is sess][0]
                if len(log) != 1:
                    ctx.fail(["C10.paging-session." + ("never-failed" if not log else "failed-twice"), cause],
                             "%s: connection #%d was closed (%s) while continuous paging session on stream %s was open; "
                             "its on_error was invoked %d times" % (where, c.sim_id, snap["by"], sid, len(log)))
                    return
        # --- every injected failure does fail the connection
        for i, (c, kind) in enumerate(m.injected):
            if i in self.checked_injected:
                continue
            self.checked_injected.add(i)
            if not (c.is_closed or c.is_defunct):
                ctx.fail(["C10.failure.connection-still-usable", kind.split("+")[0]],
                         "%s: after '%s' on connection #%d the connection is neither defunct nor closed (%d handlers "
                         "still registered)" % (where, kind, c.sim_id, len(c._requests)))
                return
        # --- a dead connection refuses further sends
        for c in list(m.net.conns):
            if (c.is_closed or c.is_defunct) and c.sim_id not in m.probed and getattr(c, "close_snapshot", None):
                m.probed.add(c.sim_id)
                self.probe(m, c, where)

    def probe(self, m, c, where):
        from cassandra.connection import ConnectionShutdown
        from cassandra.protocol import OptionsMessage
        got = []
        try:
            c.send_msg(OptionsMessage(), 0, got.append)
        except ConnectionShutdown:
            return
        except Exception as e:  # noqa
            self.ctx.fail(["C10.send-after-failure", "raises", type(e).__name__],
                          "%s: send_msg on the dead connection #%d raised %r instead of ConnectionShutdown" % (
                              where, c.sim_id, e))
            return
        self.ctx.fail(["C10.send-after-failure", "accepted", "defunct" if c.is_defunct else "closed"],
                      "%s: send_msg on the dead connection #%d (%s) was accepted" % (
                          where, c.sim_id, "defunct" if c.is_defunct else "closed"))

    def final_shutdown(self, m):
        self.after_event(m, "after shutdown")
        if self.ctx._failures:
            return
        for rec in m.consumers:
            f = m.futs[rec["tag"]]
            sreq = next((s for s in m.sreqs if s.tag == rec["tag"]), None)
            snap = getattr(sreq.conn, "close_snapshot", None) if sreq is not None else None
            if snap is None:
                continue
            if not rec["actor"].done and any(s is not None for s in snap["cp"]):
                self.ctx.fail(["C10.paging-session.consumer-blocked", self.cause(snap)],
                              "the consumer of the paged result of tag=%s is still waiting although its connection #%d was "
                              "closed (%s)" % (rec["tag"], sreq.conn.sim_id, snap["by"]))


def _what(rec):
    return "request tag=%s" % rec.tag if rec.tag is not None else rec.op


def _kinds(rec):
    return "+".join(type(r).__name__ for (_t, r) in rec.calls)


def interpret(case, ctx):
    sim = U.Sim(tape=case["tape"], granularity=case["gran"])
    try:
        with sim:
            _run(case, ctx, sim)
    except U.StepBudgetExceeded:
        ctx.stats.inconclusive += 1
        ctx.label("inconclusive:step-budget")


def _run(case, ctx, sim):
    m = C10Machine(case, ctx, sim, PID)
    obs = C10Observer(ctx)
    m.observers.append(obs)
    kw, pk = {}, {}
    if case.get("paging"):
        from cassandra.cluster import ContinuousPagingOptions
        pk["continuous_paging_options"] = ContinuousPagingOptions(max_pages=0, max_queue_size=4)
    with ctx.driver(["C10.setup"]):
        m.build(cluster_kwargs=kw, profile_kwargs=pk)
    if ctx._failures:
        return
    ok = m.run(case["events"])
    if ok:
        with ctx.driver(["C10.shutdown"], expect=(U.Deadlock,)):
            try:
                m.finish()
            except U.Deadlock:
                ctx.label("note:shutdown-deadlock")
    m.thread_errors("C10")
    m.common_labels()
    late_bytes = sum(c.bytes_after_close for c in m.net.conns) > 0 or any(
        s.answered == "rows-after-failure" for s in m.sreqs)
    ctx.label("pending-at-failure=%s" % ("0" if obs.max_pending == 0 else "1" if obs.max_pending == 1 else
                                        "2-9" if obs.max_pending < 10 else "10-99" if obs.max_pending < 100 else
                                        str(obs.max_pending) if obs.max_pending < 104 else ">=104"))
    for cz in sorted(obs.causes):
        ctx.label("cause:" + cz)
    if obs.thread_path:
        ctx.label("has:helper-thread-path")
    if obs.cp_at_failure:
        ctx.label("has:paging-session-at-failure")
    if m.cp_sessions:
        ctx.label("has:paging-session")
    if m.consumers:
        ctx.label("has:paging-consumer")
    if late_bytes:
        ctx.label("has:bytes-after-failure")
    if any(s.answered == "rows-after-failure" for s in m.sreqs):
        ctx.label("has:response-behind-failing-frame")
    ctx.nontrivial(obs.max_pending >= 2 or obs.cp_at_failure > 0 or late_bytes)


# ------------------------------------------------------------------ strategies
def s_general(gran, pvs, **kw):
    # orphan-threshold replacement is C13's business; with it disabled an explicit close() cannot make borrowers
    # busy-wait on a closed connection (see _simpool.s_history)
    kw.setdefault("thrs", (100,))
    return SP.s_case(st, "c10", gran, pvs, max_events=24, **kw)


def s_bulk():
    fail = st.one_of(
        st.tuples(st.just("answer"), st.integers(0, 110), st.sampled_from(SP.FAIL_ANSWERS)),
        st.tuples(st.just("kill"), st.just(0), st.sampled_from(["close", "reset", "eof", "explicit"])),
        st.tuples(st.just("session_shutdown")),
    )
    pre = st.one_of(
        st.tuples(st.just("answer"), st.integers(0, 110), st.sampled_from(["rows", "void", "overloaded"])),
        st.tuples(st.just("send"), st.just(3)),
    )
    ev = st.tuples(st.sampled_from([98, 99, 100, 101, 102, 103]), st.lists(pre, max_size=3), fail).map(
        lambda t: [["burst", t[0], 3]] + [list(e) for e in t[1]] + [list(t[2])])
    return SP.s_case(st, "c10", "blocking", [3, 4, 4, 5], mifs=(32768,), thrs=(24576,),
                     extra={"events": ev, "decisions": st.just([])})


def s_heartbeat():
    pre = st.lists(st.one_of(
        st.tuples(st.just("send"), st.sampled_from([3, 3, 2])),
        st.tuples(st.just("answer"), st.integers(0, 5), st.sampled_from(["rows", "void", "unavailable"])),
    ), min_size=1, max_size=8)
    post = st.lists(st.one_of(
        st.tuples(st.just("send"), st.sampled_from([3, 0])),
        st.tuples(st.just("answer"), st.integers(0, 5), st.sampled_from(["rows", "void"])),
        st.tuples(st.just("advance"), st.sampled_from([0.35, 6.0, 31.0])),
    ), max_size=5)
    ev = st.tuples(pre, st.sampled_from([31.0, 29.0, 61.0]), post).map(
        lambda t: [list(e) for e in t[0]] + [["hb_drop", 1], ["advance", t[1]], ["advance", 31.0], ["advance", 6.0]] +
        [list(e) for e in t[2]])
    return SP.s_case(st, "c10", "blocking", [2, 3, 4, 4, 5], mifs=(4, 5, 8), thrs=(2, 100),
                     extra={"events": ev, "hb": st.just(30)})


def s_paging(gran="blocking"):
    mid = st.one_of(
        st.tuples(st.just("send"), st.sampled_from([3, 3, 2, 0])),
        st.tuples(st.just("page"), st.integers(0, 5), st.sampled_from([0, 0, 0, 1])),
        st.tuples(st.just("page"), st.integers(0, 5), st.sampled_from([0, 0, 0, 1])),
        st.tuples(st.just("consume"), st.integers(0, 3)),
        st.tuples(st.just("advance"), st.sampled_from([0.35, 1.1, 6.0])),
    )
    fail = st.one_of(
        st.tuples(st.just("answer"), st.integers(0, 5), st.sampled_from(SP.FAIL_ANSWERS)),
        st.tuples(st.just("answer"), st.integers(0, 5), st.sampled_from(SP.FAIL_ANSWERS)),
        st.tuples(st.just("kill"), st.integers(0, 1), st.sampled_from(["close", "reset", "eof", "explicit"])),
        st.tuples(st.just("kill"), st.integers(0, 1), st.sampled_from(["close", "reset", "eof", "explicit"])),
        st.tuples(st.just("pool_shutdown")),
        st.tuples(st.just("session_shutdown")),
    )
    ev = st.tuples(st.integers(1, 4), st.lists(mid, min_size=1, max_size=10), fail, st.lists(mid, max_size=4)).map(
        lambda t: [["send", 3]] * t[0] + [list(e) for e in t[1]] + [list(t[2])] + [list(e) for e in t[3]])
    return SP.s_case(st, "c10", gran, [DSE_V1], mifs=(4, 5, 8), thrs=(100,),
                     extra={"events": ev, "paging": st.just(True), "versions": st.just([3, 4, DSE_V1]),
                            "decisions": st.just([])})


# ------------------------------------------------------------------ part 'handlers-that-raise' (no simulator)
# A handler registered with send_msg is application-reachable code (ResponseFuture callbacks run inside it); one of
# them raising while the connection is being failed must not leave the others unfailed (error_all_requests guards
# every single invocation).  Direct: a socket-less Connection, N handlers in _requests, a generated subset raises.
EXC_KINDS = {"value": ValueError, "key": KeyError, "runtime": RuntimeError, "attr": AttributeError}


def s_raising():
    n = st.one_of(st.integers(1, 9), st.sampled_from([98, 99, 100, 101, 102, 103]))
    return n.flatmap(lambda k: st.fixed_dictionaries({
        "kind": st.just("raising"), "n": st.just(k), "version": st.sampled_from([1, 2, 3, 4, 5]),
        "raisers": st.lists(st.tuples(st.integers(0, k - 1), st.sampled_from(sorted(EXC_KINDS))), min_size=1,
                            max_size=4, unique_by=lambda t: t[0]).map(lambda l: [list(t) for t in l]),
        "via": st.sampled_from(["error_all_requests", "defunct", "close"]),
        "order": st.sampled_from(["asc", "desc"])}))


def interpret_raising(case, ctx):
    import cassandra.connection as cc
    from checks import _conn as C
    conn = C.make_conn(case["version"])
    n, raisers = case["n"], {i: EXC_KINDS[k] for i, k in case["raisers"]}
    calls = {i: [] for i in range(n)}

    def handler(i):
        def cb(response):
            calls[i].append(response)
            if i in raisers:
                raise raisers[i]("handler %d" % i)
        return cb
    idx = list(range(n)) if case["order"] == "asc" else list(range(n - 1, -1, -1))
    with conn.lock:
        for i in idx:
            conn._requests[i] = (handler(i), None, None)
    threads = []
    real_thread = cc.Thread

    class RecThread(real_thread):
        def __init__(self, *a, **kw):
            real_thread.__init__(self, *a, **kw)
            threads.append(self)
    cc.Thread = RecThread
    try:
        with ctx.driver(["C10.raising", case["via"]]):
            exc = cc.ConnectionException("injected failure")
            if case["via"] == "error_all_requests":
                conn.error_all_requests(exc)
            elif case["via"] == "defunct":
                conn.defunct(exc)
            else:
                conn.close()                # FeedConnection.close: the reactors' contract (error_all_requests when not defunct)
        for t in threads:
            t.join(20)
    finally:
        cc.Thread = real_thread
    pos = {i: ("first" if i == idx[-1] else "mid") for i in raisers}
    for i in range(n):
        got = calls[i]
        if len(got) != 1:
            ctx.fail(["C10.raising", "never" if not got else "twice", case["via"]],
                     "%d handlers pending, handlers %s raise when failed: handler %d was invoked %d times on %s "
                     "(expected exactly once)" % (n, sorted(raisers), i, len(got), case["via"]))
            break
        if not isinstance(got[0], cc.ConnectionShutdown):
            ctx.fail(["C10.raising", "wrong-argument", type(got[0]).__name__],
                     "handler %d was failed with %r, not a ConnectionShutdown" % (i, got[0]))
            break
    ctx.label("raising:n=%s" % (n if n < 10 else "98-103"))
    ctx.label("raising:via=" + case["via"])
    ctx.label("raising:first-run-raises=%s" % ("first" in pos.values()))
    if threads:
        ctx.label("has:helper-thread-path")
    ctx.nontrivial(n >= 3 and any(v == "mid" for v in pos.values()))


def parts(tier):
    return [
        hyp_part("v3plus", lambda: s_general("blocking", [3, 4, 4, 5]), interpret, tier, quick=110, thorough=1500,
                 quick_shards=3, thorough_shards=6),
        hyp_part("v1v2", lambda: s_general("blocking", [1, 2]), interpret, tier, quick=80, thorough=1000,
                 quick_shards=1, thorough_shards=3),
        hyp_part("bulk", s_bulk, interpret, tier, quick=14, thorough=120, quick_shards=1, thorough_shards=2),
        hyp_part("heartbeat", s_heartbeat, interpret, tier, quick=50, thorough=500, quick_shards=1, thorough_shards=2),
        hyp_part("paging", s_paging, interpret, tier, quick=90, thorough=1000, quick_shards=1, thorough_shards=2),
        hyp_part("raising", s_raising, interpret_raising, tier, quick=300, thorough=4000, quick_shards=1,
                 thorough_shards=2),
        hyp_part("locks", lambda: s_general("locks", [2, 3, 4, 4, 5], mifs=(3, 3, 4, 4, 5, 8)), interpret, tier,
                 quick=50, thorough=700, quick_shards=1, thorough_shards=3),
    ]
