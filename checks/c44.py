"""C44 -- heartbeats detect dead idle connections without leaking capacity."""
import os

from hypothesis import strategies as st

from checks import _simclu as S
from checks import _simutil as U
from vlib.harness import hyp_part

PID = "C44"
TITLE = "Heartbeats detect dead idle connections without leaking capacity"
LEVEL = "exploration"
ENGINE = "sim"
THOROUGH_SCALE = 1.0
SERIAL = os.environ.get("VERIF_TIER") == "quick"   # heavily loaded machine: a forked pool is slower than one process
TECHNIQUE = ("model-based generation of heartbeat rounds (Hypothesis) over the real Cluster/ConnectionHeartbeat/pools/"
             "control connection on a deterministic simulated network and virtual clock; the fake servers' frame log is "
             "the reference for who was idle and who was probed")
RULE = ("A case is 1-3 fake nodes, one session on protocol 4 (one connection per pool) or 2 (two per pool), "
        "idle_heartbeat_interval=30 / idle_heartbeat_timeout=5 and 2-4 heartbeat rounds (every connection counts as busy in the first one: its handshake was traffic).  Connection holders are the pools "
        "and the control connection.  Per round and per holder slot the case says what happens during the interval (nothing "
        "= idle, a request is served / an event is pushed = traffic, the peer closes the connection = dead, 0-3 requests "
        "are left unanswered = preloaded in_flight) and how the node treats the heartbeat (SUPPORTED, ERROR frame, "
        "nothing, answer after the timeout, close).  A schedule tape picks the runnable virtual thread at every choice "
        "point.  Non-trivial: at least one heartbeat was sent and, over the rounds, at least two different situations "
        "(idle answered / idle failed / traffic / dead) were observed.  Distinct by case digest.")
ASSUMPTIONS = ["network, clock, executor and event loop are simulated (sim/); Cluster, Session, pools, control connection, "
               "ConnectionHeartbeat and HeartbeatFuture are the real classes (the heartbeat thread is a virtual thread)",
               "who is idle is decided from the fake servers' own frame log (frames sent to a connection between two "
               "rounds); connections that saw unscripted frames while a round was in progress are not judged in the next round",
               "'the owner is notified' is observed by its effect: the connection is no longer held by any pool / the control "
               "connection at quiescence after the round",
               "nodes stay reachable, so a host marked down by a failed heartbeat is reconnected 1 virtual second later"]

INTERVAL, TIMEOUT = 30.0, 5.0
PRE = ["idle", "idle", "idle", "traffic", "dead"]
ANSWER = ["supported", "supported", "error", "silent", "late", "close"]


def s_case(gran):
    slot = st.fixed_dictionaries({"pre": st.sampled_from(PRE), "answer": st.sampled_from(ANSWER),
                                  "preload": st.sampled_from([0, 0, 1, 2, 3])})
    rnd = st.fixed_dictionaries({"control": slot, "pools": st.lists(slot, min_size=3, max_size=3)})
    return st.fixed_dictionaries({
        "pv": st.sampled_from([4, 4, 2]),
        "hosts": st.integers(1, 3),
        "convict": st.sampled_from([True, True, False]),
        "orderly": st.booleans(),
        "rounds": st.lists(rnd, min_size=2, max_size=4),
        "tape": st.lists(st.integers(0, 3), max_size=30 if gran == "locks" else 8),
        "gran": st.just(gran),
    })


def interpret(case, ctx):
    sim = S.Sim(tape=case["tape"], granularity=case["gran"], max_steps=150000)
    try:
        with sim:
            _run(case, ctx, sim)
    except S.StepBudgetExceeded:
        ctx.stats.inconclusive += 1
        ctx.label("inconclusive:step-budget")


def _free_ids(conn):
    return len(conn.request_ids) + (conn.max_request_id - conn.highest_request_id)


def _run(case, ctx, sim):
    from cassandra.cluster import EXEC_PROFILE_DEFAULT, ExecutionProfile
    from cassandra.policies import ConstantReconnectionPolicy
    net = sim.net
    world = sim.world
    n = case["hosts"]
    addrs = [S.addr(i) for i in range(n)]
    frames = []        # (time, conn sim_id, opcode, stream, is_heartbeat_reply)
    hb_seen = []       # (time, conn sim_id, action)
    first_seen = set()
    plan = {"answers": {}}      # conn sim_id -> action for the current round
    late = []

    def on_request(node, conn, req):
        if req["op"] == "OPTIONS":
            if conn.sim_id not in first_seen:
                first_seen.add(conn.sim_id)        # the handshake's OPTIONS
                return None
            action = plan["answers"].get(conn.sim_id, "supported")
            hb_seen.append((world.now, conn.sim_id, action))
            plan.setdefault("hb_streams", set()).add((conn.sim_id, req["stream"]))
            if action == "supported":
                return None
            if action == "error":
                return ("error", "server", {"message": "heartbeat refused"})
            if action == "silent":
                return ("drop",)
            if action == "late":
                late.append((node, conn, req))
                return ("drop",)
            return ("close",)
        first_seen.add(conn.sim_id)
        if conn.is_control_connection:
            return S.legacy_system_tables(node, conn, req)
        if req["op"] == "QUERY" and req.get("query", "").startswith("SELECT hold FROM t_%s" % node.address.replace(".", "_")):
            return ("hold",)
        return None

    def wrap_send(node):
        orig = node.send

        def send(conn, version, stream, opcode, body, **kw):
            if not conn.srv_closed:
                frames.append((world.now, conn.sim_id, opcode, stream,
                               (conn.sim_id, stream) in plan.get("hb_streams", ())))
            return orig(conn, version, stream, opcode, body, **kw)
        node.send = send

    for a in addrs:
        nd = net.add_node(a)
        nd.on_request = on_request
        wrap_send(nd)
    policy = S.plan_policy()
    prof = ExecutionProfile(load_balancing_policy=policy, request_timeout=None)
    kw = {}
    if not case["convict"]:
        kw["conviction_policy_factory"] = S.never_convict_factory()
    cluster = sim.make_cluster(addrs[:1], protocol_version=case["pv"], execution_profiles={EXEC_PROFILE_DEFAULT: prof},
                               reconnection_policy=ConstantReconnectionPolicy(1.0, max_attempts=None),
                               idle_heartbeat_interval=INTERVAL, idle_heartbeat_timeout=TIMEOUT, **kw)
    S.fixed_random(sim, [0.0])
    with ctx.driver(["C44.setup", "connect"]):
        session = sim.call(cluster.connect, wait_for_all_pools=True)
    if ctx._failures:
        return
    sim.settle()
    t0 = world.now
    seen_kinds = set()
    sent_total = 0

    def holder_conns():
        out = []
        with ctx.driver(["C44.holders"]):
            for s in tuple(cluster.sessions):
                for host, pool in list(s._pools.items()):
                    for c in pool.get_connections():
                        if c is not None:
                            out.append((c, "pool", host.endpoint.address))
            for c in cluster.control_connection.get_connections():
                out.append((c, "control", c.endpoint.address))
        return out

    def slot_conns():
        """generated slots -> live connections: control, then per host the pool's connections"""
        m = {"control": [c for c, kind, _a in holder_conns() if kind == "control"], "pools": []}
        for a in addrs:
            m["pools"].append(S.pool_connections(session, a))
        return m

    hold_no = [0]
    for k, rnd in enumerate(case["rounds"], start=1):
        T = t0 + INTERVAL * k
        prev_T = T - INTERVAL
        # ---- mid-interval: generated traffic / faults
        sim.advance((T - 15.0) - world.now)
        sc = slot_conns()
        slots = [("control", None, rnd["control"], sc["control"])]
        for i in range(n):
            slots.append(("pool", addrs[i], rnd["pools"][i], sc["pools"][i]))
        for kind, a, slot, conns in slots:
            if kind == "pool":
                policy.order = [a]
                for _ in range(slot["preload"] if conns else 0):
                    hold_no[0] += 1
                    with ctx.driver(["C44.inject", "hold-query"]):
                        sim.call(session.execute_async, "SELECT hold FROM t_%s /*%d*/" % (a.replace(".", "_"), hold_no[0]))
                    sim.settle()
            if slot["pre"] == "traffic":
                if kind == "pool" and conns:
                    with ctx.driver(["C44.inject", "query"]):
                        sim.call(session.execute_async, "SELECT busy FROM t")
                elif kind == "control":
                    cn = S.control_node(net)
                    if cn is not None:
                        cn.push_event({"type": "STATUS_CHANGE", "change": "UP", "address": addrs[0]})
                sim.settle()
            elif slot["pre"] == "dead":
                for c in conns[:1]:
                    net.server_close(c, eof=bool(case.get("orderly")))      # reset, or orderly close (EOF)
                sim.settle()
        sim.settle()
        # ---- just before the round: what the round will find
        sim.advance((T - 1.0) - world.now)
        snap = []
        plan["answers"] = {}
        sc = slot_conns()
        by_conn = {}
        for c in sc["control"]:
            by_conn[c.sim_id] = rnd["control"]
        for i in range(n):
            for c in sc["pools"][i]:
                by_conn[c.sim_id] = rnd["pools"][i]
        for c, kind, a in holder_conns():
            opened = not (c.is_closed or c.is_defunct)
            mine = [f for f in frames if f[1] == c.sim_id and not f[4]]
            if k == 1:
                # everything since the connection was opened (its handshake included) is traffic of the first interval
                traffic, ambiguous = [f for f in mine if f[0] <= T - 0.5], []
            else:
                # a connection probed in the previous round is reset when its answer is processed (up to `timeout`
                # later): unscripted frames in that window may or may not count; frames at the instant of the scan too
                probed = any(h[1] == c.sim_id and prev_T - 0.5 < h[0] < prev_T + TIMEOUT + 0.5 for h in hb_seen)
                hi = prev_T + TIMEOUT + 0.5 if probed else prev_T + 0.01
                traffic = [f for f in mine if hi < f[0] <= T - 0.5]
                ambiguous = [f for f in mine if prev_T - 0.5 < f[0] <= hi]
            answer = by_conn.get(c.sim_id, {"answer": "supported"})["answer"]
            plan["answers"][c.sim_id] = answer
            snap.append({"conn": c, "kind": kind, "addr": a, "open": opened, "idle": not traffic,
                         "ambiguous": bool(ambiguous),
                         "in_flight": c.in_flight, "free": _free_ids(c), "answer": answer})
        # ---- the round
        sim.advance((T + TIMEOUT + 0.5) - world.now)
        for node, conn, req in late:
            node.default(conn, req)
        del late[:]
        sim.advance((T + TIMEOUT + 2.5) - world.now)     # reconnection of hosts marked down (1 s) completes
        now_held = set(id(c) for c, _k, _a in holder_conns())
        for s in snap:
            c = s["conn"]
            hbs = [h for h in hb_seen if h[1] == c.sim_id and T - 0.5 < h[0] < T + TIMEOUT + 0.5]
            where = "round %d, %s connection #%d to %s" % (k, s["kind"], c.sim_id, s["addr"])
            if s["ambiguous"]:
                ctx.label("not-judged:ambiguous")
            else:
                expect = s["open"] and s["idle"]
                gone = c.is_closed or c.is_defunct
                # an idle connection that its owner closed while the round was scanning (pool shut down because a
                # sibling / the host's other connection turned out dead) is legitimately not probed
                if expect and not hbs and gone:
                    ctx.label("idle-but-closed-by-owner-during-round")
                elif expect and not hbs:
                    ctx.fail(["C44.sent", "idle-not-probed", s["kind"]],
                             "%s was open and idle for the whole interval but got no heartbeat" % where)
                elif not expect and hbs:
                    ctx.fail(["C44.sent", ("busy" if s["open"] else "dead") + "-probed", s["kind"]],
                             "%s (%s) was sent a heartbeat" % (where, "had traffic" if s["open"] else "already dead"))
                elif len(hbs) > 1:
                    ctx.fail(["C44.sent", "probed-twice", s["kind"]], "%s got %d heartbeats in one round" % (where, len(hbs)))
            if hbs:
                sent_total += 1
                action = hbs[0][2]
                if action == "supported":
                    seen_kinds.add("answered")
                    ctx.label("hb:answered")
                    if c.is_defunct:
                        ctx.fail(["C44.healthy-defunct", s["kind"]], "%s answered its heartbeat but was marked defunct" % where)
                    elif not c.is_closed:
                        if c.in_flight != s["in_flight"]:
                            ctx.fail(["C44.capacity", "in_flight", "%+d" % (c.in_flight - s["in_flight"]), s["kind"]],
                                     "%s: in_flight was %d before the answered heartbeat and is %d after the round" % (
                                         where, s["in_flight"], c.in_flight))
                        elif _free_ids(c) != s["free"]:
                            ctx.fail(["C44.capacity", "stream-ids", s["kind"]],
                                     "%s: %d free stream ids before the answered heartbeat, %d after" % (
                                         where, s["free"], _free_ids(c)))
                else:
                    seen_kinds.add("failed")
                    ctx.label("hb:" + action)
                    if not (c.is_defunct or c.is_closed):
                        # (closed by its owner counts: a pool that shuts down because of a sibling's failure closes the
                        # other connections before the heartbeat thread gets to mark them defunct)
                        ctx.fail(["C44.detect", action, s["kind"]],
                                 "%s: heartbeat outcome %r but the connection is still in service (neither defunct nor closed) "
                                 "after the round" % (where, action))
                    elif id(c) in now_held:
                        ctx.fail(["C44.owner", action, s["kind"]],
                                 "%s failed its heartbeat and is defunct but its owner still holds it" % where)
            elif not s["open"]:
                seen_kinds.add("dead")
                ctx.label("conn:dead-before-round")
                if id(c) in now_held:
                    ctx.fail(["C44.owner", "already-dead", s["kind"]],
                             "%s was dead before the round and its owner still holds it after the round" % where)
            elif not s["ambiguous"]:
                seen_kinds.add("traffic")
                ctx.label("conn:traffic")
                if c.is_defunct:
                    ctx.fail(["C44.busy-defunct", s["kind"]], "%s had traffic, got no heartbeat, yet is defunct" % where)
        if ctx._failures:
            break
    ctx.label("hosts=%d" % n, "pv=%d" % case["pv"], "rounds=%d" % len(case["rounds"]))
    ctx.nontrivial(sent_total >= 1 and len(seen_kinds) >= 2)
    for name, e in world.actor_errors:
        ctx.fail(["C44.thread-error", type(e).__name__], "virtual thread %s died with %r" % (name, e))
        break
    try:
        S.drain_held(sim)
        sim.call(cluster.shutdown)
    except S.Deadlock:
        pass


def parts(tier):
    return [
        hyp_part("blocking", lambda: s_case("blocking"), interpret, tier, quick=150, thorough=900,
                 quick_shards=6, thorough_shards=12),
        hyp_part("locks", lambda: s_case("locks"), interpret, tier, quick=60, thorough=300,
                 quick_shards=2, thorough_shards=4),
    ]
