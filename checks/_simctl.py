"""Helpers shared by the control-plane / configuration checks on the simulated world
(C32, C41, C42, C43, C46, C47).  Nothing here touches sim/ itself."""
from checks import _simutil as U
from sim import wire


def tagged(obj, tag):
    """mark a policy instance so that the check can tell WHICH instance the driver used; a
    speculative-execution policy also marks the plans it hands out"""
    obj._tag = tag
    if hasattr(obj, "new_plan"):
        inner = obj.new_plan

        def new_plan(keyspace, statement):
            plan = inner(keyspace, statement)
            plan._policy_tag = tag
            return plan
        obj.new_plan = new_plan
    return obj


def recording_retry_policy(tag, log):
    """a RetryPolicy that records every consultation in `log` and always answers RETHROW"""
    from cassandra.policies import RetryPolicy

    class Recording(RetryPolicy):
        _tag = tag

        def _rec(self, method, retry_num, consistency):
            log.append({"tag": tag, "method": method, "retry_num": retry_num, "consistency": consistency})
            return (RetryPolicy.RETHROW, None)

        def on_read_timeout(self, query, consistency, required_responses, received_responses, data_retrieved, retry_num):
            return self._rec("read_timeout", retry_num, consistency)

        def on_write_timeout(self, query, consistency, write_type, required_responses, received_responses, retry_num):
            return self._rec("write_timeout", retry_num, consistency)

        def on_unavailable(self, query, consistency, required_replicas, alive_replicas, retry_num):
            return self._rec("unavailable", retry_num, consistency)

        def on_request_error(self, query, consistency, error, retry_num):
            return self._rec("request_error", retry_num, consistency)
    return Recording()


class RecordingListener(object):
    """host state listener (cluster.register_listener) logging (event, address)"""

    def __init__(self, log):
        self.log = log

    def on_add(self, host):
        self.log.append(("add", host.endpoint.address))

    def on_remove(self, host):
        self.log.append(("remove", host.endpoint.address))

    def on_up(self, host):
        self.log.append(("up", host.endpoint.address))

    def on_down(self, host):
        self.log.append(("down", host.endpoint.address))


def recording_lbp(log, order=None):
    """fixed-plan policy (hosts sorted by address) that logs on_up/on_down/on_add/on_remove with the
    host's datacenter/rack as seen at the time of the call"""
    base = U.fixed_plan_policy(order)
    cls = type(base)

    class Rec(cls):
        def on_up(self, host):
            log.append(("up", host.endpoint.address, host.datacenter, host.rack))
            cls.on_up(self, host)

        def on_down(self, host):
            log.append(("down", host.endpoint.address, host.datacenter, host.rack))
            cls.on_down(self, host)

        def on_add(self, host):
            log.append(("add", host.endpoint.address, host.datacenter, host.rack))
            cls.on_add(self, host)

        def on_remove(self, host):
            log.append(("remove", host.endpoint.address, host.datacenter, host.rack))
            cls.on_remove(self, host)
    return Rec()


def empty_rows(node, conn, req):
    """answer any SELECT with an empty result (schema queries).  One column: a ROWS result with zero columns is not
    something a server sends (and the driver's decoder does not accept it)"""
    node.reply(conn, req, "RESULT", wire.result_rows([("keyspace_name", "text")], [], ks="system_schema", table="x",
                                                     version=req["version"]))


# ------------------------------------------------------------------ protocol v1/v2 result rows
# sim/wire.enc_value writes collections in the v3+ layout (int32 count/lengths) only; on protocol v1/v2 the
# driver reads collections with uint16 count/lengths, so system.peers.tokens decodes as an empty set and every
# peer is ignored.  These helpers give a fake node correctly encoded system tables on v1/v2.
def enc_value_legacy(t, v):
    import struct
    if v is None:
        return None
    if isinstance(t, str):
        return wire.enc_value(t, v)

    def sb(b):
        return struct.pack(">H", len(b)) + b
    if t[0] in ("list", "set"):
        items = list(v)
        return struct.pack(">H", len(items)) + b"".join(sb(enc_value_legacy(t[1], x)) for x in items)
    if t[0] == "map":
        items = list(v.items()) if isinstance(v, dict) else list(v)
        return struct.pack(">H", len(items)) + b"".join(
            sb(enc_value_legacy(t[1], k)) + sb(enc_value_legacy(t[2], x)) for k, x in items)
    raise wire.WireError("unsupported type %r" % (t,))


def result_rows_any(columns, rows, ks="ks", table="t", version=4, **kw):
    """wire.result_rows with the collection layout of `version`"""
    if version >= 3:
        return wire.result_rows(columns, rows, ks=ks, table=table, version=version, **kw)
    out = wire._int(2) + wire.rows_metadata(columns, ks, table, kw.get("paging_state"), version=version)
    out += wire._int(len(rows))
    for row in rows:
        for (name, t), v in zip(columns, row):
            out += wire._bytes(enc_value_legacy(t, v))
    return out


def fix_legacy_rows(node):
    """make node's system-table answers decodable on protocol v1/v2 (instance-level override of Node._rows)"""
    def _rows(conn, req, cols, dict_rows, table):
        q = req["query"]
        sel = q[len("SELECT "):q.upper().index(" FROM ")].strip()
        if sel != "*":
            want = [c.strip() for c in sel.split(",")]
            cols = [c for c in cols if c[0] in want]
        rows = [[r.get(c[0]) for c in cols] for r in dict_rows]
        node.reply(conn, req, "RESULT", result_rows_any(cols, rows, ks="system", table=table, version=req["version"]))
    node._rows = _rows
    return node


# ------------------------------------------------------------------ hand-off at Event.set
def handoff_events(sim, schedule="all"):
    """Make `Event.set()` in cassandra.connection / cassandra.cluster a point where the setting thread is
    descheduled for ONE scheduler slot, so that a thread woken by the event (e.g. the one blocked in
    Connection.factory on connected_event) runs BEFORE the setter executes its next statement.  Real threads
    can always be pre-empted there; at the sim's "blocking" granularity the setter would otherwise run on until
    it blocks.  schedule: "all" | list of 0/1 consumed per set() call (exhausted = no hand-off).
    Call inside `with sim:`; returns a restore function (call it before leaving the block) and a counter dict."""
    import cassandra.cluster as C
    import cassandra.connection as K
    from sim.vthreads import VEvent
    world = sim.world
    bits = None if schedule == "all" else list(schedule)
    stats = {"sets": 0, "handoffs": 0}

    class HandoffEvent(VEvent):
        def set(self):
            self.flag = True
            stats["sets"] += 1
            if world.killing or not world.in_actor():
                return
            if bits is not None:
                if not bits or not bits.pop(0):
                    return
            stats["handoffs"] += 1
            n = [0]

            def once_others_ran():
                n[0] += 1
                return n[0] > 2        # 1: block()'s own test, 2: the scheduler pass in which the others get their slot
            world.block(once_others_ran, 1e-9)

    def factory():
        return HandoffEvent(world)
    saved = [(m, m.Event) for m in (K, C)]
    for m, _old in saved:
        m.Event = factory

    def restore():
        for m, old in saved:
            m.Event = old
    return restore, stats
