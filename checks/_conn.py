"""Socket-less cassandra.connection.Connection for byte feeding (helper for C05 / C06).

Everything here that describes bytes on the wire (frame headers, SUPPORTED / READY / EVENT
bodies, the stand-in block compressor) is written by hand from the protocol text; only
`make_conn`, `harness_lz4`, `handshake_*` touch the driver.

API
    frame(version, flags, stream, opcode, body) -> bytes       response frame, any version
    frame_header_len(version) -> 8 | 9
    body_bytes(kind, length, seed, version=4) -> bytes         deterministic body content
    event_body(desc, version) -> (bytes, event_type, expected_args); norm_event(args); garbage_event_body(desc)
    make_conn(version, compression=False) -> FeedConnection    (.pushed, .closes, .feed(chunk), .steps,
                                                               .step_budget -> RunawayLoop when exceeded)
    resolve_cuts(total, boundaries, spec) -> sorted cut offsets in (0, total)
    feed(conn, data, cuts, on_chunk=None) -> bytes fed         stops when the connection closed
    harness_lz4()                                              context manager installing the codec
    block_compress / block_decompress                          the opaque block codec (zlib inside)
    handshake_wire(conn, compression, cuts_tape) / handshake_direct(conn, compression)
"""
import contextlib
import random
import struct
import zlib

RESPONSE_BIT = 0x80
OP_ERROR, OP_READY, OP_AUTHENTICATE, OP_SUPPORTED, OP_RESULT, OP_EVENT = 0x00, 0x02, 0x03, 0x06, 0x08, 0x0C
OP_AUTH_CHALLENGE, OP_AUTH_SUCCESS = 0x0E, 0x10
RESPONSE_OPCODES = [OP_ERROR, OP_READY, OP_AUTHENTICATE, OP_SUPPORTED, OP_RESULT, OP_AUTH_CHALLENGE, OP_AUTH_SUCCESS]


# ---------------------------------------------------------------------------------------
# wire helpers (independent of the driver)
# ---------------------------------------------------------------------------------------

def frame_header_len(version):
    return 8 if (version & 0x7F) < 3 else 9


def frame(version, flags, stream, opcode, body):
    """A response frame.  v1/v2: version, flags, stream(int8), opcode, length(int32);
    v3+ (and DSE 0x41/0x42): stream is int16."""
    v = version & 0x7F
    if v < 3:
        head = struct.pack(">BBbBi", RESPONSE_BIT | v, flags, stream, opcode, len(body))
    else:
        head = struct.pack(">BBhBi", RESPONSE_BIT | v, flags, stream, opcode, len(body))
    return head + bytes(body)


def body_bytes(kind, length, seed, version=4):
    """Deterministic body content.  kind: 'rand' (incompressible), 'rep' (short repeating
    block: compressible), 'zero', 'hdr' (looks like a run of empty frames of this version, so
    that a framing slip yields plausible frames instead of an immediate error)."""
    if length <= 0:
        return b""
    if kind == "rand":
        return random.Random(seed).randbytes(length)
    if kind == "zero":
        return bytes(length)
    if kind == "hdr":
        unit = frame(version, 0, seed % 100, OP_RESULT, b"")
    else:
        unit = random.Random(seed).randbytes(1 + seed % 23)
    return (unit * (length // len(unit) + 1))[:length]


def _string(s):
    b = s.encode("utf-8")
    return struct.pack(">H", len(b)) + b


def _inet(addr_bytes, port):
    return bytes([len(addr_bytes)]) + bytes(addr_bytes) + struct.pack(">i", port)


def event_body(desc, version):
    """desc: {"type": "STATUS_CHANGE"|"TOPOLOGY_CHANGE"|"SCHEMA_CHANGE", "change": str,
    "addr": hex of 4/16 address bytes, "port": int, "keyspace": str, "table": str}.
    Returns (body, event_type, expected) where expected is what a watcher must receive
    (addresses as (packed bytes, port) -- the check normalises the driver's text form)."""
    t = desc["type"]
    out = _string(t)
    if t in ("STATUS_CHANGE", "TOPOLOGY_CHANGE"):
        addr = bytes.fromhex(desc["addr"])
        out += _string(desc["change"]) + _inet(addr, desc["port"])
        return out, t, {"change_type": desc["change"], "address": (addr, desc["port"])}
    # SCHEMA_CHANGE
    ks, table = desc.get("keyspace", "ks"), desc.get("table", "")
    if (version & 0x7F) >= 3:
        if table:
            out += _string(desc["change"]) + _string("TABLE") + _string(ks) + _string(table)
            exp = {"target_type": "TABLE", "change_type": desc["change"], "keyspace": ks, "table": table}
        else:
            out += _string(desc["change"]) + _string("KEYSPACE") + _string(ks)
            exp = {"target_type": "KEYSPACE", "change_type": desc["change"], "keyspace": ks}
    else:
        out += _string(desc["change"]) + _string(ks) + _string(table)
        if table:
            exp = {"target_type": "TABLE", "change_type": desc["change"], "keyspace": ks, "table": table}
        else:
            exp = {"target_type": "KEYSPACE", "change_type": desc["change"], "keyspace": ks}
    return out, t, exp


def norm_event(args):
    """Event args as a watcher receives them (or as event_body() predicts them) in a comparable
    form: addresses by their packed bytes whatever the text form."""
    import ipaddress
    out = {}
    for k, val in args.items():
        if k == "address":
            a, port = val
            ip = ipaddress.ip_address(bytes(a)) if isinstance(a, (bytes, bytearray)) else ipaddress.ip_address(a)
            out[k] = (ip.packed.hex(), port)
        else:
            out[k] = val
    return tuple(sorted(out.items()))


def garbage_event_body(desc):
    """An EVENT body that ends inside its second string: undecodable."""
    return _string(desc["type"]) + b"\x00"


def supported_body(compressions, cql_versions=("3.4.5",)):
    """SUPPORTED: [string multimap]"""
    opts = [("CQL_VERSION", list(cql_versions)), ("COMPRESSION", list(compressions))]
    out = struct.pack(">H", len(opts))
    for k, vals in opts:
        out += _string(k) + struct.pack(">H", len(vals)) + b"".join(_string(v) for v in vals)
    return out


# ---------------------------------------------------------------------------------------
# stand-in block codec with the contract of the driver's lz4 wrappers
# ---------------------------------------------------------------------------------------

def block_compress(data):
    return zlib.compress(bytes(data), 1)


def block_decompress(block, uncompressed_length):
    out = zlib.decompress(bytes(block))
    if len(out) != uncompressed_length:
        raise ValueError("block inflates to %d bytes, header says %d" % (len(out), uncompressed_length))
    return out


def wrapper_compress(byts):
    """same shape as cassandra.connection.lz4_compress: int32 big-endian length + block"""
    return struct.pack(">i", len(byts)) + block_compress(byts)


def wrapper_decompress(byts):
    (n,) = struct.unpack(">i", bytes(byts[:4]))
    return block_decompress(byts[4:], n)


@contextlib.contextmanager
def harness_lz4():
    """Install the stand-in codec where the driver looks for lz4 (restored on exit)."""
    import cassandra.connection as C
    from cassandra.segment import SegmentCodec
    saved_codec = C.segment_codec_lz4
    had = "lz4" in C.locally_supported_compressions
    saved_entry = C.locally_supported_compressions.get("lz4")
    C.locally_supported_compressions["lz4"] = (wrapper_compress, wrapper_decompress)
    C.segment_codec_lz4 = SegmentCodec(wrapper_compress, wrapper_decompress)
    try:
        yield
    finally:
        C.segment_codec_lz4 = saved_codec
        if had:
            C.locally_supported_compressions["lz4"] = saved_entry
        else:
            C.locally_supported_compressions.pop("lz4", None)


# ---------------------------------------------------------------------------------------
# the connection
# ---------------------------------------------------------------------------------------

_CLS = {}


class RunawayLoop(Exception):
    """the read loop of the connection exceeded its step budget (would not terminate)"""


def _conn_class():
    if "cls" in _CLS:
        return _CLS["cls"]
    from cassandra.connection import Connection, ConnectionShutdown

    class FeedConnection(Connection):
        """Connection without a socket.  close() follows the contract every shipped reactor
        implements."""

        def __init__(self, *a, **kw):
            Connection.__init__(self, *a, **kw)
            self.pushed = []
            self.closes = 0
            self.steps = 0
            self.step_budget = None      # set by the check: max loop steps for the whole case

        # Every iteration of process_io_buffer calls at least one of these three methods, so
        # counting them turns a non-terminating read loop (a broken tree) into an exception
        # the check reports, instead of a hang.  Deterministic: a step count, not a clock.
        def _tick(self):
            self.steps += 1
            if self.step_budget is not None and self.steps > self.step_budget:
                raise RunawayLoop("process_io_buffer made more than %d steps" % self.step_budget)

        def _read_frame_header(self):
            self._tick()
            return Connection._read_frame_header(self)

        def _process_segment_buffer(self):
            self._tick()
            return Connection._process_segment_buffer(self)

        def process_msg(self, header, body):
            self._tick()
            return Connection.process_msg(self, header, body)

        def push(self, data):
            self.pushed.append(bytes(data))

        def close(self):
            with self.lock:
                if self.is_closed:
                    return
                self.is_closed = True
            self.closes += 1
            if not self.is_defunct:
                self.error_all_requests(ConnectionShutdown("Connection to %s was closed" % self.endpoint))
                self.connected_event.set()

        def feed(self, chunk):
            """what every reactor's handle_read does with received bytes"""
            self._iobuf.write(chunk)
            self.process_io_buffer()

    _CLS["cls"] = FeedConnection
    return FeedConnection


def make_conn(version, compression=False):
    return _conn_class()(host="127.0.0.1", port=9042, protocol_version=version, compression=compression,
                         allow_beta_protocol_version=(version == 6))


def resolve_cuts(total, boundaries, spec):
    """Cut spec -> sorted distinct offsets strictly inside (0, total).

    spec = {"every": n (0 = off; n>0: a cut every n bytes),
            "items": [["b", k, d]        boundary number k (mod count) + d
                      ["a", off]         absolute offset (mod total)
                      ["run", k, d, n]   n one-byte reads starting at boundary k + d
                      ["f", num, den]]   the offset total*num/den }"""
    cuts = set()
    nb = len(boundaries)
    every = spec.get("every", 0)
    if every and every > 0:
        cuts.update(range(every, total, every))
    for it in spec.get("items", []):
        tag = it[0]
        if tag == "b" and nb:
            cuts.add(boundaries[it[1] % nb] + it[2])
        elif tag == "a" and total:
            cuts.add(it[1] % total)
        elif tag == "run" and nb:
            s = boundaries[it[1] % nb] + it[2]
            cuts.update(range(s, s + it[3] + 1))
        elif tag == "f" and it[2]:
            cuts.add(total * it[1] // it[2])
    return sorted(c for c in cuts if 0 < c < total)


def feed(conn, data, cuts, on_chunk=None, pos=None):
    """Feed `data` split at `cuts`; like a reactor, stop reading once the connection closed.
    `pos` (a one-element list) is set to the number of bytes handed over *including* the read
    being processed before each read, so that handlers can tell how much had been fed when they
    were called; on_chunk(fed_so_far) is called after every read was processed.  Returns bytes
    fed."""
    prev = 0
    fed = 0
    for c in list(cuts) + [len(data)]:
        if c <= prev:
            continue
        if conn.is_closed:
            break
        if pos is not None:
            pos[0] = c
        conn.feed(data[prev:c])
        fed = c
        prev = c
        if on_chunk is not None:
            on_chunk(fed)
    return fed


def handshake_direct(conn, compression):
    """What _handle_options_response/_handle_startup_response do, without the wire exchange."""
    import cassandra.connection as C
    from cassandra.protocol import ReadyMessage
    if compression:
        conn._compression_type = "lz4"
        conn._compressor, conn.decompressor = C.locally_supported_compressions["lz4"]
    else:
        conn._compressor = None
    conn._handle_startup_response(ReadyMessage())


def handshake_wire(conn, compression, cut=0):
    """OPTIONS -> SUPPORTED -> STARTUP -> READY through the real send/receive path.  The two
    server frames are unsegmented v5 frames (checksumming starts after READY); `cut` > 0 splits
    each of them into reads of that many bytes."""
    v = conn.protocol_version
    conn._send_options_message()
    sup = frame(v, 0, 0, OP_SUPPORTED, supported_body(["lz4", "snappy"] if compression else []))
    feed(conn, sup, range(cut, len(sup), cut) if cut else [])
    ready = frame(v, 0, 1, OP_READY, b"")
    feed(conn, ready, range(cut, len(ready), cut) if cut else [])
