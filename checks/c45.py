"""C45 -- shutdown releases every connection and stops accepting work."""
import os

from hypothesis import strategies as st

from checks import _simclu as S
from checks import _simutil as U
from vlib.harness import hyp_part

PID = "C45"
TITLE = "Shutdown releases every connection and stops accepting work"
LEVEL = "exploration"
ENGINE = "sim"
THOROUGH_SCALE = 1.0
SERIAL = os.environ.get("VERIF_TIER") == "quick"   # heavily loaded machine: a forked pool is slower than one process
TECHNIQUE = ("model-based generation of event histories with shutdown injected at a generated point (Hypothesis) over the "
             "real Cluster/Session/ControlConnection/pools/scheduler on a deterministic simulated network in which a "
             "connection attempt and the answer to a USE take virtual time; a third of the histories is laid out by "
             "construction so that a keyspace change and the shutdown each land in a generated phase of a pool's "
             "construction; the fake network's own list of sockets is the reference")
RULE = ("A case is 1-3 fake nodes whose connection attempts take 0 or 0.5 virtual seconds, 1-2 sessions (the first connect() "
        "and a later second connect() run as client threads, so they may still be in progress), protocol 4 or 2, default or "
        "never-convicting conviction policy, ConstantReconnectionPolicy(1 s), and a generated prefix of events: a pool "
        "connection fails, a node goes down / comes back, STATUS_CHANGE UP/DOWN, a node leaves / joins the ring, a request is "
        "sent (answered or left unanswered), a pool connection with a request in flight is closed by the peer with nothing "
        "run before the next step (so the pool's reaction is still queued when shutdown starts), the clock advances by 0.1-1.6 s; optionally the connection class has orphaned_threshold=2 and the history ends with "
        "requests that time out on the client (orphaned streams) followed by newer requests, so that the connection is replaced "
        "and parked in the pool's trash; the peer's closes are resets or orderly closes (EOF).  "
        "Keyspaces: connect() is given no keyspace or 'ks1', the nodes answer a USE on a pool connection after 0 / 0.1 / 0.3 / "
        "0.5 virtual seconds, and 'use' events send USE ks1/ks2 through a session (what Session.set_keyspace sends; the "
        "answer changes the session's keyspace and makes every pool re-select it).  One case in three is a race layout "
        "(2-3 nodes): after a short generated prefix a pool is (re)created for a host other than the contact point (it "
        "leaves and rejoins the ring, or goes down and is announced UP), a USE is timed so that the session's keyspace "
        "changes in a generated phase of that pool's construction (connecting / selecting the keyspace it found / later) at "
        "a generated fraction of the phase, and the shutdown is timed into a generated phase (connecting / selecting / "
        "catching up with the changed keyspace / installed) likewise; phase lengths follow from the case's connect "
        "delay, USE delay and protocol version.  Then Cluster.shutdown() or "
        "Session.shutdown() runs as another client thread, a few more events follow, 12 virtual seconds pass, a request "
        "and a connect() are attempted, and finally the cluster is shut down.  A schedule tape picks the runnable virtual "
        "thread at every choice point.  Non-trivial: at least one connection attempt (initial connect, pool creation, "
        "replacement, reconnection, control reconnection) was in progress when shutdown was called, or an open connection that "
        "is not yet part of any session's pool (pool under construction, replacement connection) was waiting for the "
        "answer to a USE at that moment.  Distinct by case digest.  Labels: cls:use-in-flight-at-shutdown, "
        "cls:use-in-flight-on-uninstalled-connection-at-shutdown, cls:keyspace-catch-up-at-shutdown (second USE on such a "
        "connection), selecting:<opening thread>, race:change-phase / race:shutdown-phase / race:<trigger>, keyspace=, use_delay=.")
ASSUMPTIONS = ["network, clock, executor and event loop are simulated (sim/); Cluster, Session, ControlConnection, pools, "
               "scheduler, reconnection handlers are the real classes",
               "the connection class is subclassed only to log when (and on which virtual thread) a connection attempt starts",
               "quiescence = 12 virtual seconds after shutdown (connect delay 0.5 s, USE delay <= 0.5 s, reconnection delay 1 s, "
               "connect_timeout 5 s)",
               "a delayed USE answer is the node's default answer sent by a virtual timer (on_request wrapper in this module); "
               "every keyspace exists; USE is sent with execute_async (Session.set_keyspace = execute of the same statement)",
               "Cluster.sessions (a WeakSet iterated in memory-address order) is replaced by an insertion-ordered set and executor futures hash by creation number "
               "(the driver keeps them in sets and blocks on whichever the set yields first) so that a case replays identically"]

ADV = [0.1, 0.3, 0.5, 0.6, 1.0, 1.2, 1.6]
KS = ["ks1", "ks2", "ks2"]


def s_case(gran):
    h = st.integers(0, 2)
    ev = st.one_of(
        st.tuples(st.just("advance"), st.sampled_from(ADV)),
        st.tuples(st.just("advance"), st.sampled_from(ADV)),
        st.tuples(st.just("conn_fail"), h, st.integers(0, 1)),
        st.tuples(st.just("node_down"), h),
        st.tuples(st.just("node_up"), h),
        st.tuples(st.just("status"), st.sampled_from(["UP", "DOWN"]), h),
        st.tuples(st.just("leave"), h),
        st.tuples(st.just("join"), h),
        st.tuples(st.just("connect2")),
        st.tuples(st.just("query"), h, st.booleans()),
        st.tuples(st.just("die_now"), h),
        st.tuples(st.just("use"), st.integers(0, 1), st.sampled_from(KS), h),
    ).map(list)
    base = {
        "pv": st.sampled_from([4, 4, 4, 2]),
        "hosts": st.integers(1, 3),
        "delays": st.lists(st.sampled_from([0.0, 0.5, 0.5]), min_size=3, max_size=3),
        "convict": st.sampled_from([True, True, False]),
        "settle_connect": st.booleans(),
        # (often the history ends with a pool connection dying at the very moment of the shutdown)
        # (sometimes it ends with a connection that crossed the orphaned-stream threshold -- requests timed out on the
        # client -- and was replaced while newer requests are still in flight on it: it sits in the pool's trash)
        "events": st.one_of(st.lists(ev, max_size=8),
                            st.tuples(st.lists(ev, max_size=5), h).map(lambda t: t[0] + [["die_now", t[1]]]),
                            st.tuples(st.lists(ev, max_size=3), h, st.sampled_from([2.1, 2.3, 3.0]),
                                      st.sampled_from([0.0, 0.1, 0.6]), st.integers(1, 2)).map(
                                lambda t: t[0] + [["query", t[1], True]] * 2 + [["advance", t[2]]] +
                                [["query", t[1], True]] * t[4] + ([["advance", t[3]]] if t[3] else []))),
        # the keyspace given to connect() (None = no keyspace) and the virtual seconds a node takes to answer a USE on a
        # pool connection (so that selecting a keyspace is something a shutdown can overlap with)
        "keyspace": st.sampled_from([None, "ks1", "ks1"]),
        "use_delay": st.sampled_from([0.0, 0.1, 0.3, 0.3, 0.5]),
        "orphan_threshold": st.sampled_from([None, 2, 2]),
        "orderly": st.booleans(),
        "shutdown": st.sampled_from(["cluster", "cluster", "session"]),
        "after": st.lists(ev, max_size=3),
        "tape": st.lists(st.integers(0, 3), max_size=40 if gran == "locks" else 10),
        "gran": st.just(gran),
    }
    # a pool is created for a host that (re)joins the ring or is announced UP again, and both a keyspace change of the
    # session and the shutdown are aimed at a phase of that pool's construction: connecting / selecting the keyspace it
    # found / catching up with a keyspace that changed meanwhile / installed (see _lay_out_race)
    frac = st.sampled_from([0.0, 0.25, 0.5, 0.75])
    race = dict(base)
    race.update({
        "hosts": st.integers(2, 3),
        "keyspace": st.sampled_from(["ks1", "ks1", "ks1", None]),
        "use_delay": st.sampled_from([0.3, 0.3, 0.5, 0.1]),
        "settle_connect": st.sampled_from([True, True, True, False]),
        "events": st.lists(ev, max_size=2),
        "race": st.fixed_dictionaries({
            "h": st.integers(0, 1), "trigger": st.sampled_from(["rejoin", "rejoin", "bounce"]),
            "si": st.integers(0, 1), "ks": st.sampled_from(["ks2", "ks2", "ks2", "ks1"]), "via": st.integers(0, 2),
            "change_phase": st.sampled_from([0, 1, 1, 2]), "change_f": frac,
            "shutdown_phase": st.sampled_from([0, 1, 2, 2, 3]), "shutdown_f": frac}),
    })
    return st.one_of(st.fixed_dictionaries(base), st.fixed_dictionaries(base),
                     st.fixed_dictionaries(race).map(_lay_out_race))


def _lay_out_race(case):
    """append to the generated prefix: the trigger of a pool (re)creation for a host other than the contact point, a USE
    whose answer (= the moment the session's keyspace changes) lands in the chosen phase of that pool's construction,
    and the advance that puts the shutdown into its chosen phase.  Phases, from the trigger: connecting (the host's
    connect delay), selecting the keyspace found (use_delay), catching up with a changed keyspace (use_delay), after."""
    r = case["race"]
    n = case["hosts"]
    hi = 1 + r["h"] % (n - 1)
    k = 2 if case["pv"] < 3 else 1          # the v1/v2 pool opens (and prepares) two connections one after the other
    d = (case["delays"][hi] or (0.0 if case["convict"] else 0.1)) * k
    u = case["use_delay"]
    bounds = [0.0, d, d + u * k, d + u * k + u, d + u * k + 2 * u]

    def at(phase, f):
        return round(bounds[phase] + f * (bounds[phase + 1] - bounds[phase]), 3)
    t_use = round(at(r["change_phase"], r["change_f"]) - u, 3)
    t_sd = at(r["shutdown_phase"], r["shutdown_f"])
    trigger = [["leave", hi], ["join", hi]] if r["trigger"] == "rejoin" else \
        [["node_down", hi], ["node_up", hi], ["status", "UP", hi]]
    use = ["use", r["si"], r["ks"], r["via"]]
    tail = []
    if t_use < 0:
        tail += [use, ["advance", -t_use]] + trigger
        now = 0.0
    else:
        tail += trigger
        now = 0.0
        if t_use < t_sd:
            if t_use > 0:
                tail.append(["advance", t_use])
            tail.append(use)
            now = t_use
    if t_sd > now:
        tail.append(["advance", round(t_sd - now, 3)])
    if 0 <= t_use and t_use >= t_sd:
        case["after"] = ([["advance", round(t_use - t_sd, 3)]] if t_use > t_sd else []) + [use] + case["after"]
    case["events"] = case["events"] + tail
    return case


def interpret(case, ctx):
    sim = S.Sim(tape=case["tape"], granularity=case["gran"], max_steps=25000)
    try:
        with sim:
            _run(case, ctx, sim)
    except S.StepBudgetExceeded:
        ctx.stats.inconclusive += 1
        ctx.label("inconclusive:step-budget")


def _run(case, ctx, sim):
    from cassandra.cluster import EXEC_PROFILE_DEFAULT, ExecutionProfile
    from cassandra.policies import ConstantReconnectionPolicy
    net = sim.net
    world = sim.world
    n = case["hosts"]
    addrs = [S.addr(i) for i in range(n)]
    hold = {"on": False}

    use_delay = case.get("use_delay") or 0.0
    uses = []       # [connection, virtual time at which the node answers, number of USE requests seen on it so far]

    def on_request(node, conn, req):
        if conn.is_control_connection:
            return S.legacy_system_tables(node, conn, req)
        if req["op"] == "QUERY" and req.get("query", "").startswith("SELECT held"):
            return ("hold",)
        if req["op"] == "QUERY" and req.get("query", "").strip().upper().startswith("USE "):
            uses.append([conn, world.now + use_delay, 1 + sum(1 for u in uses if u[0] is conn)])
            if use_delay:
                # the node answers (the default way) use_delay virtual seconds later
                world.call_at(world.now + use_delay, lambda: node.default(conn, req), "use-reply")
                return ("drop",)
        return None

    for i, a in enumerate(addrs):
        nd = net.add_node(a)
        nd.on_request = on_request
        # (with a never-convicting policy HostConnection._replace retries a refused connection at once: an instantly
        # refused connect would spin the executor without virtual time passing, so a refusal takes 0.1 s there)
        nd.connect_delay = case["delays"][i] or (0.0 if case["convict"] else 0.1)
    starts = []     # (time, address, name of the virtual thread that opens the connection)
    Base = net.connection_class()

    class LoggedConnection(Base):
        def __init__(self, *a, **k):
            cur = world.current
            rec = [world.now, None, cur.name if cur is not None else "main", None, cur.id if cur is not None else 0]
            starts.append(rec)
            try:
                Base.__init__(self, *a, **k)
            finally:
                rec[1] = self.endpoint.address if getattr(self, "endpoint", None) is not None else None
                rec[3] = self
    if case.get("orphan_threshold"):
        # (documented class attribute: streams whose request timed out on the client are orphaned; at the threshold the
        # pool replaces the connection and parks the old one until its remaining requests drain)
        LoggedConnection.orphaned_threshold = case["orphan_threshold"]
    orderly = bool(case.get("orderly"))
    policy = S.plan_policy()
    prof = ExecutionProfile(load_balancing_policy=policy, request_timeout=2.0)
    kw = {}
    if not case["convict"]:
        kw["conviction_policy_factory"] = S.never_convict_factory()
    cluster = sim.make_cluster(addrs[:1], protocol_version=case["pv"], execution_profiles={EXEC_PROFILE_DEFAULT: prof},
                               reconnection_policy=ConstantReconnectionPolicy(1.0, max_attempts=None),
                               connection_class=LoggedConnection, **kw)
    S.deterministic_sessions(cluster)
    S.deterministic_futures(sim)
    S.fixed_random(sim, [0.0])

    sessions = []
    connects = []

    def do_connect():
        s = cluster.connect(case.get("keyspace"))
        sessions.append(s)
        return s

    connects.append(sim.spawn(do_connect))
    if case["settle_connect"]:
        sim.advance(3.0)
    qn = [0]
    futures = []

    def run_query(si, a, held, text=None):
        if not sessions:
            return
        s = sessions[si % len(sessions)]
        policy.order = [a]
        qn[0] += 1
        q = text or ("SELECT held FROM t /*%d*/" if held else "SELECT k FROM t /*%d*/") % qn[0]
        try:
            futures.append(sim.call(s.execute_async, q))
        except S.StepBudgetExceeded:
            raise
        except Exception as e:  # noqa
            ctx.label("execute_async-raised:" + type(e).__name__)
        policy.order = None

    def apply(ev):
        kind = ev[0]
        if kind == "advance":
            sim.advance(ev[1])
        elif kind == "conn_fail":
            a = addrs[ev[1] % n]
            if sessions:
                s = sessions[ev[2] % len(sessions)]
                conns = [c for c in S.pool_connections(s, a) if not c.is_closed]
                for c in conns:
                    net.server_close(c, eof=orderly)
                sim.settle()
                if conns:
                    run_query(ev[2], a, False)
        elif kind == "node_down":
            node = net.nodes[addrs[ev[1] % n]]
            node.up = False
            for c in list(net.conns):
                if c.node is node and not c.is_closed and not c.srv_closed:
                    net.server_close(c, eof=orderly)
        elif kind == "node_up":
            net.nodes[addrs[ev[1] % n]].up = True
        elif kind == "status":
            cn = S.control_node(net)
            if cn is not None:
                cn.push_event({"type": "STATUS_CHANGE", "change": ev[1], "address": addrs[ev[2] % n]})
        elif kind in ("leave", "join"):
            cn = S.control_node(net)
            a = addrs[ev[1] % n]
            if cn is not None and cn.address != a:
                if kind == "leave":
                    net.removed.add(a)
                else:
                    net.removed.discard(a)
                cn.push_event({"type": "TOPOLOGY_CHANGE", "change": "REMOVED_NODE" if kind == "leave" else "NEW_NODE",
                               "address": a})
        elif kind == "connect2":
            if len(connects) < 2:
                connects.append(sim.spawn(do_connect))
        elif kind == "query":
            run_query(0, addrs[ev[1] % n], ev[2])
        elif kind == "use":
            # what Session.set_keyspace() sends (without blocking this thread on the answer): when the node's answer
            # arrives the session's keyspace changes and every pool re-selects it on its connections
            run_query(ev[1], addrs[ev[3] % n], False, text="USE %s" % ev[2])
        elif kind == "die_now":
            # the peer closes a pool connection that has a request in flight; nothing runs before the next event (or
            # the shutdown): the pool's reaction (host down / replacement task) is still queued at that moment
            a = addrs[ev[1] % n]
            conns = [c for c in (S.pool_connections(sessions[0], a) if sessions else []) if not c.is_closed]
            if conns:
                run_query(0, a, True)
                sim.settle()
                for c in conns:
                    net.server_close(c, eof=orderly)
            ctx.label("ev:die_now")
            return
        sim.settle()
        ctx.label("ev:" + kind)

    for ev in case["events"]:
        apply(ev)

    # ---- shutdown, as another client thread
    def in_progress():
        return [r for r in starts if r[3] is None or (not r[3].is_closed and not r[3].connected_event.is_set())]
    def selecting():
        """start records of open connections that are not (yet) part of any session's pool -- a pool under construction,
        a replacement connection -- and have an unanswered USE: [record, number of USEs sent on it]"""
        out = []
        for u in uses:
            c = u[0]
            if u[1] <= world.now or c.is_closed or any(o[0][3] is c for o in out):
                continue
            if any(pc is c for s_ in sessions for pool in list(s_._pools.values()) for pc in pool.get_connections()):
                continue
            out.extend([r, u[2]] for r in starts if r[3] is c)
        return out
    target = case["shutdown"]
    if target == "session" and not sessions:
        target = "cluster"
    busy = in_progress()
    choosing = selecting()
    if any(u[1] > world.now and not u[0].is_closed for u in uses):
        ctx.label("cls:use-in-flight-at-shutdown")
    if choosing:
        ctx.label("cls:use-in-flight-on-uninstalled-connection-at-shutdown")
        for r, k in choosing:
            ctx.label("selecting:" + str(r[2]))
        if any(k >= 2 for r, k in choosing):
            ctx.label("cls:keyspace-catch-up-at-shutdown")
    ret = {}
    victim = sessions[0] if target == "session" else None
    for s_ in sessions:
        for pool in list(s_._pools.values()):
            if any(not c.is_closed for c in getattr(pool, "_trash", ())):
                ctx.label("cls:open-trashed-connection-at-shutdown")        # (class counter only)
    if any(c.orphaned_threshold_reached for c in net.conns):
        ctx.label("cls:orphaned-threshold-reached")

    def do_shutdown():
        (victim if victim is not None else cluster).shutdown()
        ret["t"] = world.now
        ret["starts"] = len(starts)
    t_call = world.now
    starts_at_call = len(starts)
    sd = sim.spawn(do_shutdown)
    sim.settle()
    for ev in case["after"]:
        apply(ev)
    sim.advance(12.0)
    sim.settle()
    ctx.label("shutdown:" + target, "in-progress=%d" % min(len(busy), 3), "pv=%d" % case["pv"])
    for r in busy:
        ctx.label("busy:" + str(r[2]))
    if case.get("race"):
        ctx.label("race:change-phase=%d" % case["race"]["change_phase"], "race:shutdown-phase=%d" % case["race"]["shutdown_phase"],
                  "race:" + case["race"]["trigger"])
    ctx.label("keyspace=%s" % ("yes" if case.get("keyspace") else "none"), "use_delay=%s" % (case.get("use_delay") or 0.0))
    ctx.nontrivial(bool(busy) or bool(choosing))

    def kind_of(c):
        """[who opened it, state of the session whose pool holds it] + phase text for the message"""
        opener, phase = "unknown", "unknown"
        for r in starts:
            if r[3] is c:
                opener = str(r[2])
                phase = ("in progress when shutdown was called" if any(b is r for b in busy) else
                         "selecting its keyspace, not yet part of a pool, when shutdown was called"
                         if any(x[0] is r for x in choosing) else
                         "opened before shutdown was called" if r[0] < t_call else "started after shutdown was called")
        owner = "no-owner"
        seen = []
        for s in list(tuple(cluster.sessions)) + sessions:
            if any(s is x for x in seen):
                continue
            seen.append(s)
            for pool in list(s._pools.values()):
                if any(pc is c for pc in pool.get_connections()):
                    owner = ("session-shut-down" if s.is_shutdown else "session-never-shut-down") + \
                        ("" if s in cluster.sessions else "-unregistered")
        return [opener, owner], phase

    def still_connecting(c):
        return any(r[3] is None for r in starts) and not any(r[3] is c for r in starts)

    if not sd.done:
        ctx.fail(["C45.shutdown-hangs", target], "%s.shutdown() has not returned 12 virtual seconds after it was called "
                 "(attempts in progress at the call: %r)" % (target, [(r[1], r[2]) for r in busy]))
        return
    if "exc" in sd.box:
        e = sd.box["exc"]
        ctx.fail(["C45.shutdown", target, "raises", type(e).__name__], "%s.shutdown() raised %r" % (target, e))
        return

    def refused(session, what):
        """a request issued now fails promptly: raises, or its future has an error before any time passes"""
        t = world.now
        try:
            f = sim.call(session.execute_async, "SELECT k FROM after_shutdown")
        except S.StepBudgetExceeded:
            raise
        except Exception as e:  # noqa
            ctx.label("after-shutdown:raises:" + type(e).__name__)
            return
        sim.settle()
        if not f._event.is_set():
            sim.advance(5.0)
            ctx.fail(["C45.request-pending", what, "done-later" if f._event.is_set() else "never-done"],
                     "a request issued after %s.shutdown() returned was accepted and left pending (complete after "
                     "5 more seconds: %r)" % (what, f._event.is_set()))
        elif f._final_exception is None:
            ctx.fail(["C45.request-accepted", what], "a request issued after %s.shutdown() returned succeeded" % what)
        else:
            ctx.label("after-shutdown:error:" + type(f._final_exception).__name__)
        if world.now != t and f._event.is_set():
            pass

    if target == "session":
        # ---- everything the session opened is closed; the rest of the cluster lives on
        allowed = set()
        for s in tuple(cluster.sessions):
            if s is victim or s.is_shutdown:
                continue
            for pool in list(s._pools.values()):
                if not pool.is_shutdown:
                    for c in pool.get_connections():
                        allowed.add(id(c))
        for c in cluster.control_connection.get_connections():
            allowed.add(id(c))
        for pool in list(victim._pools.values()):
            for c in pool.get_connections():
                if c is not None and not c.is_closed and not ctx._failures:
                    feats, phase = kind_of(c)
                    ctx.fail(["C45.leak", "session"] + feats,
                             "12 s after Session.shutdown() returned the shut-down session has a pool with the open "
                             "connection %r (%s)" % (c, phase))
        for c in net.conns:
            if not c.is_closed and id(c) not in allowed and not still_connecting(c) and not ctx._failures:
                feats, phase = kind_of(c)
                ctx.fail(["C45.leak", "session"] + feats,
                         "12 s after Session.shutdown() returned %r is open and belongs neither to the control connection "
                         "nor to a live session's pool (%s)" % (c, phase))
        if not ctx._failures and len(connects) == 1:
            # the only session there ever was is shut down (no second connect()): nobody may open pool connections any more
            pool_tasks = ("task:run_add_or_renew_pool", "task:_replace", "task:_retrying_replace", "task:_create_new_connection")
            later = [r for r in starts[ret.get("starts", len(starts)):] if r[2] in pool_tasks]
            if later:
                running = any(r[4] == later[0][4] for r in starts[:ret.get("starts", len(starts))])
                ctx.fail(["C45.connect-after-shutdown", "session", str(later[0][2]),
                          "task-already-connecting" if running else "new-task"],
                         "pool connection attempts were started after Session.shutdown() of the only session had returned: %r" % (
                             [(round(r[0] - ret["t"], 2), r[1], r[2]) for r in later],))
        if not ctx._failures:
            refused(victim, "session")
        # finally the cluster
        ret.clear()
        victim = None
        target = "cluster"
        t_call = world.now
        busy = in_progress()
        choosing = selecting()
        starts_at_call = len(starts)
        sd = sim.spawn(do_shutdown)
        sim.settle()
        sim.advance(12.0)
        if not sd.done:
            ctx.fail(["C45.shutdown-hangs", "cluster-after-session"], "Cluster.shutdown() after Session.shutdown() did not return")
            return
    if ctx._failures:
        return

    # ---- after Cluster.shutdown(): every socket closed, nothing new started, no work accepted
    for c in net.conns:
        if not c.is_closed:
            feats, phase = kind_of(c)
            ctx.fail(["C45.leak", "cluster"] + feats,
                     "12 s after Cluster.shutdown() returned %r is still open (%s; %s)" % (
                         c, "control connection" if c.is_control_connection else "not a control connection", phase))
            break
    later = starts[ret.get("starts", len(starts)):]
    if later:
        running = any(r[4] == later[0][4] for r in starts[:ret.get("starts", len(starts))])
        ctx.fail(["C45.connect-after-shutdown", "cluster", str(later[0][2]), "task-already-connecting" if running else "new-task"],
                 "connection attempts were started after Cluster.shutdown() had returned (+%.2f s): %r" % (
                     ret["t"] - t_call, [(round(r[0] - ret["t"], 2), r[1], r[2]) for r in later]))
    if ctx._failures:
        return
    for s in sessions[:1]:
        refused(s, "cluster")
    before = len(starts)
    try:
        sim.call(cluster.connect)
        ctx.fail(["C45.connect-accepted"], "Cluster.connect() succeeded after shutdown")
    except S.Deadlock:
        ctx.fail(["C45.connect-hangs"], "Cluster.connect() after shutdown never returned")
    except S.StepBudgetExceeded:
        raise
    except Exception as e:  # noqa -- documented: DriverException("Cluster is already shut down")
        ctx.label("connect-after-shutdown:" + type(e).__name__)
    ran = []
    with ctx.driver(["C45.scheduler", "schedule"]):
        cluster.scheduler.schedule(0, ran.append, 1)
    try:
        cluster.executor.submit(ran.append, 2)
        sim.settle()
    except RuntimeError:
        pass
    sim.advance(1.0)
    if ran:
        ctx.fail(["C45.work-accepted", "scheduler" if 1 in ran else "executor"],
                 "work handed to the %s after shutdown was executed" % ("scheduler" if 1 in ran else "executor"))
    if len(starts) != before:
        ctx.fail(["C45.connect-after-shutdown", "connect()"], "connect() after shutdown opened connections")
    for c in net.conns:
        if not c.is_closed and not ctx._failures:
            ctx.fail(["C45.leak", "cluster", "after-refused-work"] + kind_of(c)[0], "%r is open at the very end" % (c,))
    for name, e in world.actor_errors:
        ctx.fail(["C45.thread-error", type(e).__name__], "virtual thread %s died with %r" % (name, e))
        break


def parts(tier):
    return [
        hyp_part("blocking", lambda: s_case("blocking"), interpret, tier, quick=300, thorough=1200,
                 quick_shards=6, thorough_shards=12),
        hyp_part("locks", lambda: s_case("locks"), interpret, tier, quick=120, thorough=400,
                 quick_shards=2, thorough_shards=4),
    ]
