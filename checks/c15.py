"""C15 -- requests with a timeout always finish in bounded time (first page and later pages)."""
import os

from hypothesis import strategies as st

from checks import _simfut as F
from checks import _simutil as U
from sim import wire
from vlib.harness import hyp_part

SERIAL = os.environ.get("VERIF_TIER") == "quick"   # heavily loaded machine: forked pool is slower than one process
PID = "C15"
TITLE = "Requests with a timeout always finish in bounded time"
LEVEL = "exploration"
ENGINE = "sim"
TECHNIQUE = ("model-based generation of server behaviours (Hypothesis) over the real Session/ResponseFuture/ResultSet on a "
             "deterministic simulated network with a virtual clock; deadline oracle on the virtual clock; server answers "
             "can be scheduled into the same event-loop iteration as the client-timeout timer")
RULE = ("A case is a history: 1-3 fake nodes (optionally with every stream id taken = busy pool), a finite request timeout "
        "(via the execution profile or the execute_async argument), 0-2 speculative executions, a scripted retry policy, a "
        "simple or a prepared (bound) statement and, "
        "per page of a 1-3 page result, the behaviour of the server for each successive attempt: silent, answer after the "
        "deadline, answer at once / after a fraction of the timeout / AT THE DEADLINE INSTANT (the answer is handed to the "
        "event loop in the same iteration as, and just before, the due client-timeout timer; executor threads run after "
        "both), one of 7 retryable errors, close the connection; for a prepared statement also UNPREPARED (at once, after "
        "half the timeout, at the deadline instant) with the driver's re-PREPARE then answered with the id (same three "
        "timings), not at all, after the deadline, by an error or by closing the connection, the re-sent EXECUTE meeting "
        "the rest of the script.  Later pages are "
        "fetched after a generated pause through ResponseFuture.start_fetching_next_page, ResultSet.fetch_next_page or "
        "iteration from a client thread; a later-page fetch that FAILED (error, connection loss, timeout) is tried again "
        "0-2 times, each try a request of its own.  Oracle: on the virtual clock, timeout + 0.045 s (the driver's own 3 x 0.01 s re-arm "
        "slack) after each (page) request started the future has an outcome; an OperationTimedOut is never delivered before "
        "the timeout has elapsed since that (page) request started.  Non-trivial: at least one attempt (EXECUTE/QUERY or "
        "re-PREPARE) met a silent or late server, or an answer was really delivered at the deadline instant of the request "
        "still in flight.  Distinct by case digest.")
ASSUMPTIONS = ["network, clock, executor and event loop are simulated (sim/); Cluster, Session, pools, connections, "
               "ResponseFuture, ResultSet and policies are the real classes",
               "query plans are finite (fixed plan over the 1-3 nodes)",
               "pre-emption only at blocking operations (part blocking) / additionally at every lock operation and clock read (part locks)",
               "bounded time is measured on the virtual clock the future itself reads",
               "the check replaces the simulated connection class's create_timer for the client-timeout timer of the request "
               "under test only (same Timer object and firing time); it exists to release deadline-instant answers first, "
               "which is the order a reactor iteration has (read sockets, then service timers)",
               "a deadline-instant answer is sent only if no outcome has been delivered since it was scheduled (it belongs "
               "to the request still in flight); the fake node answers UNPREPARED only to EXECUTE of the prepared id and "
               "returns that same id from the re-PREPARE"]

EPS = 0.045
TIMEOUTS = [0.05, 0.2, 1.0, 3.0]


def _s_case(gran, bound):
    errs = st.tuples(st.just("err"), st.sampled_from(sorted(F.ERRORS))).map(list)
    base = [
        st.just(["silent"]), st.just(["silent"]),
        st.tuples(st.just("late"), st.sampled_from([0.01, 0.1, 1.0])).map(list),
        # answered at once / after a fraction of the timeout / at the very instant the client timeout is due (the event
        # loop reads the answer, then runs the timer, before any executor thread gets to run)
        st.tuples(st.just("rows"), st.sampled_from([0.0, 0.0, 0.5, 0.9, "deadline"])).map(list),
        errs,
        st.just(["close"]),
    ]
    # prepared statement only: the node has forgotten the statement (UNPREPARED) and the driver's re-PREPARE is answered
    # with the id (at once / after half the timeout / at the deadline instant), not at all, late, by an error or by a close
    prep = st.one_of(st.just(["ok", 0.0]), st.just(["ok", 0.0]), st.just(["ok", 0.5]),
                     st.just(["ok", "deadline"]), st.just(["ok", "deadline"]),
                     st.just(["silent"]), st.tuples(st.just("late"), st.sampled_from([0.01, 1.0])).map(list),
                     st.just(["close"]), errs)
    unprep = st.tuples(st.just("unprep"), st.sampled_from([0.0, 0.0, 0.5, "deadline"]), prep).map(list)
    action = st.one_of(*(base + ([unprep, unprep] if bound else [])))
    dec = st.tuples(st.sampled_from(["retry", "retry", "next_host", "next_host", "rethrow", "ignore"]),
                    st.sampled_from([None, "ONE", "QUORUM"])).map(list)
    # a page script: what the server does with the 1st, 2nd, ... attempt for this page (then silent)
    page = st.lists(action, min_size=0, max_size=3)
    good_page = st.tuples(st.lists(errs, max_size=1),
                          st.just([["rows", 0.0]])).map(lambda t: t[0] + t[1])
    failing = st.one_of(errs, st.just(["close"]), st.just(["silent"]))
    # a later page whose fetch fails (error the policy rethrows once its script is used up / connection loss /
    # timeout) and whose retried fetch meets a silent or late server
    failing_page = st.tuples(failing, st.lists(action, max_size=1)).map(lambda t: [t[0]] + t[1])
    options = [
        st.tuples(good_page, failing_page).map(list),
        st.tuples(good_page, good_page, failing_page).map(list),
        st.lists(page, min_size=1, max_size=1),
        st.tuples(good_page, page).map(list),
        st.tuples(good_page, good_page, page).map(list),
        st.lists(page, min_size=1, max_size=3),
    ]
    if bound:
        # a page whose first attempt is answered UNPREPARED; what follows the re-prepare is generated as usual
        reprep_page = st.tuples(unprep, st.lists(action, max_size=2)).map(lambda t: [t[0]] + t[1])
        options += [st.tuples(reprep_page).map(list), st.tuples(good_page, reprep_page).map(list)]
    pages = st.one_of(*options)
    return st.fixed_dictionaries({
        "stmt": st.just("bound" if bound else "simple"),
        "warm": st.sampled_from([0, 0, 1, 2, 3, 5, 7, 9, 10, 11]),
        "hosts": st.integers(1, 3),
        "busy": st.one_of(st.just([]), st.just([]), st.just([]), st.lists(st.booleans(), min_size=3, max_size=3)),
        "timeout": st.sampled_from(TIMEOUTS),
        "timeout_via": st.sampled_from(["profile", "arg"]),
        "spec": st.sampled_from([0, 0, 1, 2]),
        "spec_delay": st.sampled_from([0.0, 0.01, 0.1, 0.5]),
        "idempotent": st.booleans(),
        "decisions": st.lists(dec, max_size=4),
        "pages": pages,
        "gap": st.sampled_from([0.0, 0.5, 2.0]),
        "refetch": st.sampled_from([0, 1, 1, 2]),
        "access": st.sampled_from(["future", "manual", "iterate"]),
        "tape": st.lists(st.integers(0, 3), max_size=30 if gran == "locks" else 6),
        "gran": st.just(gran),
    })


def s_case(gran):
    return st.one_of(_s_case(gran, False), _s_case(gran, True))


def _show(ev):
    return "a result" if ev[1] == "ok" else "%s: %s" % (F.exc_name(ev[2]), str(ev[2])[:160])


def interpret(case, ctx):
    sim = U.Sim(tape=case["tape"], granularity=case["gran"])
    try:
        with sim:
            _run(case, ctx, sim)
    except U.StepBudgetExceeded:
        # the property promises termination on the virtual clock, but a step budget is a harness limit
        ctx.stats.inconclusive += 1
        ctx.label("inconclusive:step-budget")


def _run(case, ctx, sim):
    from cassandra import OperationTimedOut
    from cassandra.cluster import ExecutionProfile
    from cassandra.policies import ConstantSpeculativeExecutionPolicy
    from cassandra.query import SimpleStatement
    net = sim.net
    t = case["timeout"]
    n = case["hosts"]
    pages = case["pages"]
    rlog = []
    prof = ExecutionProfile(load_balancing_policy=U.fixed_plan_policy(),
                            retry_policy=U.scripted_retry_policy(case["decisions"], rlog),
                            request_timeout=t if case["timeout_via"] == "profile" else 7200.0,
                            speculative_execution_policy=ConstantSpeculativeExecutionPolicy(case["spec_delay"], case["spec"])
                            if case["spec"] else None)
    busy = [bool(b) for b in (case["busy"] + [False] * 3)[:n]]
    cap = 2
    warm = case.get("warm")
    # not busy: 12 stream ids per connection + 0-11 warm-up requests, so that the first attempt travels on
    # every stream id, 0 included (silent attempts keep their ids, hence more than a handful)
    mif = (cap + 1) if any(busy) else (12 if warm is not None else None)
    cluster, session, nodes = F.build(sim, n, prof, max_in_flight=mif)
    if not any(busy):
        with ctx.driver(["C15.warmup"]):
            F.warm_up(sim, session, cluster, nodes, warm or 0)
        if ctx._failures:
            return

    bound = case.get("stmt", "simple") == "bound"
    ps = None
    if bound:
        # prepared before the pools are made busy and before the scripted behaviour starts (default node: knows it)
        with ctx.driver(["C15.prepare"]):
            ps = sim.call(session.prepare, F.USER_Q)
            sim.settle()
        if ps is None:
            return
    qid = ps.query_id if bound else None

    pos = {}
    seen_pages = []
    met = {"silent": 0, "late": 0, "deadline": 0}
    outs = []
    box = {}
    reprep = {"unprepared": 0, "prepare": 0}
    prep_next = []
    # answers that arrive at the very instant the client timeout of the request under test is due: handed to the
    # event loop immediately before the timer (one loop iteration reads sockets, then services timers; executor
    # threads run afterwards).  [(outcomes delivered when the answer was scheduled, what, fn)]
    at_deadline = []
    deadline_ran = {"n": 0}

    # sim's create_timer, plus: the due client-timeout timer of the request under test first releases at_deadline
    cc = cluster.connection_class
    orig_create_timer = cc.create_timer

    def create_timer(timeout, callback):
        from cassandra.connection import Timer
        fn = getattr(callback, "func", callback)
        owner = getattr(fn, "__self__", None)
        if getattr(fn, "__name__", "") != "_on_timeout" or owner is None or owner is not box.get("fut_obj"):
            return orig_create_timer(timeout, callback)
        tm = Timer(timeout, callback)
        net.timers.append(tm)

        def fire():
            if not tm.canceled:
                todo, at_deadline[:] = list(at_deadline), []
                for n_ev, what, send in todo:
                    # only while the request the answer belongs to is still the one in flight
                    if outs and len(outs[0].events) == n_ev:
                        deadline_ran["n"] += 1
                        ctx.label("answer-at-deadline-instant:%s" % what)
                        send()
            net.loop_call(lambda: tm.finish(sim.world.now))
        sim.world.call_at(tm.end, fire, "conn-timer")
        return tm
    cc.create_timer = staticmethod(create_timer)

    def when_(when, what, send):
        """the node sends at once / after a fraction of the timeout / at the deadline instant"""
        if when == "deadline":
            met["deadline"] += 1
            at_deadline.append((len(outs[0].events) if outs else 0, what, send))
        elif when == 0.0:
            send()
        else:
            F.later(sim, t * when, send)

    def is_user(req):
        if bound:
            return req["op"] == "EXECUTE" and req.get("id") == qid
        return F.is_user(req)

    def answer_prepare(node, conn, req):
        reprep["prepare"] += 1
        p = prep_next.pop(0) if prep_next else ["ok", 0.0]
        ctx.label("re-prepare:%s" % (p[0] if p[0] != "ok" else "ok@%s" % p[1]))

        def send_prepared():
            if not conn.is_closed and not conn.srv_closed:
                node.reply(conn, req, "RESULT", wire.result_prepared(req["version"], qid, [], [], ()))
        if p[0] == "ok":
            when_(p[1], "PREPARED", send_prepared)
        elif p[0] == "silent":
            met["silent"] += 1
        elif p[0] == "late":
            met["late"] += 1
            F.later(sim, t + p[1], send_prepared)
        elif p[0] == "err":
            U.answer(node, conn, req, p[1])
        elif p[0] == "close":
            return ("close",)
        else:
            raise ValueError(p)
        return ("drop",)

    def rows_for(i):
        return [[10 * i + j, "p%dr%d" % (i, j)] for j in range(2)]

    def user(node, conn, req):
        if bound and box.get("armed") and req["op"] == "PREPARE" and req.get("query") == F.USER_Q \
                and not conn.is_control_connection:
            return answer_prepare(node, conn, req)
        if not is_user(req):
            return None
        ps = req.get("paging_state")
        i = 0 if ps is None else int(ps[2:].decode())
        if i not in seen_pages:
            seen_pages.append(i)
        k = pos.get(i, 0)
        pos[i] = k + 1
        script = pages[i] if i < len(pages) else []
        act = script[k] if k < len(script) else ["silent"]
        nxt = ("ps%d" % (i + 1)).encode() if i + 1 < len(pages) else None

        def send_rows():
            if not conn.is_closed and not conn.srv_closed:
                U.answer(node, conn, req, "rows", rows=rows_for(i), paging_state=nxt)
        if act[0] == "silent":
            met["silent"] += 1
            return ("drop",)
        if act[0] == "late":
            met["late"] += 1
            F.later(sim, t + act[1], send_rows)
            return ("drop",)
        if act[0] == "rows":
            when_(act[1], "rows", send_rows)
            return ("drop",)
        if act[0] == "unprep":
            reprep["unprepared"] += 1
            prep_next.append(act[2])

            def send_unprepared():
                if not conn.is_closed and not conn.srv_closed:
                    node.reply_error(conn, req, "unprepared", "unknown prepared statement", id=qid)
            when_(act[1], "UNPREPARED", send_unprepared)
            return ("drop",)
        if act[0] == "err":
            U.answer(node, conn, req, act[1])
            return ("drop",)
        if act[0] == "close":
            return ("close",)
        raise ValueError(act)

    for nd in nodes:
        nd.on_request = F.chain(F.hold_fillers, user)
    for nd, b in zip(nodes, busy):
        if b:
            F.make_busy(sim, session, cluster, nd, cap)

    if bound:
        stmt = ps.bind(())
        stmt.is_idempotent = case["idempotent"]
        stmt.fetch_size = 2
    else:
        stmt = SimpleStatement(F.USER_Q, is_idempotent=case["idempotent"], fetch_size=2)

    def on_create(fut):
        if fut.query is stmt:
            box["fut_obj"] = fut
            outs.append(F.Outcome(sim, fut))
    session.add_request_init_listener(on_create)
    box["armed"] = True
    kw = {"timeout": t} if case["timeout_via"] == "arg" else {}
    which = {"n": 0}
    mark = {"unprepared": 0, "ran": 0}

    def deadline_check(start, first):
        """advance to start+t+EPS; True when an outcome was delivered in the window"""
        out = outs[0]
        before = which["n"]
        # since the previous (page) request was judged
        unprep_before, ran_before = mark["unprepared"], mark["ran"]
        end = start + t + EPS
        if sim.world.now < end:
            sim.advance(end - sim.world.now)
        evs = out.events[before:]
        which["n"] = len(out.events)
        where = "first-page" if first else "later-page"
        feat = [where]
        if first and any(busy):
            feat.append("busy-pool")
            if case["spec"] and case["idempotent"]:
                feat.append("speculative")
                free = [i for i, b in enumerate(busy) if not b]
                if free and any(busy[free[0] + 1:]):
                    # an attempt went out to a free host; a speculative attempt then meets a busy pool
                    feat.append("later-host-busy")
        mark["unprepared"], mark["ran"] = reprep["unprepared"], deadline_ran["n"]
        if reprep["unprepared"] > unprep_before:
            feat.append("after-unprepared")
        if deadline_ran["n"] > ran_before:
            feat.append("answer-at-deadline-instant")
        if not evs:
            # diagnosis only: when (if ever) does it finish?
            sim.advance(10.0)
            more = out.events[before:]
            which["n"] = len(out.events)
            ctx.fail(["C15.unbounded"] + feat,
                     "%s request with timeout %s has no outcome %.3f s (virtual) after it started; %s; "
                     "servers saw pages %r, attempts per page %r" % (
                         where, t, end - start,
                         ("it finished after %.3f s with %s" % (more[0][0] - start, _show(more[0]))) if more
                         else "still unfinished 10 s later", seen_pages, pos))
            return None
        T, kind, val = evs[0]
        if T > end + 1e-6:
            ctx.fail(["C15.unbounded"] + feat,
                     "%s request with timeout %s finished only %.3f s after it started (%s); servers saw pages %r, "
                     "attempts per page %r" % (where, t, T - start, _show(evs[0]), seen_pages, pos))
            return None
        if kind == "err" and isinstance(val, OperationTimedOut) and T - start < t - 1e-6 and not any(busy):
            ctx.fail(["C15.early", where],
                     "OperationTimedOut delivered %.3f s after the %s request started although the timeout is %s: %s" % (
                         T - start, where, t, val))
        if len(evs) > 1:
            ctx.label("several-outcomes-in-window")
        ctx.label("outcome:%s:%s" % (where, "result" if kind == "ok" else F.exc_name(val)))
        return (kind, val)

    fut_box = {}
    refetched = {"n": 0}

    def outs_fut():
        return fut_box.get("fut")

    start = sim.world.now
    with ctx.driver(["C15.execute_async"]):
        fut_box["fut"] = sim.call(session.execute_async, stmt, **kw)
    fut = fut_box.get("fut")
    if fut is None or not outs:
        return
    res = deadline_check(start, True)
    page = 0
    later_silent = False
    if res is not None and res[0] == "ok" and case["access"] == "iterate" and len(pages) > 1:
        rs = sim.call(fut.result)
        got = []

        def consume():
            for r in rs:
                got.append(r)
        sim.advance(case["gap"] * t)
        # progress = page fetches started (not distinct pages: a stale answer can make the driver ask for
        # the same page again, which is C18's business, not a missing deadline)
        fetches = {"n": 0}
        orig_fetch = fut.start_fetching_next_page

        def counting_fetch():
            fetches["n"] += 1
            return orig_fetch()
        fut.start_fetching_next_page = counting_fetch
        base_events = len(outs[0].events)
        actor = sim.spawn(consume)
        sim.settle()
        for _w in range(2 * len(pages) + 4):
            if actor.done:
                break
            # a page fetch that was already outstanding when the window began must have its outcome when it ends
            # (outcomes are counted on the future: the client thread itself may sit in pool.borrow_connection for
            # 2 s per busy host although the outcome exists)
            done_before = len(outs[0].events) - base_events
            outstanding = fetches["n"] - done_before
            sim.advance(t + EPS)
            if actor.done:
                break
            if outstanding > 0 and len(outs[0].events) - base_events == done_before:
                ctx.fail(["C15.unbounded", "later-page"],
                         "iteration from a client thread made no progress within timeout %s + %.3f: the fetch of page %d "
                         "has no outcome (attempts per page %r)" % (t, EPS, max(seen_pages), pos))
                later_silent = True
                break
        if not actor.done and not later_silent:
            # every fetch had its outcome in time; the client thread can only still be waiting for stream ids
            sim.advance(2.0 * n * (2 * len(pages) + 4) + 1.0)
            if not actor.done:
                ctx.fail(["C15.unbounded", "later-page", "client-thread-never-returns"],
                         "every page fetch got its outcome but the iterating client thread never returned "
                         "(fetches %d, outcomes %d)" % (fetches["n"], len(outs[0].events) - base_events))
        if actor.done:
            ctx.label("iterate:finished:%s" % ("error" if "exc" in actor.box else "rows"))
    else:
        rs = None
        refetch_left = case.get("refetch", 0)
        while res is not None and fut.has_more_pages:
            if res[0] == "ok":
                if page + 1 >= len(pages):
                    break
                page += 1
            else:
                # the fetch of a later page FAILED (server error rethrown, connection lost, timed out): the
                # paging state of the last delivered page is still there and the application tries the fetch
                # again -- a request of its own, with the full timeout
                if page == 0 or refetch_left <= 0:
                    break
                refetch_left -= 1
                refetched["n"] += 1
            sim.advance(case["gap"] * t)
            start = sim.world.now
            if case["access"] == "manual":
                if rs is None:
                    rs = sim.call(fut.result)
                sim.spawn(rs.fetch_next_page)
                sim.settle()
            else:
                with ctx.driver(["C15.start_fetching_next_page"]):
                    sim.call(fut.start_fetching_next_page)
            res = deadline_check(start, False)
    ctx.label("pages=%d" % len(pages), "access=%s" % case["access"], "spec=%d" % case["spec"],
              "timeout=%s" % t, "busy" if any(busy) else "not-busy", "stmt=%s" % ("bound" if bound else "simple"))
    if reprep["unprepared"]:
        ctx.label("unprepared-answered")
    if reprep["prepare"]:
        ctx.label("re-prepare-sent")
    if len(seen_pages) > 1:
        ctx.label("reached-later-page")
        if any(pos.get(i, 0) > len(pages[i]) or any(a[0] in ("silent", "late") for a in pages[i][:pos.get(i, 0)])
               for i in seen_pages if i > 0 and i < len(pages)):
            ctx.label("later-page-silent-or-late")
    if rlog:
        ctx.label("retry-consulted")
    if refetched["n"]:
        ctx.label("refetch-after-failed-fetch")
    ctx.nontrivial(met["silent"] + met["late"] + deadline_ran["n"] >= 1)


def parts(tier):
    return [
        hyp_part("blocking", lambda: s_case("blocking"), interpret, tier, quick=110, thorough=1500,
                 quick_shards=6, thorough_shards=12),
        hyp_part("locks", lambda: s_case("locks"), interpret, tier, quick=40, thorough=600,
                 quick_shards=2, thorough_shards=4),
    ]
