"""C39, compiled half: decode the same RESULT body through the Cython row parsers of a freshly built copy
of the tree under test (build/cybuild.py, .pyx build) in a worker process.

    python -m checks._c39_cy --worker <root>         JSON lines on stdin/stdout

checks/c39.py appends ``decode_list`` / ``decode_lazy`` to its DECODERS.  A request carries the case's
columns (names, types, which are encrypted, their keys), the reader's IV, the protocol version, how the
metadata travels and the RESULT body; the worker builds the AES256ColumnEncryptionPolicy and the prepared
statement's result metadata exactly as checks/c39.py does (it imports those helpers), decodes with
``cython_protocol_handler(ListParser() | LazyParser())`` carrying the policy, and answers with the rows
normalised by spec.values.normalise (None stays None) -- driver objects cannot cross the pipe.
The worker is a pure function of the request.
"""
from __future__ import annotations

import json
import os
import subprocess
import sys
import traceback

HOME = os.environ.get("VERIF_HOME") or os.path.dirname(os.path.dirname(os.path.abspath(__file__)))


class Normalised(object):
    """a decoded cell that is already a spec.values tagged value (checks/c39._compare_rows unwraps it)"""
    __slots__ = ("value", "problem")

    def __init__(self, value, problem=None):
        self.value, self.problem = value, problem

    def __repr__(self):
        return "Normalised(%r)" % (self.problem or self.value,)


class CompiledWorkerDied(Exception):
    pass


# ----------------------------------------------------------------------------------------------------
# worker side
# ----------------------------------------------------------------------------------------------------

_HANDLERS = {}


def _handler(which, policy):
    from cassandra import protocol as P
    if which not in _HANDLERS:
        from cassandra.obj_parser import LazyParser, ListParser
        _HANDLERS[which] = P.cython_protocol_handler(ListParser() if which == "list" else LazyParser())
    # what Session.__init__ does with cluster.column_encryption_policy
    return type("C39-CythonProtocolHandler", (_HANDLERS[which],), {"column_encryption_policy": policy})


def _serve(req):
    from checks import c39
    from checks._drv import from_driver
    from spec import values as V
    case = req["case"]
    policy = c39._policy(case, case["iv2"])
    result_metadata = [tuple(m) for m in c39._driver_meta(case)] if case["meta"] == "no-metadata" else None
    try:
        msg = _handler(req["parser"], policy).decode_message(case["pv"], {}, 0, 0, 0x08, bytes.fromhex(req["body"]),
                                                             None, result_metadata)
        rows = [tuple(r) for r in msg.parsed_rows]          # LazyParser: materialise
    except Exception as e:
        return {"exc": [type(e).__name__, str(e)[:300]]}
    out = []
    for row in rows:
        cells = []
        for c, g in zip(case["cols"], row):
            if g is None:
                cells.append(None)
                continue
            try:
                cells.append({"v": from_driver(V.T(c["type"]), g)})
            except V.NormaliseError as e:
                cells.append({"bad": "unnormalisable %r (%s)" % (g, e)})
        if len(row) != len(case["cols"]):
            cells.extend([{"bad": "extra cell"}] * (len(row) - len(cells)))
        out.append(cells)
    return {"rows": out}


def _worker_main(root):
    out = os.fdopen(os.dup(1), "w")
    os.dup2(2, 1)
    sys.stdout = sys.stderr
    hello = {"hello": False}
    try:
        import logging
        lg = logging.getLogger("cassandra")
        lg.addHandler(logging.NullHandler())
        lg.propagate = False
        import cassandra
        from cassandra import cython_deps, obj_parser, row_parser, deserializers  # noqa
        hello = {"hello": True, "file": os.path.realpath(cassandra.__file__), "have_cython": cython_deps.HAVE_CYTHON,
                 "so": all(m.__file__.endswith(".so") for m in (obj_parser, row_parser, deserializers))}
    except BaseException:
        hello["error"] = traceback.format_exc()
    out.write(json.dumps(hello) + "\n")
    out.flush()
    if not hello["hello"]:
        return 3
    for line in sys.stdin:
        line = line.strip()
        if not line:
            continue
        try:
            res = {"ok": _serve(json.loads(line))}
        except BaseException:
            res = {"error": traceback.format_exc()}
        out.write(json.dumps(res) + "\n")
        out.flush()
    return 0


# ----------------------------------------------------------------------------------------------------
# Hypothesis side
# ----------------------------------------------------------------------------------------------------

class _Worker(object):
    def __init__(self):
        from build import cybuild
        from vlib.harness import HarnessError
        self.root = cybuild.ensure("pyx")["pyx"]
        env = dict(os.environ)
        deps = os.path.join(HOME, ".deps")
        env["PYTHONPATH"] = os.pathsep.join([self.root, HOME, os.path.join(HOME, "shims")] + ([deps] if os.path.isdir(deps) else []))
        env.update(PYTHONHASHSEED="0", TZ="UTC", PYTHONDONTWRITEBYTECODE="1")
        self.proc = subprocess.Popen([sys.executable, "-W", "ignore", "-m", "checks._c39_cy", "--worker", self.root],
                                     stdin=subprocess.PIPE, stdout=subprocess.PIPE, stderr=subprocess.DEVNULL,
                                     env=env, cwd=HOME, text=True, bufsize=1)
        line = self.proc.stdout.readline()
        try:
            hello = json.loads(line)
        except ValueError:
            hello = {"hello": False, "error": "no hello line: %r" % line[:200]}
        if not hello.get("hello"):
            raise HarnessError("C39 compiled-tree worker failed to start: %s" % hello.get("error"))
        want = os.path.realpath(os.path.join(self.root, "cassandra"))
        if os.path.dirname(hello["file"]) != want or not hello["have_cython"] or not hello["so"]:
            raise HarnessError("C39 worker is not running the compiled copy %s: %r" % (want, hello))

    def call(self, req):
        from vlib.harness import HarnessError
        try:
            self.proc.stdin.write(json.dumps(req) + "\n")
            self.proc.stdin.flush()
            line = self.proc.stdout.readline()
        except (BrokenPipeError, OSError):
            line = ""
        if not line:
            rc = self.proc.wait()
            raise CompiledWorkerDied("the compiled decoder killed its process (rc=%s)" % rc)
        res = json.loads(line)
        if "error" in res:
            raise HarnessError("C39 worker-side harness error:\n%s" % res["error"])
        return res["ok"]


_WORKERS = {}


def _worker():
    key = os.getpid()
    w = _WORKERS.get(key)
    if w is None or w.proc.poll() is not None:
        w = _WORKERS[key] = _Worker()
    return w


def prepare():
    """build (or restore from the cache) once, in the ./run parent, before shard workers are forked"""
    from build import cybuild
    cybuild.ensure("pyx")


def _decode(parser, case, body, policy, result_metadata):
    # `policy` / `result_metadata` are rebuilt from the case inside the worker (same helpers, compiled tree)
    slim = {"pv": case["pv"], "cols": case["cols"], "iv2": case["iv2"], "meta": case["meta"]}
    res = _worker().call({"parser": parser, "case": slim, "body": body.hex()})
    if "exc" in res:
        # surface the compiled decoder's exception under its own class name (ctx.driver keys on it)
        raise type(str(res["exc"][0]), (Exception,), {})(res["exc"][1])
    rows = []
    for cells in res["rows"]:
        rows.append(tuple(None if c is None else
                          (Normalised(c["v"]) if "v" in c else Normalised(None, c["bad"])) for c in cells))
    return rows


def decode_list(case, body, policy, result_metadata):
    return _decode("list", case, body, policy, result_metadata)


def decode_lazy(case, body, policy, result_metadata):
    return _decode("lazy", case, body, policy, result_metadata)


if __name__ == "__main__":
    if len(sys.argv) >= 3 and sys.argv[1] == "--worker":
        sys.exit(_worker_main(sys.argv[2]))
    sys.exit(2)
