"""Shared helpers for C26 / C22 / C21: real Host / Metadata / TokenMap objects from a JSON ring description.

Ring description (plain JSON data, part of a case)::

    {"partitioner": "murmur3" | "random" | "bytes",
     "hosts": [{"dc": "dc0", "rack": "r0",
                "tokens": [int, ...]            # decimal tokens (murmur3/random); hex strings for "bytes"
                "up": true | false | null}],    # optional (Host.is_up), default true
     "keyspaces": {"ks0": {"class": "SimpleStrategy", "replication_factor": "2"},
                   "ks1": {"class": "NetworkTopologyStrategy", "dc0": "3", "dc1": "3/1"}}}
                   # or a list of option dicts -> named ks0, ks1, ...

API
---
PARTITIONERS                      short name -> class name as the server reports it
address(i)                        "10.0.0.<i+1>" -- the address of host index i
make_host(i, dc, rack, up=True)   cassandra.pool.Host (DefaultEndPoint(address(i)), SimpleConvictionPolicy, host_id)
build(desc) -> Ring               builds everything the way the control connection does:
                                  Metadata.add_or_return_host, KeyspaceMetadata(name, True, strategy_class, options)
                                  into Metadata.keyspaces, Metadata.rebuild_token_map(partitioner, {host: [token strings]})
Ring.hosts                        list of Host by index
Ring.metadata                     cassandra.metadata.Metadata
Ring.cluster                      FakeCluster(metadata, contact point endpoints) -- what policies' populate() reads
Ring.index(host)                  host index of a Host object (by identity, else by endpoint); KeyError if foreign
Ring.ref_ring                     [(token_value, host_index)] sorted -- input of spec.placement
Ring.topology                     {host_index: (dc, rack)}
Ring.keyspaces                    {name: options dict incl. "class"}
Ring.strategy(name)               (strategy_class, options-without-class) for spec.placement.natural_endpoints
Ring.alter_keyspace(name, opts)   a keyspace-level schema refresh: Metadata._update_keyspace(KeyspaceMetadata(...)) with new
                                  replication options (creates the keyspace when absent); Ring.keyspaces follows
Ring.drop_keyspace(name)          Metadata._drop_keyspace
Ring.key_token(key_bytes)         reference token *value* of a key (spec.murmur3), comparable with ref_ring tokens
Ring.driver_token(value)          driver Token object (token_class(value)) for TokenMap.get_replicas
token_string(partitioner, value)  the string form the server sends for a token
FakeCluster(metadata, endpoints_resolved)
make_policy(spec, hosts=None)     load-balancing policy from a JSON spec (hosts: list of Host by index, for predicates):
                                  {"kind": "rr"} | {"kind": "dcaware", "local_dc": "dc0" | "", "used": 0..3}
                                  | {"kind": "whitelist", "allowed": [host index...], "by_name": [host index...]}
                                    (hosts in by_name are given to the constructor as host NAMES, see fake_dns; optional "pairs": [[i, j]]
                                    adds names that resolve to two hosts)
                                  | {"kind": "filter", "allowed": [host index...], "child": spec}
                                  | {"kind": "default", "child": spec} | {"kind": "tokenaware", "child": spec, "shuffle": bool}
pinned_random(randint_value, shuffle_seed)   context manager substituting cassandra.policies.randint / shuffle
host_name(i)                      "node<i>.test" -- a DNS name of host index i
fake_dns()                        context manager substituting the `socket` module seen by cassandra.policies with a resolver
                                  that knows host_name(i) -> address(i), "pair<i>-<j>.test" -> both addresses, and IP literals
"""
import contextlib
import random as _random
import uuid

from spec import murmur3 as _ref

PARTITIONERS = {
    "murmur3": "org.apache.cassandra.dht.Murmur3Partitioner",
    "random": "org.apache.cassandra.dht.RandomPartitioner",
    "bytes": "org.apache.cassandra.dht.ByteOrderedPartitioner",
}
STRATEGY_PREFIX = "org.apache.cassandra.locator."


def address(i):
    return "10.0.0.%d" % (i + 1)


def make_host(i, dc, rack, up=True):
    from cassandra.connection import DefaultEndPoint
    from cassandra.policies import SimpleConvictionPolicy
    from cassandra.pool import Host
    h = Host(DefaultEndPoint(address(i)), SimpleConvictionPolicy, dc, rack, host_id=uuid.UUID(int=i + 1))
    h.is_up = up
    # what the control connection fills in from system.local / system.peers
    h.broadcast_rpc_address = address(i)
    h.broadcast_rpc_port = 9042
    return h


def token_string(partitioner, value):
    if partitioner == "bytes":
        return value if isinstance(value, str) else bytes(value).hex()
    return str(int(value))


def token_value(partitioner, value):
    """reference-side comparable value of a token given in a description"""
    if partitioner == "bytes":
        return bytes.fromhex(value) if isinstance(value, str) else bytes(value)
    return int(value)


class FakeCluster(object):
    """the attributes load-balancing policies read from the Cluster in populate()"""

    def __init__(self, metadata, endpoints_resolved=()):
        self.metadata = metadata
        self.endpoints_resolved = list(endpoints_resolved)
        self.contact_points = [e.address for e in self.endpoints_resolved]


class Ring(object):
    def __init__(self, desc):
        from cassandra.metadata import KeyspaceMetadata, Metadata
        self.desc = desc
        self.partitioner = desc.get("partitioner", "murmur3")
        self.hosts = []
        self.topology = {}
        self._by_id = {}
        ref_ring = []
        md = Metadata()
        token_map = {}
        for i, hd in enumerate(desc["hosts"]):
            h = make_host(i, hd.get("dc"), hd.get("rack"), hd.get("up", True))
            self.hosts.append(h)
            self._by_id[id(h)] = i
            self.topology[i] = (hd.get("dc"), hd.get("rack"))
            md.add_or_return_host(h)
            toks = hd.get("tokens") or []
            if toks:
                token_map[h] = [token_string(self.partitioner, t) for t in toks]
            for t in toks:
                ref_ring.append((token_value(self.partitioner, t), i))
        ref_ring.sort(key=lambda p: p[0])
        self.ref_ring = ref_ring
        ks = desc.get("keyspaces") or {}
        if isinstance(ks, list):
            ks = dict(("ks%d" % j, o) for j, o in enumerate(ks))
        self.keyspaces = ks
        for name, opts in ks.items():
            o = dict(opts)
            cls = o.pop("class")
            if "." not in cls:
                cls = STRATEGY_PREFIX + cls
            md.keyspaces[name] = KeyspaceMetadata(name, True, cls, o)
        md.rebuild_token_map(PARTITIONERS[self.partitioner], token_map)
        self.metadata = md
        self.cluster = FakeCluster(md, [self.hosts[i].endpoint for i in desc.get("contact_points", [])])

    def index(self, host):
        i = self._by_id.get(id(host))
        if i is not None:
            return i
        for j, h in enumerate(self.hosts):
            if h.endpoint == getattr(host, "endpoint", None):
                return j
        raise KeyError(host)

    def alter_keyspace(self, name, opts):
        from cassandra.metadata import KeyspaceMetadata
        o = dict(opts)
        cls = o.pop("class")
        if "." not in cls:
            cls = STRATEGY_PREFIX + cls
        self.keyspaces = dict(self.keyspaces)
        self.keyspaces[name] = dict(opts)
        self.metadata._update_keyspace(KeyspaceMetadata(name, True, cls, o))

    def drop_keyspace(self, name):
        self.keyspaces = dict(self.keyspaces)
        self.keyspaces.pop(name, None)
        self.metadata._drop_keyspace(name)

    def strategy(self, name):
        o = dict(self.keyspaces[name])
        cls = o.pop("class")
        return cls, o

    def key_token(self, key):
        if self.partitioner == "murmur3":
            return _ref.murmur3_token(key)
        if self.partitioner == "random":
            return _ref.random_token(key)
        return _ref.byte_ordered_token(key)

    def driver_token(self, value):
        return self.metadata.token_map.token_class(value)


def build(desc):
    return Ring(desc)


def make_policy(spec, hosts=None):
    import cassandra.policies as P
    kind = spec["kind"]
    if kind == "rr":
        return P.RoundRobinPolicy()
    if kind == "dcaware":
        return P.DCAwareRoundRobinPolicy(local_dc=spec.get("local_dc", ""), used_hosts_per_remote_dc=spec.get("used", 0))
    if kind == "whitelist":
        named = set(spec.get("by_name", ()))
        return P.WhiteListRoundRobinPolicy([host_name(i) if i in named else address(i) for i in spec["allowed"]] +
                                           ["pair%d-%d.test" % (a, b) for a, b in spec.get("pairs", ())])
    if kind == "filter":
        allowed = frozenset(address(i) for i in spec["allowed"])
        return P.HostFilterPolicy(make_policy(spec["child"], hosts), lambda host: host.address in allowed)
    if kind == "default":
        return P.DefaultLoadBalancingPolicy(make_policy(spec["child"], hosts))
    if kind == "tokenaware":
        return P.TokenAwarePolicy(make_policy(spec["child"], hosts), shuffle_replicas=spec.get("shuffle", False))
    raise ValueError(kind)


@contextlib.contextmanager
def pinned_random(randint_value=0, shuffle_seed=0):
    """cassandra.policies.randint(a, b) -> a + randint_value % (b - a + 1); shuffle -> random.Random(shuffle_seed).shuffle.
    The same values are handed to every policy built inside the block (twin policies see the same 'randomness')."""
    import cassandra.policies as P
    saved = (P.randint, P.shuffle)

    def fake_randint(a, b):
        return a + randint_value % (b - a + 1)

    def fake_shuffle(x):
        _random.Random(shuffle_seed).shuffle(x)

    P.randint, P.shuffle = fake_randint, fake_shuffle
    try:
        yield
    finally:
        P.randint, P.shuffle = saved


def host_name(i):
    return "node%d.test" % i


class _FakeSocketModule(object):
    """stands in for the `socket` module inside cassandra.policies: only name resolution is replaced"""

    def __init__(self, real):
        self._real = real

    def __getattr__(self, name):
        return getattr(self._real, name)

    def getaddrinfo(self, host, port, family=0, type=0, proto=0, flags=0):
        import re
        host = host.decode() if isinstance(host, bytes) else host
        m = re.match(r"^node(\d+)\.test$", host)
        if m:
            ips = [address(int(m.group(1)))]
        else:
            m = re.match(r"^pair(\d+)-(\d+)\.test$", host)
            if m:
                ips = [address(int(m.group(1))), address(int(m.group(2)))]
            elif re.match(r"^\d+\.\d+\.\d+\.\d+$", host):
                ips = [host]
            else:
                raise self._real.gaierror(-2, "Name or service not known")
        return [(self._real.AF_INET, self._real.SOCK_STREAM, 6, "", (ip, port or 0)) for ip in ips]


@contextlib.contextmanager
def fake_dns():
    import cassandra.policies as P
    saved = P.socket
    P.socket = _FakeSocketModule(saved)
    try:
        yield
    finally:
        P.socket = saved
