"""C47 -- a connection is usable only after a successful handshake."""
import struct
import types
import zlib

from hypothesis import strategies as st

from checks import _simutil as U
from sim import wire
from sim import world as W
from vlib.harness import hyp_part, EnumPart

import os

# the quick tier runs in one process unless VERIF_JOBS asks for more (the box is shared)
SERIAL = os.environ.get("VERIF_TIER") == "quick" and not os.environ.get("VERIF_JOBS")
PID = "C47"
TITLE = "A connection is usable only after a successful handshake"
LEVEL = "exploration"
ENGINE = "sim"
TECHNIQUE = ("model-based generation of server reply scripts (Hypothesis) + exhaustive short scripts, replayed by a fake "
             "node against the real Connection.factory on the simulated transport; reference handshake table as oracle")
RULE = ("A case is a configuration (protocol version 1-6/DSE 0x41/0x42, authenticator none / v1 credentials dict / "
        "PlainTextAuthenticator / a multi-round SASL authenticator, compression False/True/'lz4'/'snappy', the set of "
        "locally available codecs (stand-in codecs honouring the lz4/snappy wrapper contracts), whether the server "
        "compresses its own frames) and a reply script: the k-th request on the connection is answered with the k-th "
        "scripted reply (SUPPORTED with a compression list / malformed, READY, AUTHENTICATE, AUTH_CHALLENGE, AUTH_SUCCESS, "
        "ERROR bad_credentials/protocol/server/overloaded, an unexpected RESULT, socket close, silence).  Scripts are a "
        "valid handshake for the configuration, a valid one with one reply replaced / a random tail, or fully random; an "
        "enumeration part covers every script of length <= 3 over a reduced alphabet for every version x authenticator.  "
        "After a successful factory() one QUERY is sent to observe the steady-state framing.  Non-trivial: the handshake "
        "got past OPTIONS (a STARTUP was sent) and at least one of: compression was negotiated, the server demanded "
        "authentication, the version uses checksummed framing.  Distinct by case digest.")
ASSUMPTIONS = ["transport, clock and event loop are simulated (sim/); Connection, its handshake handlers, the protocol "
               "codec, the segment codec and the authenticators are the real classes",
               "lz4/snappy are not installed: stand-in codecs (zlib behind the same wrapper contract: lz4 = 4-byte "
               "big-endian length + block, snappy = opaque block) are registered in locally_supported_compressions and "
               "as connection.segment_codec_lz4 for the duration of a case",
               "'a connection error' is read as: factory raises something that is not AuthenticationFailed and does not "
               "return a connection; replies whose classification is debatable (bad_credentials outside an authentication "
               "exchange, a non-credential ERROR inside one, challenges the client-side authenticator rejects) accept "
               "either failure class"]

PVS = [1, 2, 3, 4, 5, 6, 0x41, 0x42]
SEG_PVS = (5, 6)
AUTH_CLASSES = ["org.apache.cassandra.auth.PasswordAuthenticator", "com.datastax.bdp.cassandra.auth.DseAuthenticator"]
ERR_MSG = {"protocol": ["Invalid or unsupported protocol version (%d); supported versions are (3/v3, 4/v4)",
                        "Beta version of the protocol used (%d/v%d-beta), but USE_BETA flag is unset",
                        "Unexpected frame"],
           "server": ["boom"], "overloaded": ["busy"], "bad_credentials": ["Provided username and/or password are incorrect"]}
LONG_QUERY = "SELECT aaaaaaaaaaaaaaaaaaaaaaaaaaaaaaaaaaaaaaaaaaaaaaaaaaaaaaaaaaaaaaaaaaaaaaaaaaaaaaaaaaaaaaaaaaaaaaaaaaaaaaaaaaaaa FROM t"


# ------------------------------------------------------------------ stand-in codecs
def lz4_c(b):
    return struct.pack(">i", len(b)) + zlib.compress(bytes(b), 6)


def lz4_d(b):
    out = zlib.decompress(bytes(b[4:]))
    if len(out) != struct.unpack(">i", bytes(b[:4]))[0]:
        raise ValueError("length prefix mismatch")
    return out


def snappy_c(b):
    return b"SNP" + zlib.compress(bytes(b), 6)


def snappy_d(b):
    if bytes(b[:3]) != b"SNP":
        raise ValueError("not a stand-in snappy block")
    return zlib.decompress(bytes(b[3:]))


CODECS = {"lz4": (lz4_c, lz4_d), "snappy": (snappy_c, snappy_d)}


# ------------------------------------------------------------------ segments with the compressed header layout
def seg_encode(msg, codec):
    """server side encoder; codec None = 3-byte header, 'lz4' = 5-byte header"""
    if codec is None:
        return W.seg_encode(msg)
    comp = CODECS[codec][0](msg)[4:]
    if len(comp) >= len(msg):
        payload, ulen = msg, 0
    else:
        payload, ulen = comp, len(msg)
    h = len(payload) | (ulen << 17) | (1 << 34)
    return h.to_bytes(5, "little") + W._crc24(h, 5).to_bytes(3, "little") + payload + \
        struct.pack("<I", zlib.crc32(payload, W._CRC32_INIT) & 0xFFFFFFFF)


def seg_decode_one(data, compressed_layout):
    """-> (payload, was_compressed) or None when `data` is not exactly one well-formed segment of that layout"""
    hl = 5 if compressed_layout else 3
    if len(data) < hl + 3 + 4:
        return None
    h = int.from_bytes(data[:hl], "little")
    if W._crc24(h, hl) != int.from_bytes(data[hl:hl + 3], "little"):
        return None
    ln = h & W.MAX_SEG
    ulen = (h >> 17) & W.MAX_SEG if compressed_layout else 0
    if len(data) != hl + 3 + ln + 4:
        return None
    payload = data[hl + 3:hl + 3 + ln]
    if zlib.crc32(payload, W._CRC32_INIT) & 0xFFFFFFFF != struct.unpack("<I", data[-4:])[0]:
        return None
    if compressed_layout and ulen:
        try:
            payload = lz4_d(struct.pack(">i", ulen) + payload)
        except Exception:  # noqa
            return None
        return payload, True
    return payload, False


def classify(data, pv, expect_seg):
    """what one push() of the driver is: {'framing': bare|seg|segc|garbage, 'flag': bool, 'codec': name|None, 'req': dict}"""
    rec = {"framing": "garbage", "flag": False, "codec": None, "req": None, "payload_compressed": False}

    def bare(frame, rec):
        h = wire.parse_header(frame)
        if h is None or frame[0] & 0x80 or h[4] < 0 or len(frame) != h[5] + h[4]:
            return False
        rec["flag"] = bool(h[1] & 0x01)
        if rec["flag"]:
            for name in ("lz4", "snappy"):
                try:
                    rec["req"] = wire.parse_request(frame, decompress=CODECS[name][1])
                    rec["codec"] = name
                    break
                except Exception:  # noqa
                    continue
            else:
                rec["req"] = {"op": wire.OP.get(h[3], h[3]), "version": h[0], "stream": h[2], "undecodable": True}
        else:
            try:
                rec["req"] = wire.parse_request(frame)
            except wire.WireError:
                rec["req"] = {"op": wire.OP.get(h[3], h[3]), "version": h[0], "stream": h[2], "undecodable": True}
        return True

    def seg(layout, rec):
        r = seg_decode_one(data, layout)
        if r is None:
            return False
        ok = bare(r[0], rec)
        if ok:
            rec["framing"] = "segc" if layout else "seg"
            rec["payload_compressed"] = r[1]
        return ok

    order = ["seg", "segc", "bare"] if expect_seg else ["bare", "seg", "segc"]
    for o in order:
        if o == "bare":
            if bare(data, rec):
                rec["framing"] = "bare"
                return rec
        elif seg(o == "segc", rec):
            return rec
    return rec


# ------------------------------------------------------------------ the scripted server
class Server(object):
    """per-case state of the fake node: follows the protocol from the SERVER's point of view"""

    def __init__(self, case, node):
        self.case = case
        self.node = node
        self.pv = case["pv"]
        self.log = []            # one record per push of the driver
        self.replies = []        # the reply given to the k-th request (list form) or ["silence"]
        self.accepted = False    # this server has sent READY/AUTHENTICATE in answer to a STARTUP
        self.neg = None          # COMPRESSION named in the accepted STARTUP
        self.remote = None       # compression list of the latest SUPPORTED sent

    def receive(self, conn, data):
        rec = classify(data, self.pv, self.accepted and self.pv in SEG_PVS)
        rec["after_accept"] = self.accepted
        k = len(self.log)
        self.log.append(rec)
        script = self.case["script"]
        reply = script[k] if k < len(script) else ["silence"]
        rec["remote"] = self.remote
        self.replies.append(reply)
        req = rec["req"]
        if req is None:
            return
        self.answer(conn, req, reply)

    def send(self, conn, req, opcode, body):
        v = req["version"]
        flags = 0
        if self.accepted and self.neg and self.case["srvcomp"] and v not in SEG_PVS and body:
            body = CODECS[self.neg][0](body)
            flags = 0x01
        fr = wire.frame(v, req["stream"], opcode, body, flags=flags)
        if self.accepted and v in SEG_PVS:
            fr = seg_encode(fr, self.neg if self.neg == "lz4" else None)
        self.node.net.server_send(conn, fr)

    def answer(self, conn, req, reply):
        kind = reply[0]
        v = req["version"]
        accept = False
        if kind == "supported":
            shape = reply[2]
            opts = {"CQL_VERSION": ["3.4.5"], "COMPRESSION": list(reply[1]),
                    "PROTOCOL_VERSIONS": ["3/v3", "4/v4", "5/v5"]}
            if shape == "no-compression-key":
                del opts["COMPRESSION"]
            elif shape == "no-cql-version":
                opts["CQL_VERSION"] = []
            self.remote = list(reply[1]) if shape != "no-compression-key" else None
            self.send(conn, req, "SUPPORTED", wire.supported_body(opts))
        elif kind == "ready":
            accept = req["op"] == "STARTUP"
            self.send(conn, req, "READY", b"")
        elif kind == "authenticate":
            accept = req["op"] == "STARTUP"
            self.send(conn, req, "AUTHENTICATE", wire._string(AUTH_CLASSES[reply[1]]))
        elif kind == "challenge":
            self.send(conn, req, "AUTH_CHALLENGE", wire._bytes(bytes.fromhex(reply[1])))
        elif kind == "success":
            self.send(conn, req, "AUTH_SUCCESS", wire._bytes(None if reply[1] is None else bytes.fromhex(reply[1])))
        elif kind == "error":
            msg = ERR_MSG[reply[1]][reply[2] % len(ERR_MSG[reply[1]])]
            if "%d" in msg:
                msg = msg % ((v,) * msg.count("%d"))
            self.send(conn, req, "ERROR", wire.error_body(v, reply[1], msg))
        elif kind == "result":
            self.send(conn, req, "RESULT", wire.result_void())
        elif kind == "close":
            self.node.net.server_close(conn)
        elif kind == "eof":
            # an orderly close: the reactor sees a zero-byte read and calls close(), not defunct()
            self.node.net.server_close(conn, eof=True)
        elif kind == "silence":
            pass
        else:
            raise ValueError(kind)
        if accept and not self.accepted:
            # the answer to STARTUP itself is sent in the old framing; everything after in the new one
            self.accepted = True
            c = (req.get("options") or {}).get("COMPRESSION")
            self.neg = c if c in CODECS else None


# ------------------------------------------------------------------ authenticators
def make_authenticator(kind):
    if kind == "none":
        return None
    if kind == "dict":
        return {"username": "user", "password": "pass"}
    if kind == "plain":
        from cassandra.auth import PlainTextAuthProvider
        return PlainTextAuthProvider("user", "pass").new_authenticator("10.0.0.1")
    from cassandra.auth import Authenticator

    class Rounds(Authenticator):
        """a multi-round SASL client: answers every challenge, never fails client side"""

        def initial_response(self):
            return None

        def evaluate_challenge(self, challenge):
            return (b"re:" + challenge) if challenge else None

        def on_authentication_success(self, token):
            self.token = token
    return Rounds()


# ------------------------------------------------------------------ the reference table
def expectation(case, req_op, reply, remote):
    """what the reply `reply` to a request `req_op` means for a conforming client:
    ready | authfail | connfail | anyfail | continue | continue-or-connfail | continue-or-anyfail"""
    kind = reply[0]
    auth = case["auth"]
    if kind in ("close", "eof", "silence"):
        return "connfail"
    if kind == "error":
        ek = reply[1]
        if req_op in ("AUTH_RESPONSE", "CREDENTIALS"):
            return "authfail" if ek == "bad_credentials" else "anyfail"
        return "anyfail" if ek == "bad_credentials" else "connfail"
    if req_op == "OPTIONS":
        if kind != "supported":
            return "connfail"
        if reply[2] != "ok":
            return "connfail"
        comp = case["compression"]
        if isinstance(comp, str) and comp not in set(case["local"]) & set(reply[1]):
            return "continue-or-connfail"      # an explicit choice that cannot be honoured: fail, or go on uncompressed
        return "continue"
    if req_op == "STARTUP":
        if kind == "ready":
            return "ready"
        if kind == "authenticate":
            return "authfail" if auth == "none" else "continue"
        return "connfail"
    if req_op == "CREDENTIALS":
        if kind == "ready":
            return "ready"
        if kind == "authenticate":
            return "continue-or-anyfail"
        return "connfail"
    if req_op == "AUTH_RESPONSE":
        if kind == "success":
            return "ready"
        if kind == "challenge":
            if auth == "plain" and bytes.fromhex(reply[1]) != b"PLAIN-START":
                return "anyfail"               # rejected by the client-side authenticator
            return "continue"
        return "connfail"
    return "connfail"                          # a request that is not part of a handshake


# ------------------------------------------------------------------ interpret
def interpret(case, ctx):
    sim = U.Sim(tape=[], granularity="blocking")
    import cassandra.connection as K
    from cassandra.segment import SegmentCodec
    saved = list(K.locally_supported_compressions.items())
    saved_codec = K.segment_codec_lz4
    try:
        K.locally_supported_compressions.clear()
        for name in ("lz4", "snappy"):
            if name in case["local"]:
                K.locally_supported_compressions[name] = CODECS[name]
        K.segment_codec_lz4 = SegmentCodec(lz4_c, lz4_d) if "lz4" in case["local"] else None
        with sim:
            _run(case, ctx, sim)
    except U.StepBudgetExceeded:
        ctx.fail(["C47.terminates"], "handshake did not terminate within the step budget")
    finally:
        K.locally_supported_compressions.clear()
        for k, v in saved:
            K.locally_supported_compressions[k] = v
        K.segment_codec_lz4 = saved_codec


def _run(case, ctx, sim):
    from cassandra import AuthenticationFailed, ConsistencyLevel
    from cassandra.connection import DefaultEndPoint
    from cassandra.protocol import QueryMessage
    pv = case["pv"]
    node = sim.net.add_node("10.0.0.1")
    srv = Server(case, node)
    node.receive = srv.receive
    cls = sim.net.connection_class()
    conn, exc = None, None
    try:
        conn = sim.call(cls.factory, DefaultEndPoint("10.0.0.1"), 5.0, protocol_version=pv,
                        authenticator=make_authenticator(case["auth"]), compression=case["compression"],
                        allow_beta_protocol_version=(pv == 6))
    except U.Deadlock:
        ctx.fail(["C47.terminates"], "factory neither returned nor raised")
        return
    except Exception as e:  # noqa -- the outcome under test
        exc = e
    log = srv.log
    n = len(log)
    handshake = list(zip(log, srv.replies))

    # ---- the trace: what was sent before / after the server accepted STARTUP
    startup_neg = None
    for k, (rec, reply) in enumerate(handshake):
        req = rec["req"]
        if rec["framing"] == "garbage" or req is None or req.get("undecodable"):
            ctx.fail(["C47.frame", "undecodable", "after-accept" if rec["after_accept"] else "before-accept"],
                     "request %d is not a well-formed frame/segment: %r" % (k, rec))
            return
        op = req["op"]
        if not rec["after_accept"]:
            if rec["framing"] != "bare":
                ctx.fail(["C47.checksumming", "early", "v%d" % pv], "request %d (%s) sent as a segment before the STARTUP response" % (k, op))
            if rec["flag"]:
                ctx.fail(["C47.compression", "early", op], "request %d (%s) compressed before the server accepted STARTUP" % (k, op))
        else:
            _check_steady(ctx, case, srv, rec, k, op)
        if op == "STARTUP":
            c = (req.get("options") or {}).get("COMPRESSION")
            remote = rec["remote"]
            if c is not None:
                both = set(case["local"]) & set(remote or [])
                if pv in SEG_PVS:
                    both.discard("snappy")       # Cassandra rejects snappy with the v5 framing
                if not case["compression"]:
                    ctx.fail(["C47.compression", "unrequested"], "STARTUP names %r although compression is off" % c)
                elif c not in both:
                    ctx.fail(["C47.compression", "not-common", "v%d" % pv if pv in SEG_PVS and c == "snappy" else "plain"],
                             "STARTUP names %r; local %r, remote %r" % (c, case["local"], remote))
                elif isinstance(case["compression"], str) and c != case["compression"]:
                    ctx.fail(["C47.compression", "not-the-chosen-one"], "asked for %r, negotiated %r" % (case["compression"], c))
            startup_neg = c

    # ---- the outcome
    ops = [rec["req"]["op"] for rec in log]
    verdict = "connfail"
    stalled = False
    for k, (rec, reply) in enumerate(handshake):
        e = expectation(case, rec["req"]["op"], reply, rec["remote"])
        last = k == n - 1
        if not last:
            if not e.startswith("continue"):
                ctx.fail(["C47.sequence", "continued-after", e, rec["req"]["op"], reply[0]],
                         "request %d (%s) was answered %r (%s) but the client went on with %s" % (
                             k, rec["req"]["op"], reply, e, ops[k + 1]))
                return
            continue
        verdict = e
    if n == 0:
        ctx.fail(["C47.sequence", "no-options"], "no request reached the server")
        return
    ready = exc is None
    is_auth = isinstance(exc, AuthenticationFailed)
    name = type(exc).__name__ if exc is not None else "ready"
    last_op, last_reply = ops[-1], srv.replies[-1]
    where = [last_op, last_reply[0] if last_reply[0] != "error" else "error:" + last_reply[1]]
    if ready:
        if verdict != "ready":
            ctx.fail(["C47.ready", "unearned"] + where,
                     "factory returned a connection although the last exchange was %s -> %r (%s)" % (last_op, last_reply, verdict))
        elif conn.is_closed or conn.is_defunct or conn.last_error:
            ctx.fail(["C47.ready", "dead-connection"], "factory returned a closed/defunct connection")
    else:
        if verdict == "ready":
            ctx.fail(["C47.ready", "missed"] + where + [name],
                     "server completed the handshake (%s -> %r) but factory raised %r" % (last_op, last_reply, exc))
        elif verdict == "authfail" and not is_auth:
            ctx.fail(["C47.error-class", "auth-as-other"] + where + [name],
                     "authentication failure (%s -> %r) surfaced as %r" % (last_op, last_reply, exc))
        elif verdict in ("connfail", "continue-or-connfail") and is_auth:
            ctx.fail(["C47.error-class", "other-as-auth"] + where,
                     "non-authentication failure (%s -> %r) surfaced as AuthenticationFailed: %s" % (last_op, last_reply, exc))
        elif verdict == "continue":
            stalled = True
            ctx.fail(["C47.sequence", "stalled"] + where + [name],
                     "server answered %s with %r; the client should have continued but factory raised %r" % (
                         last_op, last_reply, exc))
        c0 = sim.net.conns[0]
        if not (c0.is_closed or c0.is_defunct) and not stalled:
            ctx.fail(["C47.failed-open"] + where, "factory raised %s but the connection was left open" % name)

    # ---- steady state: one more request on a ready connection
    if ready and conn is not None and verdict == "ready":
        with ctx.driver(["C47.steady", "send"]):
            with conn.lock:
                rid = conn.get_request_id()
            conn.send_msg(QueryMessage(LONG_QUERY, ConsistencyLevel.ONE), rid, lambda r: None)
        if len(srv.log) == n + 1:
            rec = srv.log[-1]
            if rec["framing"] == "garbage" or rec["req"] is None or rec["req"].get("undecodable"):
                ctx.fail(["C47.frame", "undecodable", "steady"], "steady-state QUERY is not well formed: %r" % (rec,))
            else:
                _check_steady(ctx, case, srv, rec, n, "QUERY")
        else:
            ctx.fail(["C47.steady", "not-sent"], "QUERY on a ready connection did not reach the server")

    # ---- bookkeeping
    for nm, e in sim.world.actor_errors:
        ctx.fail(["C47.thread-error", type(e).__name__], "virtual thread %s died with %r" % (nm, e))
        break
    for e in sim.net.loop_errors:
        ctx.fail(["C47.loop-error", type(e).__name__], "event loop callback raised %r" % (e,))
        break
    ctx.label("pv=%d" % pv, "auth=" + case["auth"], "outcome=" + ("ready" if ready else ("auth" if is_auth else "other:" + name)),
              "verdict=" + verdict, "requests=%d" % min(n, 6), "neg=%s" % startup_neg,
              "compression=%r" % (case["compression"],))
    if srv.accepted:
        ctx.label("accepted")
    if any(r[0] == "challenge" for r in srv.replies):
        ctx.label("challenge-round")
    ctx.nontrivial("STARTUP" in ops and (startup_neg is not None or "authenticate" in [r[0] for r in srv.replies]
                                         or pv in SEG_PVS))


def _check_steady(ctx, case, srv, rec, k, op):
    """a request sent after this server accepted STARTUP"""
    pv = case["pv"]
    want_seg = pv in SEG_PVS
    is_seg = rec["framing"] in ("seg", "segc")
    if want_seg and not is_seg:
        ctx.fail(["C47.checksumming", "missing", "v%d" % pv, op], "request %d (%s) after the STARTUP response is a bare frame" % (k, op))
        return
    if is_seg and not want_seg:
        ctx.fail(["C47.checksumming", "unexpected", "v%d" % pv, op], "request %d (%s) is a checksummed segment on v%d" % (k, op, pv))
        return
    neg = srv.neg
    if want_seg:
        if rec["flag"]:
            ctx.fail(["C47.compression", "frame-flag-inside-segment"], "request %d (%s): compressed frame inside a segment" % (k, op))
        layout = "segc" if neg == "lz4" else "seg"
        if rec["framing"] != layout:
            ctx.fail(["C47.compression", "segment-layout", "neg=%s" % neg, rec["framing"]],
                     "request %d (%s): segment header layout %s but STARTUP negotiated %r" % (k, op, rec["framing"], neg))
        elif neg == "lz4" and op == "QUERY" and not rec["payload_compressed"]:
            ctx.fail(["C47.compression", "not-applied", "segment"], "steady-state QUERY segment payload not compressed")
    else:
        if rec["flag"] and neg is None:
            ctx.fail(["C47.compression", "unnegotiated", op], "request %d (%s) compressed but nothing was negotiated" % (k, op))
        elif rec["flag"] and rec["codec"] != neg:
            ctx.fail(["C47.compression", "wrong-codec"], "request %d (%s) compressed with %s, negotiated %s" % (k, op, rec["codec"], neg))
        elif neg is not None and not rec["flag"] and op == "QUERY":
            # (the flag is per frame: leaving the authentication exchange uncompressed is legal, a ready connection
            # that never compresses is not what was negotiated)
            ctx.fail(["C47.compression", "not-applied", op], "request %d (%s) sent uncompressed after %s was accepted" % (k, op, neg))


# ------------------------------------------------------------------ generation
def _hex(b):
    return b.hex()


s_comp_list = st.sampled_from([[], ["lz4"], ["snappy"], ["lz4", "snappy"], ["snappy", "lz4"], ["deflate"], ["lz4", "deflate"]])
s_supported = st.tuples(st.just("supported"), s_comp_list,
                        st.sampled_from(["ok"] * 10 + ["no-compression-key", "no-cql-version"]))
s_challenge = st.tuples(st.just("challenge"), st.sampled_from([b"PLAIN-START", b"", b"x", b"\x00\xff"]).map(_hex))
s_success = st.tuples(st.just("success"), st.sampled_from([None, b"", b"ok"]).map(lambda b: None if b is None else b.hex()))
s_error = st.tuples(st.just("error"), st.sampled_from(["bad_credentials", "protocol", "server", "overloaded"]), st.integers(0, 2))
s_any_reply = st.one_of(s_supported, st.just(("ready",)), st.tuples(st.just("authenticate"), st.integers(0, 1)),
                        s_challenge, s_success, s_error, st.just(("result",)), st.just(("close",)), st.just(("eof",)), st.just(("silence",)))


@st.composite
def s_case(draw):
    pv = draw(st.sampled_from(PVS + [4, 5, 5]))
    if pv == 1:
        auth = draw(st.sampled_from(["none", "dict", "dict"]))
    else:
        auth = draw(st.sampled_from(["none", "plain", "plain", "rounds"]))
    local = draw(st.sampled_from([[], ["lz4"], ["snappy"], ["lz4", "snappy"], ["lz4", "snappy"]]))
    compression = draw(st.sampled_from([False, True, True] + local))
    mode = draw(st.sampled_from(["valid", "deviate", "deviate", "tail", "random"]))
    if mode == "random":
        script = draw(st.lists(s_any_reply, max_size=6))
    else:
        script = [draw(s_supported if mode != "valid" else st.tuples(st.just("supported"), s_comp_list, st.just("ok")))]
        path = draw(st.sampled_from(["ready", "auth", "auth"]))
        if path == "ready":
            script.append(("ready",))
        else:
            script.append(("authenticate", draw(st.integers(0, 1))))
            if auth == "dict":
                script.append(("ready",))
            elif auth != "none":
                dse = script[-1][1] == 1
                if auth == "plain":
                    if dse:
                        script.append(("challenge", b"PLAIN-START".hex()))
                else:
                    for _ in range(draw(st.integers(0, 3))):
                        script.append(draw(s_challenge))
                script.append(draw(s_success))
        if mode == "deviate":
            i = draw(st.integers(0, len(script) - 1))
            script[i] = draw(s_any_reply)
        if mode in ("deviate", "tail"):
            script.extend(draw(st.lists(s_any_reply, max_size=2)))
    return {"pv": pv, "auth": auth, "local": local, "compression": compression, "script": [list(r) for r in script],
            "srvcomp": draw(st.booleans())}


# exhaustive: every script of length <= 3 over a reduced alphabet
SMALL = [["supported", ["lz4", "snappy"], "ok"], ["ready"], ["authenticate", 0], ["challenge", b"x".hex()], ["success", None],
         ["error", "bad_credentials", 0], ["error", "protocol", 0], ["error", "server", 0], ["result"], ["close"], ["eof"], ["silence"]]


def enum_chunks():
    return [{"pv": pv} for pv in PVS]


def enum_cases(chunk):
    pv = chunk["pv"]
    auths = ["none", "dict"] if pv == 1 else ["none", "plain", "rounds"]
    for auth in auths:
        for comp, local in ((True, ["lz4", "snappy"]), (False, [])):
            scripts = [[]]
            for a in SMALL:
                scripts.append([a])
            # below the first reply only SUPPORTED lets the handshake go on; the rest is one step long
            for b in SMALL:
                scripts.append([SMALL[0], b])
                if b[0] in ("authenticate", "supported", "ready", "challenge"):
                    for c in SMALL:
                        scripts.append([SMALL[0], b, c])
                        if b[0] == "authenticate" and c[0] in ("challenge", "authenticate"):
                            for d in SMALL:
                                scripts.append([SMALL[0], b, c, d])
            for s in scripts:
                yield {"pv": pv, "auth": auth, "local": local, "compression": comp, "script": s, "srvcomp": False}


def parts(tier):
    return [
        hyp_part("scripts", s_case, interpret, tier, quick=350, thorough=6000, quick_shards=7, thorough_shards=15),
        EnumPart("short-scripts", enum_chunks() if tier == "thorough" else [{"pv": 1}, {"pv": 4}, {"pv": 5}, {"pv": 0x41}],
                 enum_cases, interpret, exhaustive=(tier == "thorough")),
    ]
