"""C30 -- prepared-statement binding and routing keys are consistent.

PreparedStatement.from_message(...) is built the way Session.prepare builds it (bind metadata as
cassandra.protocol.ColumnMetadata tuples, pk_indexes as sent by a v4+ server or the partition key of the
table metadata on older versions); the same assignment is bound positionally and by name, with missing /
extra / None / UNSET_VALUE entries, and compared with a small model written here: value bytes from
spec.values.encode, the composite routing key Σ(uint16 len ‖ bytes ‖ 0x00) in partition-key order and its
Murmur3 token from spec.murmur3.
"""
import struct

from hypothesis import strategies as st

from spec import murmur3 as M3
from spec import values as V
from vlib.harness import hyp_part

PID = "C30"
TITLE = "Prepared-statement binding and routing keys are consistent"
LEVEL = "exploration"
ENGINE = "codec"
TECHNIQUE = "property-based testing (Hypothesis) against an independent model of bind() and of the CompositeType key layout"
RULE = ("Hypothesis draws 1-6 bind markers (distinct column names, occasionally a repeated non-key name) typed from "
        "{int, bigint, text, blob, uuid, boolean, timestamp, double, varint, list<int>, list<text>, map<text,int>, "
        "tuple<int,text>}, a partition key of 1-3 of those columns in an order independent of the bind order (or with one "
        "component absent from the statement; in one case out of seven one key component is a blob/text of 32767..65535 "
        "serialized bytes, the boundaries of the composite's 16-bit length prefix), the way the routing indexes reach the driver (pk_indexes of a v4+ PREPARED "
        "response, table metadata for v1-3, or unknown table), a complete assignment (non-key values may be None), and a "
        "binding variation: number of positional values supplied (short, exact, too many), names omitted from the dict, extra "
        "dict keys, explicit UNSET_VALUE positions; protocol versions 1-6 and DSE 0x41/0x42.  Non-trivial: a composite "
        "partition key (>= 2 components) whose bind order differs from the key order, or an unset/missing value on v4+.")
ASSUMPTIONS = [
    "value bytes are judged against spec.values.encode (the independent codec reference of C01/C02); collections carry no nulls and tuples are full so that known value-codec findings do not leak in",
    "token reference is spec.murmur3.murmur3_token (Cassandra's Murmur3Partitioner, transcribed)",
    "cluster metadata is a real cassandra.metadata.Metadata populated with KeyspaceMetadata/TableMetadata/ColumnMetadata objects, as Session.prepare passes it",
    "on protocol v1-3 a short positional list that still covers every partition-key position may either be rejected or be bound as the shorter list (the pinned unit tests accept the latter); it must never produce UNSET_VALUE",
    "no set-typed markers: a plain Python set is written in iteration order and Cassandra sorts on receipt, so byte equality is not demanded there (C01/C02 cover sets)",
    "partition-key values are never None (Cassandra rejects null key components; the statement does not cover them)",
]

PVS = [1, 2, 3, 4, 5, 6, 0x41, 0x42]

TYPES = {
    "int": V.T("int"), "bigint": V.T("bigint"), "text": V.T("text"), "blob": V.T("blob"), "uuid": V.T("uuid"),
    "boolean": V.T("boolean"), "timestamp": V.T("timestamp"), "double": V.T("double"), "varint": V.T("varint"),
    "list<int>": V.t_list(V.T("int")), "list<text>": V.t_list(V.T("text")),
    "map<text,int>": V.t_map(V.T("text"), V.T("int")), "tuple<int,text>": V.t_tuple([V.T("int"), V.T("text")]),
}
KEY_TYPES = ["int", "bigint", "text", "blob", "uuid", "boolean", "timestamp", "varint", "tuple<int,text>"]
ALL_TYPES = sorted(TYPES)


# ---------------------------------------------------------------------------------------------
# strategy
# ---------------------------------------------------------------------------------------------

def _value(tname):
    return V.value_for(TYPES[tname], nulls=False, short_tuples=False, max_len=3)


@st.composite
def s_case(draw):
    pv = draw(st.sampled_from(PVS))
    n = draw(st.sampled_from([1, 2, 2, 3, 3, 4, 4, 5, 6]))
    n_pk = draw(st.sampled_from([1, 1, 2, 2, 2, 3])) if n > 1 else 1
    n_pk = min(n_pk, n)
    # which bind positions hold the key components, in PARTITION KEY order (a permutation => out-of-order keys)
    pk_pos = draw(st.permutations(list(range(n))))[:n_pk]
    cols = []
    for i in range(n):
        if i in pk_pos:
            cols.append({"name": "k%d" % i, "type": draw(st.sampled_from(KEY_TYPES))})
        else:
            cols.append({"name": "c%d" % i, "type": draw(st.sampled_from(ALL_TYPES))})
    # occasionally one non-key column name is used by two markers (UPDATE .. SET v=? .. IF v=?)
    nonkey = [i for i in range(n) if i not in pk_pos]
    if len(nonkey) >= 2 and draw(st.integers(0, 9)) == 0:
        a, b = nonkey[0], nonkey[-1]
        cols[b] = dict(cols[a])
    pk = [cols[i]["name"] for i in pk_pos]
    absent = draw(st.integers(0, 11)) == 0       # a key component that is not bound at all (e.g. pk IN (1,2) literal)
    if absent:
        pk = pk + ["k_absent"] if draw(st.booleans()) else ["k_absent"] + pk
    if pv >= 4:
        source = draw(st.sampled_from(["pk_indexes"] * 6 + ["unknown-table"])) if not absent else \
            draw(st.sampled_from(["metadata", "metadata", "unknown-table"]))
    else:
        source = draw(st.sampled_from(["metadata"] * 6 + ["unknown-table"]))
    assign = {}
    for i, c in enumerate(cols):
        if c["name"] in assign:
            continue
        v = draw(_value(c["type"]))
        if i not in pk_pos and draw(st.integers(0, 6)) == 0:
            v = None
        assign[c["name"]] = v
    # a key component whose serialized length sits at the int16/uint16 boundaries of the composite's length prefix
    # (legal up to 65535 bytes); described compactly, the value is built in interpret()
    big = None
    if draw(st.integers(0, 6)) == 0:
        i = draw(st.sampled_from(pk_pos))
        cols[i]["type"] = draw(st.sampled_from(["blob", "text"]))
        big = {"name": cols[i]["name"],
               "len": draw(st.one_of(st.sampled_from([32767, 32768, 32769, 65534, 65535]), st.integers(32768, 65535))),
               "fill": draw(st.sampled_from([0x00, 0x61, 0x7f, 0xff])) if cols[i]["type"] == "blob" else 0x61}
        assign[cols[i]["name"]] = "" 
    names = sorted(assign)
    variation = draw(st.sampled_from(["full", "full", "short", "short", "short", "long", "omit", "omit", "omit",
                                      "unset", "unset", "extra-keys"]))
    case = {"pv": pv, "cols": cols, "pk": pk, "source": source, "assign": assign, "variation": variation,
            "n_pos": n, "omit": [], "unset": [], "extra": [], "big": big}
    if variation == "short":
        case["n_pos"] = draw(st.integers(0, n - 1))
    elif variation == "long":
        case["n_pos"] = n + draw(st.integers(1, 2))
    elif variation == "omit":
        case["omit"] = sorted(set(draw(st.lists(st.sampled_from(names), min_size=1, max_size=2))))
    elif variation == "unset":
        case["unset"] = sorted(set(draw(st.lists(st.sampled_from(names), min_size=1, max_size=2))))
    elif variation == "extra-keys":
        case["extra"] = draw(st.lists(st.sampled_from(["zz", "k_absent", "K0", ""]), min_size=1, max_size=2, unique=True))
    return case


# ---------------------------------------------------------------------------------------------
# model
# ---------------------------------------------------------------------------------------------

class _Unset(object):
    def __repr__(self):
        return "UNSET"


UNSET = _Unset()        # the model's own marker
MISSING = object()


def composite_key(parts):
    """Cassandra CompositeType: per component uint16 length, the bytes, one end-of-component byte 0"""
    out = b""
    for p in parts:
        out += struct.pack(">H", len(p)) + p + b"\x00"
    return out


def model_bind(pv, cols, assign, rki, supplied):
    """supplied: one entry per bind marker that the caller provided (value description, None, UNSET) -- possibly fewer
    or more than the markers.  Returns ("error", why) | ("values", list) | ("either", prefix list)."""
    n = len(cols)
    if len(supplied) > n:
        return ("error", "too-many")
    key_pos = set(rki or ())
    out = []
    for i, v in enumerate(supplied):
        if v is UNSET:
            if pv < 4:
                return ("error", "unset-before-v4")
            if i in key_pos:
                return ("error", "unset-key-component")
            out.append(UNSET)
        elif v is None:
            out.append(None)
        else:
            out.append(V.encode(TYPES[cols[i]["type"]], v, pv))
    if len(supplied) < n:
        missing_key = any(i in key_pos for i in range(len(supplied), n))
        if pv >= 4:
            if missing_key:
                return ("error", "missing-key-component")
            out += [UNSET] * (n - len(supplied))
        else:
            if missing_key:
                return ("error", "missing-key-component")
            return ("either", out)
    return ("values", out)


def model_dict(pv, cols, given):
    """dict binding -> the equivalent positional list, or an error"""
    out = []
    for c in cols:
        if c["name"] in given:
            out.append(given[c["name"]])
        elif pv >= 4:
            out.append(UNSET)
        else:
            return None
    return out


# ---------------------------------------------------------------------------------------------
# driver side
# ---------------------------------------------------------------------------------------------

def _prepared(case):
    from cassandra.metadata import Metadata, KeyspaceMetadata, TableMetadata, ColumnMetadata as SchemaColumn
    from cassandra.protocol import ColumnMetadata
    from cassandra.query import PreparedStatement
    from checks._drv import build_type
    cols = case["cols"]
    bind_meta = [ColumnMetadata("ks", "tbl", c["name"], build_type(TYPES[c["type"]])) for c in cols]
    md = Metadata()
    if case["source"] != "unknown-table":
        ks = KeyspaceMetadata("ks", True, "SimpleStrategy", {"replication_factor": "1"})
        tbl = TableMetadata("ks", "tbl")
        tbl.partition_key = [SchemaColumn(tbl, name, "int") for name in case["pk"]]
        ks.tables["tbl"] = tbl
        md.keyspaces["ks"] = ks
    names = [c["name"] for c in cols]
    pk_indexes = None
    if case["pv"] >= 4:
        # a v4+ server sends the indexes only when every partition key column is bound
        pk_indexes = [names.index(p) for p in case["pk"]] if case["source"] == "pk_indexes" else []
    return PreparedStatement.from_message(b"\x01" * 16, bind_meta, pk_indexes, md, "QUERY", "ks", case["pv"], [], None)


def expected_rki(case):
    names = [c["name"] for c in case["cols"]]
    if case["source"] == "unknown-table":
        return None
    if any(p not in names for p in case["pk"]):
        return None
    return [names.index(p) for p in case["pk"]]


def _to_driver_value(col, v):
    from cassandra.query import UNSET_VALUE
    from checks._drv import to_driver
    if v is UNSET:
        return UNSET_VALUE
    if v is None:
        return None
    return to_driver(TYPES[col["type"]], v)


def _norm(values):
    from cassandra.query import UNSET_VALUE
    return [UNSET if v is UNSET_VALUE else v for v in values]


def _judge(ctx, sub, feat, prepared, arg, verdict):
    """bind `arg` and compare with the model verdict.  Returns the BoundStatement when the bind succeeded as modelled."""
    key = [sub] + feat
    box = []
    raised = []
    with ctx.driver(key, expect=(ValueError, KeyError)):
        try:
            box.append(prepared.bind(arg))
        except (ValueError, KeyError) as e:
            raised.append(e)
    if not box and not raised:
        return None                      # some other exception: already recorded by ctx.driver
    kind = verdict[0]
    if kind == "error":
        if box:
            ctx.fail(key + [verdict[1], "not-rejected"],
                     "bind(%r) accepted (values %r) but the model says %s" % (arg, _norm(box[0].values), verdict[1]))
        return None
    if raised:
        if kind == "either":
            return None
        ctx.fail(key + ["rejected", type(raised[0]).__name__], "bind(%r) raised %r; expected values %r" % (
            arg, raised[0], verdict[1]))
        return None
    got = _norm(box[0].values)
    if got != verdict[1]:
        n_unset = sum(1 for v in got if v is UNSET)
        what = "unset-before-v4" if (n_unset and prepared.protocol_version < 4) else "values"
        ctx.fail(key + [what, "mismatch"], "bind(%r).values = %r, expected %r" % (arg, got, verdict[1]))
        return None
    return box[0]


def interpret(case, ctx):
    from cassandra.metadata import Murmur3Token
    pv, cols, assign = case["pv"], case["cols"], dict(case["assign"])
    big = case.get("big")
    if big:
        btype = [c["type"] for c in cols if c["name"] == big["name"]][0]
        assign[big["name"]] = ("%02x" % big["fill"]) * big["len"] if btype == "blob" else chr(big["fill"]) * big["len"]
        ctx.label("key-component-bytes:" + ("<=32767" if big["len"] <= 32767 else "32768..65535"))
    n = len(cols)
    era = "v4+" if pv >= 4 else "pre-v4"
    with ctx.driver(["C30.prepare"]):
        prepared = _prepared(case)
    if ctx._failures:
        return
    rki = expected_rki(case)
    ctx.label("pv=%s" % (pv if pv < 0x40 else hex(pv)), "source:" + case["source"], "variation:" + case["variation"],
              "pk-components=%d" % len(case["pk"]), "rki:" + ("known" if rki else "none"))

    # --- routing indexes as the driver derived them
    got_rki = prepared.routing_key_indexes
    ctx.check((list(got_rki) if got_rki else None) == (rki if rki else None), ["C30.routing-indexes", case["source"]],
              "routing_key_indexes = %r, expected %r (pk %r over markers %r)" % (
                  got_rki, rki, case["pk"], [c["name"] for c in cols]))

    # --- the complete assignment, positionally and by name
    full_model = [assign[c["name"]] for c in cols]
    full_pos = [_to_driver_value(c, assign[c["name"]]) for c in cols]
    full_dict = dict((c["name"], _to_driver_value(c, assign[c["name"]])) for c in cols)
    verdict = model_bind(pv, cols, assign, rki, full_model)
    b_pos = _judge(ctx, "C30.bind.positional", ["full"], prepared, full_pos, verdict)
    b_dict = _judge(ctx, "C30.bind.dict", ["full"], prepared, full_dict, verdict)
    if b_pos is not None and b_dict is not None:
        ctx.check(_norm(b_pos.values) == _norm(b_dict.values), ["C30.bind.positional-vs-dict"],
                  "positional %r != by-name %r" % (b_pos.values, b_dict.values))

    # --- routing key and token of the fully bound statement
    ref_tokens = {}
    for how, b in (("positional", b_pos), ("dict", b_dict)):
        if b is None:
            continue
        rk = None
        with ctx.driver(["C30.routing-key", how]):
            rk = b.routing_key
            if not rki:
                ctx.check(rk is None, ["C30.routing-key", "unroutable-not-none"], "routing_key = %r without routing indexes" % (rk,))
                continue
            parts = [V.encode(TYPES[cols[i]["type"]], assign[cols[i]["name"]], pv) for i in rki]
            want = parts[0] if len(parts) == 1 else composite_key(parts)
            shape = "single" if len(parts) == 1 else "composite"
            if not ctx.check(rk == want, ["C30.routing-key", shape],
                             "routing_key = %r, expected %r (components in key order %r)" % (rk, want, parts)):
                continue
            tok = Murmur3Token.from_key(rk).value
            if want not in ref_tokens:
                ref_tokens[want] = M3.murmur3_token(want)
            ctx.check(tok == ref_tokens[want], ["C30.token", shape],
                      "Murmur3Token.from_key(routing_key) = %r, reference token of the partition key = %r" % (
                          tok, ref_tokens[want]))

    # --- the variation
    var = case["variation"]
    if var in ("short", "long"):
        k = case["n_pos"]
        if k <= n:
            sup_model, sup_drv = full_model[:k], full_pos[:k]
        else:
            sup_model = full_model + [1] * (k - n)
            sup_drv = full_pos + [1] * (k - n)
        v2 = model_bind(pv, cols, assign, rki, sup_model)
        _judge(ctx, "C30.bind.positional", [var, era], prepared, sup_drv, v2)
        if var == "short":
            ctx.label("short:" + era + ":" + v2[0])
    elif var == "omit":
        given_m = dict((k, v) for k, v in assign.items() if k not in case["omit"])
        given_d = dict((k, v) for k, v in full_dict.items() if k not in case["omit"])
        lst = model_dict(pv, cols, given_m)
        v2 = ("error", "missing-name-before-v4") if lst is None else model_bind(pv, cols, assign, rki, lst)
        _judge(ctx, "C30.bind.dict", ["omit", era], prepared, given_d, v2)
        ctx.label("omit:" + era + ":" + v2[0])
    elif var == "unset":
        from cassandra.query import UNSET_VALUE
        sup_model = [UNSET if c["name"] in case["unset"] else assign[c["name"]] for c in cols]
        sup_drv = [UNSET_VALUE if c["name"] in case["unset"] else full_pos[i] for i, c in enumerate(cols)]
        v2 = model_bind(pv, cols, assign, rki, sup_model)
        _judge(ctx, "C30.bind.positional", ["unset", era], prepared, sup_drv, v2)
        d = dict(full_dict)
        for nm in case["unset"]:
            d[nm] = UNSET_VALUE
        _judge(ctx, "C30.bind.dict", ["unset", era], prepared, d, v2)
        ctx.label("unset:" + era + ":" + v2[0])
    elif var == "extra-keys":
        d = dict(full_dict)
        for nm in case["extra"]:
            d[nm] = 123
        _judge(ctx, "C30.bind.dict", ["extra-keys"], prepared, d, verdict)

    out_of_order = bool(rki) and len(rki) >= 2 and rki != sorted(rki)
    if out_of_order:
        ctx.label("composite-out-of-order")
    ctx.nontrivial(out_of_order or (pv >= 4 and var in ("short", "omit", "unset")))


def parts(tier):
    return [hyp_part("bind", s_case, interpret, tier, quick=500, thorough=5000, quick_shards=8, thorough_shards=16)]
