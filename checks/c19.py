"""C19 -- unknown prepared statements are transparently re-prepared."""
import itertools
import os

from hypothesis import strategies as st

from checks import _simfut as F
from checks import _simutil as U
from sim import wire
from vlib.harness import EnumPart, hyp_part

SERIAL = os.environ.get("VERIF_TIER") == "quick"   # heavily loaded machine: forked pool is slower than one process
PID = "C19"
TITLE = "Unknown prepared statements are transparently re-prepared"
LEVEL = "exploration"
ENGINE = "sim"
TECHNIQUE = ("exhaustive enumeration of keyspace situations x PREPARE outcomes plus Hypothesis-generated response sequences "
             "around UNPREPARED over the real Session/ResponseFuture on a deterministic simulated network (protocol v4 frames "
             "and v5 segments); a reference walk predicts every frame sent for the execution and its outcome")
RULE = ("A case: protocol 4 or 5, 1-2 fake nodes that compute statement ids like Cassandra (from the effective keyspace and "
        "the query text), session keyspace none/ks1, Session.prepare with or without an explicit keyspace (v5), optionally "
        "USE ks2 afterwards, the statement executed as a bound statement or inside a batch, optionally dropped from the "
        "cluster's statement cache; the first EXECUTE/BATCH is answered UNPREPARED, the re-PREPARE with one of: the id the "
        "server computes, a forced equal / different id, 5 errors, connection close, a void or rows result; the re-sent "
        "request with rows (sent WITHOUT column metadata when the driver built the EXECUTE with skip_meta; the statement has one "
        "bind marker and two result columns), UNPREPARED again or an error; connections have 3 stream ids and 0-2 warm-up requests, so "
        "every frame of the exchange travels on every stream id (0 included).  Oracle: after UNPREPARED exactly one PREPARE with the same text "
        "(and the statement's keyspace iff protocol 5) goes to the same node; equal id => the request is re-sent there and "
        "its answer is the outcome; different id / error / unexpected result => the request fails and NO further frame is "
        "sent for it.  All cases go past the first UNPREPARED (non-trivial).  Distinct by case digest.")
ASSUMPTIONS = ["network, clock, executor and event loop are simulated (sim/); Cluster, Session, pools, connections, "
               "ResponseFuture are the real classes",
               "statement ids are a function of (keyspace carried by PREPARE or else the connection's keyspace, query text), "
               "as in Cassandra",
               "after a connection loss during the re-prepare only completion is required (moving to another host is allowed)",
               "the fake node leaves the column metadata out of a ROWS result when the driver built the EXECUTE with skip_meta "
               "(the request a correct encoder would put on the wire)"]

QUERY = "SELECT k, v FROM t WHERE k=?"
BIND_COLS = [("k", "int")]                 # one bind marker ...
RESULT_COLS = U.ROW_COLS                   # ... two result columns: bind metadata != result metadata
PREP_ERRORS = {"invalid": "InvalidRequest", "syntax": "SyntaxException", "unauthorized": "Unauthorized",
               "overloaded": "OverloadedErrorMessage", "server_error": "ServerError"}
PREP_MODES = ["compute", "force_same", "force_diff", "void", "rows", "close"] + ["err:" + k for k in sorted(PREP_ERRORS)]


def qid_for(ks, query):
    return ("id|%s|%s" % (ks or "", query)).encode()[:60]


def interpret(case, ctx):
    sim = U.Sim(tape=case.get("tape", []), granularity=case.get("gran", "blocking"))
    try:
        with sim:
            _run(case, ctx, sim)
    except U.StepBudgetExceeded:
        ctx.stats.inconclusive += 1
        ctx.label("inconclusive:step-budget")


def _run(case, ctx, sim):
    from cassandra.cluster import ExecutionProfile
    from cassandra.query import BatchStatement, SimpleStatement
    net = sim.net
    v = case["version"]
    n = case["hosts"]
    conn_ks, prep_ks, use_after = case["conn_ks"], case["prep_ks"], case["use_after"]
    if v < 5:
        prep_ks = None
    rlog = []
    prof = ExecutionProfile(load_balancing_policy=U.fixed_plan_policy(), retry_policy=F.scripted_policy([], rlog),
                            request_timeout=None)
    armed = {"on": False}
    frames = []          # (node index, op, detail) of every frame of this execution once armed
    exec_script = ["unprepared"] + list(case["exec"])
    prep_script = list(case["prep"])
    pos = {"e": 0, "p": 0}
    index = {}

    def handler(node, conn, req):
        if conn.is_control_connection:
            return None
        op = req["op"]
        if op == "PREPARE" and req.get("query") == QUERY:
            eff = req.get("keyspace") or conn.srv_keyspace
            computed = qid_for(eff, QUERY)
            if not armed["on"]:
                return ("reply", "RESULT", wire.result_prepared(req["version"], computed, BIND_COLS, RESULT_COLS, (0,)))
            frames.append((index[node.address], "PREPARE", {"keyspace": req.get("keyspace"), "query": req["query"],
                                                              "stream": req["stream"]}))
            k = pos["p"]
            pos["p"] += 1
            m = prep_script[k] if k < len(prep_script) else "compute"
            if m == "compute":
                qid = computed
            elif m == "force_same":
                qid = orig["qid"]
            elif m == "force_diff":
                qid = orig["qid"] + b"'"
            elif m == "void":
                return ("reply", "RESULT", wire.result_void())
            elif m == "rows":
                return ("reply", "RESULT", wire.result_rows(U.ROW_COLS, [[1, "x"]], version=req["version"]))
            elif m == "close":
                return ("close",)
            else:
                return ("error", m[4:] if m[4:] != "server_error" else "server", {})
            return ("reply", "RESULT", wire.result_prepared(req["version"], qid, BIND_COLS, RESULT_COLS, (0,)))
        if armed["on"] and ((op == "EXECUTE" and req.get("id") == orig.get("qid")) or op == "BATCH"):
            frames.append((index[node.address], op, {"stream": req["stream"]}))
            k = pos["e"]
            pos["e"] += 1
            a = exec_script[k] if k < len(exec_script) else "rows"
            if a == "unprepared":
                return ("error", "unprepared", {"id": orig["qid"]})
            if a == "rows":
                return rows_reply(req)
            return ("error", a, {})
        if armed.get("follow") and op == "EXECUTE" and req.get("id") == orig.get("qid"):
            return rows_reply(req)
        return None

    cur = {}

    def rows_reply(req):
        # An EXECUTE built with skip_meta asks the node to leave the column metadata out of the ROWS result;
        # the rows are then decoded with the statement's own result metadata.  (protocol.py does not write the
        # flag -- the node honours the request the driver built, which is what a fixed encoder would send.)
        msg = getattr(cur.get("fut"), "message", None)
        skip = req["op"] == "EXECUTE" and (req.get("skip_meta") or bool(getattr(msg, "skip_meta", False)))
        if skip:
            skipped["n"] += 1
        return ("reply", "RESULT", wire.result_rows(RESULT_COLS, [[1, "x"]], version=req["version"], no_metadata=skip))

    skipped = {"n": 0}

    orig = {}
    warm = case.get("warm")
    # warm is not None: 3 stream ids per connection and `warm` earlier requests per host, so that over
    # warm = 0, 1, 2 the EXECUTE, the re-PREPARE and the re-sent EXECUTE each travel on every stream id,
    # id 0 included (with the default 300 ids id 0 only comes round every 300th request)
    cluster, session, nodes = F.build(sim, n, prof, version=v, keyspace=conn_ks,
                                      max_in_flight=3 if warm is not None else None)
    index.update((nd.address, i) for i, nd in enumerate(nodes))
    for nd in nodes:
        nd.on_request = handler
    ps = None
    with ctx.driver(["C19.prepare"]):
        if prep_ks is not None:
            ps = sim.call(session.prepare, QUERY, keyspace=prep_ks)
        else:
            ps = sim.call(session.prepare, QUERY)
    if ps is None:
        return
    sim.settle()
    orig["qid"] = ps.query_id
    eff0 = prep_ks or conn_ks
    if ps.query_id != qid_for(eff0, QUERY):
        raise RuntimeError("harness: unexpected original id %r" % (ps.query_id,))
    if use_after:
        with ctx.driver(["C19.set_keyspace"]):
            sim.call(session.set_keyspace, use_after)
        sim.settle()
    eff1 = prep_ks if prep_ks is not None else (use_after or conn_ks)
    if case["stmt"] == "batch":
        stmt = BatchStatement()
        stmt.add(ps.bind((0,)))
    else:
        stmt = ps.bind((0,))
    if case["evicted"]:
        cluster._prepared_statements.pop(ps.query_id, None)

    # ---- reference walk
    want = [(0, "EXECUTE" if case["stmt"] == "bound" else "BATCH")]
    want_ks = prep_ks if v >= 5 else None
    ei = pi = 0
    outcome = None
    lenient = False
    while outcome is None:
        a = exec_script[ei] if ei < len(exec_script) else "rows"
        ei += 1
        if a == "rows":
            outcome = ("result", None)
        elif a != "unprepared":
            outcome = ("error", F.ERRORS[a][1] if a in F.ERRORS else F.FATAL.get(a, a))
        elif case["stmt"] == "batch" and case["evicted"]:
            outcome = ("error", None)           # the driver no longer knows the text of that id
        else:
            want.append((0, "PREPARE"))
            m = prep_script[pi] if pi < len(prep_script) else "compute"
            pi += 1
            if m in ("compute", "force_same", "force_diff"):
                same = (m == "force_same") or (m == "compute" and (eff0 or "") == (eff1 or ""))
                if same:
                    want.append(want[0])
                else:
                    outcome = ("error", "DriverException")
            elif m.startswith("err:"):
                outcome = ("error", PREP_ERRORS[m[4:]])
            elif m in ("void", "rows"):
                outcome = ("error", None)
            else:
                outcome = ("any", None)
                lenient = True

    for _w in range(warm or 0):
        for nd in nodes:
            with ctx.driver(["C19.warmup"]):
                sim.call(session.execute, SimpleStatement("SELECT w FROM warm"), host=F.host_of(cluster, nd.address))
    if ctx._failures:
        return
    stream = {}
    session.add_request_init_listener(lambda f: cur.__setitem__("fut", f))
    armed["on"] = True
    fut = None
    with ctx.driver(["C19.execute_async"]):
        fut = sim.call(session.execute_async, stmt)
    if fut is None:
        return
    sim.settle()
    sim.advance(1.0)
    sim.settle()

    feats = ["stmt=%s" % case["stmt"]]
    got = [(i, op) for (i, op, _d) in frames]
    mode_used = [prep_script[k] if k < len(prep_script) else "compute" for k in range(pi)]
    last_mode = mode_used[-1] if mode_used else "none"
    if outcome == ("error", "DriverException"):
        last_mode = "id-mismatch"
    elif last_mode.startswith("err:"):
        last_mode = "error"
    elif last_mode in ("void", "rows"):
        last_mode = "unexpected-result"
    elif last_mode in ("compute", "force_same"):
        last_mode = "same-id"
    if lenient:
        # connection lost during the re-prepare: the prefix must match, afterwards nothing goes to the lost node
        if got[:len(want)] != want:
            ctx.fail(["C19.frames", "before-connection-loss"] + feats, "frames %r, expected prefix %r" % (got, want))
        elif any(i == 0 for (i, _op) in got[len(want):]):
            ctx.fail(["C19.frames", "after-connection-loss", "same-node"] + feats,
                     "frames %r: the node whose connection was lost got further frames" % (got,))
        if not F.done(fut):
            ctx.fail(["C19.outcome", "incomplete", "after-connection-loss"] + feats, "future has no outcome; frames %r" % (got,))
    else:
        if got != want:
            if len(got) > len(want) and got[:len(want)] == want:
                kind = "extra-after-%s" % ("failure" if outcome[0] == "error" else "result")
                ctx.fail(["C19.frames", kind, "prepare=%s" % last_mode] + feats,
                         "protocol v%d: frames sent for the execution %r, expected only %r (re-prepare answered %r, outcome expected %r)" % (
                             v, got, want, mode_used, outcome))
            elif len(got) < len(want) and want[:len(got)] == got:
                ctx.fail(["C19.frames", "missing-%s" % want[len(got)][1], "prepare=%s" % last_mode] + feats,
                         "frames sent for the execution %r, expected %r (re-prepare answered %r)" % (got, want, mode_used))
            else:
                ctx.fail(["C19.frames", "different", "prepare=%s" % last_mode] + feats,
                         "frames sent for the execution %r, expected %r (re-prepare answered %r)" % (got, want, mode_used))
        for (i, op, d) in frames:
            if op == "PREPARE":
                if d["query"] != QUERY:
                    ctx.fail(["C19.prepare-frame", "text"] + feats, "re-prepared %r instead of %r" % (d["query"], QUERY))
                if d["keyspace"] != want_ks:
                    ctx.fail(["C19.prepare-frame", "keyspace", "want=%s" % ("set" if want_ks else "absent")] + feats,
                             "re-PREPARE carries keyspace %r, the statement was prepared with %r on protocol %d" % (
                                 d["keyspace"], prep_ks, v))
                    break
        if any(k[:2] == ["C19.frames", "extra-after-failure"] for k, _m in ctx._failures):
            pass        # the outcome now depends on the answers to frames that should not exist
        elif not F.done(fut):
            ctx.fail(["C19.outcome", "incomplete", "prepare=%s" % last_mode] + feats, "future has no outcome; frames %r" % (got,))
        else:
            res = []

            def get():
                try:
                    res.append(("result", [tuple(r) for r in fut.result()]))
                except Exception as e:  # noqa
                    res.append(("error", e))
            sim.call(get)
            kind, val = res[0]
            if outcome[0] == "result":
                if kind != "result" or val != [(1, "x")]:
                    ctx.fail(["C19.outcome", "expected=rows", "got=%s" % (kind if kind == "result" else F.exc_name(val)),
                              "prepare=%s" % last_mode] + feats,
                             "expected the rows of the re-sent request, got %r (frames %r)" % (val, got))
            elif kind != "error":
                ctx.fail(["C19.outcome", "expected=error", "got=result", "prepare=%s" % last_mode] + feats,
                         "expected %r, got rows %r (frames %r)" % (outcome, val, got))
            elif outcome[1] is not None and F.exc_name(val) != outcome[1]:
                ctx.fail(["C19.outcome", "expected=%s" % outcome[1], "got=%s" % F.exc_name(val), "prepare=%s" % last_mode] + feats,
                         "expected %s, got %r" % (outcome[1], val))
            elif outcome[1] is None and isinstance(val, (AttributeError, TypeError, NameError, AssertionError, KeyError)):
                ctx.fail(["C19.outcome", "internal-error", F.exc_name(val), "prepare=%s" % last_mode] + feats,
                         "the request failed with an internal error instead of a driver/server error: %r" % (val,))
            ctx.label("outcome:%s" % (outcome[1] or outcome[0]))
            if outcome[0] == "result" and kind == "result" and case["stmt"] == "bound" and pi >= 1:
                # transparent: the statement object is as usable as before -- its result metadata still
                # describes the result columns, and the next execution decodes its rows
                names = [c[2] if isinstance(c, (tuple, list)) else getattr(c, "name", None) for c in (ps.result_metadata or [])]
                if names != [c[0] for c in RESULT_COLS]:
                    ctx.fail(["C19.statement", "result-metadata"] + feats,
                             "after the re-prepare the statement's result metadata names %r, the node's PREPARED response "
                             "says %r" % (names, [c[0] for c in RESULT_COLS]))
                armed["on"] = False
                armed["follow"] = True
                res2 = []

                def again():
                    try:
                        res2.append(("result", [tuple(r) for r in session.execute(ps.bind((0,)))]))
                    except Exception as e:  # noqa
                        res2.append(("error", e))
                sim.call(again)
                if res2[0] != ("result", [(1, "x")]):
                    ctx.fail(["C19.statement", "next-execution", "got=%s" % (
                        "rows" if res2[0][0] == "result" else F.exc_name(res2[0][1]))] + feats,
                        "the execution after the transparent re-prepare returned %r, the node sent [(1, 'x')]" % (res2[0][1],))
                ctx.label("follow-up-execution")
    if skipped["n"]:
        ctx.label("rows-without-metadata")
    for (_i, op, d) in frames:
        if d.get("stream") == 0:
            ctx.label("stream0:%s" % op)
    ctx.label("v%d" % v, "stmt=%s" % case["stmt"], "rounds=%d" % pi, "ks:%s/%s/%s" % (conn_ks, prep_ks, use_after))
    for m in mode_used:
        ctx.label("prepare=%s" % m)
    if case["evicted"]:
        ctx.label("evicted")
    ctx.nontrivial(True)


# --------------------------------------------------------------------------- enumeration
def _ks_situations():
    for v in (4, 5):
        for conn_ks in (None, "ks1"):
            for prep_ks in ((None,) if v == 4 else (None, "ks1", "ksx")):
                for use_after in (None, "ks2"):
                    yield v, conn_ks, prep_ks, use_after


def _chunks(tier):
    out = []
    for stmt in ("bound", "batch"):
        for evicted in (False, True):
            if tier == "quick" and evicted and stmt == "bound":
                continue
            out.append({"stmt": stmt, "evicted": evicted, "hosts": 1})
    out.append({"stmt": "bound", "evicted": False, "hosts": 2})
    if tier != "quick":
        out.append({"stmt": "batch", "evicted": False, "hosts": 2})
        out.append({"stmt": "bound", "evicted": True, "hosts": 1})
    return out


def _cases(chunk):
    for si, (v, conn_ks, prep_ks, use_after) in enumerate(_ks_situations()):
        for mi, m in enumerate(PREP_MODES):
            yield {"warm": (si + mi) % 3, "version": v, "hosts": chunk["hosts"], "conn_ks": conn_ks, "prep_ks": prep_ks, "use_after": use_after,
                   "stmt": chunk["stmt"], "evicted": chunk["evicted"], "prep": [m], "exec": ["rows"],
                   "tape": [], "gran": "blocking"}


def s_case(gran):
    mode = st.sampled_from(PREP_MODES + ["compute", "force_same", "force_same"])
    ex = st.sampled_from(["rows", "rows", "unprepared", "unprepared", "unavailable", "invalid"])
    return st.fixed_dictionaries({
        "warm": st.sampled_from([0, 1, 2]),
        "version": st.sampled_from([4, 5]),
        "hosts": st.sampled_from([1, 2]),
        "conn_ks": st.sampled_from([None, "ks1"]),
        "prep_ks": st.sampled_from([None, None, "ks1", "ksx"]),
        "use_after": st.sampled_from([None, None, "ks2"]),
        "stmt": st.sampled_from(["bound", "bound", "batch"]),
        "evicted": st.sampled_from([False, False, True]),
        "prep": st.lists(mode, max_size=3),
        "exec": st.lists(ex, max_size=3),
        "tape": st.lists(st.integers(0, 3), max_size=30 if gran == "locks" else 6),
        "gran": st.just(gran),
    })


def parts(tier):
    return [
        EnumPart("situations", _chunks(tier), _cases, interpret),
        hyp_part("generated", lambda: s_case("blocking"), interpret, tier, quick=200, thorough=2500,
                 quick_shards=1, thorough_shards=8),
        hyp_part("locks", lambda: s_case("locks"), interpret, tier, quick=40, thorough=500,
                 quick_shards=1, thorough_shards=4),
    ]
