"""Shared machine for the connection / pool checks C09, C10, C12, C13.

One case = one history over a real Cluster + Session whose pool to the single fake node is the
real `HostConnection` (protocol v3+) or `HostConnectionPool` (v1/v2).  Requests go through
`Session.execute_async`; each carries a unique tag in its query string which the fake node
echoes back in the RESULT row (or in the error message), so whoever receives a response can
tell whose it is.  The node holds every user query; the generated events decide what is
answered when, what times out, which connection dies how, when pools are shut down/renewed.

Instrumentation (observation only, no behaviour change):
  * the connection class is a subclass of sim's SimConnection whose `send_msg` wraps the
    handler so that every invocation of every handler is logged (`Rec.calls`), and whose
    `close()` first records a snapshot of the connection (who closes it, which handlers are
    still registered, orphans, in_flight) -- "the state at the moment close() is called";
  * `pool.shutdown` of both pool classes is wrapped to record when a pool was shut down and
    what it held at that moment; HostConnection._replace is wrapped to record its argument;
  * cassandra.pool reads a coarser creeping clock (PoolClock).
The four checks supply observers (`after_event`, `final_answered`, `final_shutdown`) that
evaluate their own invariants on this record.
"""
import os
import struct
import sys

import sim  # noqa: F401
from checks import _simutil as U
from sim import wire
from sim.vthreads import VTime
from sim.world import seg_encode

PREFIX = "SELECT k FROM t WHERE id="
ADDR = "10.0.0.1"

TIMEOUTS = [0.3, 1.0, 5.0, None]
ERR_ANSWERS = ["unavailable", "overloaded", "read_timeout", "write_timeout", "server_error", "invalid"]
FAIL_ANSWERS = ["garbage", "protocol", "protocol-unsupported", "neglen", "close", "reset", "eof", "garbage+next",
                "protocol+next", "protocol-unsupported+next"]
# text real servers put into the ERROR 0x000A they answer a frame of a protocol version they do not speak with;
# the driver looks for this phrase (downgrade during negotiation) -- on an established connection it is a
# protocol error like any other
UNSUPPORTED_TEXT = "Invalid or unsupported protocol version (66); supported versions are (3/v3, 4/v4, 5/v5-beta)"
KEYSPACES = ["ks1", "ks2"]


class PoolClock(VTime):
    """`time` as seen by cassandra.pool: a clock reading costs 100 virtual microseconds instead of sim's 1.
    HostConnection.borrow_connection busy-waits (no blocking call in its loop) while the pool's connection is
    closed and its replacement has not been installed yet -- for the whole connect delay, up to its 2 s timeout;
    at 1 us per iteration that is up to two million iterations per borrower, at 100 us it is twenty thousand."""
    TICK = 1e-4


def tag_of_query(q):
    if isinstance(q, str) and q.startswith(PREFIX):
        try:
            return int(q[len(PREFIX):])
        except ValueError:
            return None
    return None


def _caller(depth=2):
    """the innermost driver frame (pool.py / cluster.py / connection.py) below the hook"""
    f = sys._getframe(depth)
    while f is not None:
        fn = f.f_code.co_filename.replace("\\", "/")
        for mod in ("pool", "cluster", "connection"):
            if fn.endswith("cassandra/%s.py" % mod):
                return "%s.%s" % (mod, f.f_code.co_name)
        f = f.f_back
    return "harness"


def _pool_caller(depth=2):
    """the innermost frame inside cassandra/pool.py, else the innermost one in cluster.py other than
    connection_factory (skips connection.py)"""
    f = sys._getframe(depth)
    fallback = None
    while f is not None:
        fn = f.f_code.co_filename.replace("\\", "/")
        if fn.endswith("cassandra/pool.py"):
            return "pool.%s" % f.f_code.co_name
        if fn.endswith("cassandra/cluster.py") and fallback is None and f.f_code.co_name != "connection_factory":
            fallback = "cluster.%s" % f.f_code.co_name
        f = f.f_back
    return fallback or "harness"


class Rec(object):
    """one handler registered with send_msg on one connection"""
    __slots__ = ("conn", "stream", "msg", "tag", "calls", "refused", "t", "seq", "wrapped", "op")

    def __init__(self, conn, stream, msg, seq, t):
        self.conn, self.stream, self.msg, self.seq, self.t = conn, stream, msg, seq, t
        self.tag = tag_of_query(getattr(msg, "query", None))
        self.op = type(msg).__name__
        self.calls = []          # [(time, response)]
        self.refused = None
        self.wrapped = None

    def __repr__(self):
        return "<Rec #%d conn=%d stream=%s %s tag=%s calls=%d>" % (
            self.seq, self.conn.sim_id, self.stream, self.op, self.tag, len(self.calls))


class SReq(object):
    """one user query as seen by the server"""
    __slots__ = ("node", "conn", "req", "tag", "stream", "answered", "t", "seq", "dropped", "late", "t_answered",
                 "delivery_checked", "recs_before")

    def __init__(self, node, conn, req, seq, t):
        self.node, self.conn, self.req, self.seq, self.t = node, conn, req, seq, t
        self.tag = tag_of_query(req.get("query"))
        self.stream = req["stream"]
        self.answered = None      # kind of the response the server sent (None: still unanswered)
        self.dropped = False      # the server decided never to answer
        self.late = False         # answered after the request's future had already completed
        self.t_answered = None
        self.recs_before = None   # number of handlers registered (machine-wide) when the server answered
        self.delivery_checked = False

    def __repr__(self):
        return "<SReq conn=%d stream=%d tag=%s %s>" % (self.conn.sim_id, self.stream, self.tag, self.answered)


class FutRec(object):
    def __init__(self, tag, timeout):
        self.tag, self.timeout = tag, timeout
        self.actor = None
        self.future = None
        self.pair = U.CallbackPair("t%d" % tag)
        self.attached = False
        self.raised = None
        self.t_start = None
        self.pool_conn_at_start = None
        self.start_info = None

    @property
    def done(self):
        return self.pair.total > 0 or self.raised is not None


def describe_response(resp):
    n = type(resp).__name__
    if isinstance(resp, Exception):
        return "%s(%s)" % (n, str(resp)[:80])
    return n


class Machine(object):
    def __init__(self, case, ctx, sim_, pid):
        self.case, self.ctx, self.sim, self.pid = case, ctx, sim_, pid
        self.net = sim_.net
        self.recs = []
        self.sreqs = []
        self._sreq_by_id = {}
        self._scanned = 0
        self.futs = {}
        self.next_tag = 1
        self.closes = []          # snapshots taken when close() is called on an open connection
        self.shutdowns = {}       # id(pool) -> snapshot
        self.pools = []           # every pool object ever seen (strong refs)
        self.dead_borrows = []    # results of borrow attempts on shut-down pools
        self.session_down = False
        self.observers = []
        self.counts = dict(sent=0, answered=0, late=0, timeouts=0, kills=0, exhausted=0, reuse=0, replaced=0,
                           trashed=0, dead_borrows=0, failures=0, renew=0, blocked_sends=0, dropped=0, eof=0, unsupported=0,
                           use=0, use_same=0)
        self.injected = []        # (connection, kind) of every failure the history injected
        self.fail_points = []     # filled by the conn failure hook: snapshots with by == defunct/close paths
        self.hb_drop = False
        self.cp_sessions = []     # (conn, stream, session, log)
        self.replace_args = []    # (pool, connection to be replaced, time) of every HostConnection._replace call

    # ------------------------------------------------------------------ set-up
    def build(self, cluster_kwargs=None, profile_kwargs=None):
        import cassandra.pool as P
        from cassandra.cluster import EXEC_PROFILE_DEFAULT, ExecutionProfile
        from cassandra.policies import ConstantReconnectionPolicy, ConvictionPolicy, HostDistance
        case, sim_, net = self.case, self.sim, self.net
        sim_.patch.set(P, "time", PoolClock(sim_.world))
        self._wrap_shutdown(P.HostConnection)
        self._wrap_shutdown(P.HostConnectionPool)
        self._wrap_replace(P.HostConnection)
        self.node = net.add_node(ADDR, versions=tuple(case.get("versions", (1, 2, 3, 4, 5))))
        hold = U.hold_user_queries(PREFIX)
        m = self

        def on_request(node, conn, req):
            if req["op"] == "OPTIONS" and m.hb_drop and conn.connected_event.is_set():
                return ("drop",)
            return hold(node, conn, req)
        self.node.on_request = on_request
        self.node.connect_delay = 0.0
        self.conn_class = self._make_conn_class()
        self.conn_class.max_in_flight = case["mif"]
        self.conn_class.orphaned_threshold = case["thr"]
        self.rlog = []
        pk = dict(load_balancing_policy=U.fixed_plan_policy(),
                  retry_policy=U.scripted_retry_policy(case.get("decisions", []), self.rlog),
                  request_timeout=10.0)
        pk.update(profile_kwargs or {})
        prof = ExecutionProfile(**pk)
        convict = case.get("convict", True)

        class Conviction(ConvictionPolicy):
            def add_failure(self, exc):
                return convict

            def reset(self):
                pass
        ck = dict(connection_class=self.conn_class, execution_profiles={EXEC_PROFILE_DEFAULT: prof},
                  conviction_policy_factory=Conviction, reconnection_policy=ConstantReconnectionPolicy(0.5),
                  protocol_version=case["pv"])
        hb = case.get("hb", 0)
        if hb:
            ck["idle_heartbeat_interval"] = hb
            ck["idle_heartbeat_timeout"] = 5
        ck.update(cluster_kwargs or {})
        self.cluster = sim_.make_cluster([ADDR], **ck)
        pc = case.get("poolcfg")
        if case["pv"] < 3 and pc:
            self.cluster.set_min_requests_per_connection(HostDistance.LOCAL, pc["min_req"])
            self.cluster.set_max_requests_per_connection(HostDistance.LOCAL, pc["max_req"])
            self.cluster.set_max_connections_per_host(HostDistance.LOCAL, pc["max"])
            self.cluster.set_core_connections_per_host(HostDistance.LOCAL, pc["core"])
        self.session = sim_.call(self.cluster.connect, wait_for_all_pools=True)
        sim_.settle()
        self.host = self.cluster.metadata.all_hosts()[0]
        self.node.connect_delay = case.get("delay", 0.0)
        self.scan()

    def _wrap_shutdown(self, cls):
        orig = cls.__dict__["shutdown"]
        m = self

        def shutdown(pool):
            m.mark_installed()
            if id(pool) not in m.shutdowns and not pool.is_shutdown:
                try:
                    cur = pool.get_connections()
                except AttributeError:
                    cur = []
                m.shutdowns[id(pool)] = dict(pool=pool, t=m.sim.world.now, current=list(cur or []),
                                             trash=list(pool._trash), by=_pool_caller(),
                                             installed_before=[c for c in m.net.conns if getattr(c, "seen_installed", False)])
                if pool not in m.pools:
                    m.pools.append(pool)
            return orig(pool)
        shutdown.__name__ = "shutdown"
        self.sim.patch.set(cls, "shutdown", shutdown)

    def _wrap_replace(self, cls):
        """record which connections HostConnection._replace was asked to replace"""
        orig = cls.__dict__["_replace"]
        m = self

        def _replace(pool, connection):
            m.replace_args.append((pool, connection, m.sim.world.now))
            return orig(pool, connection)
        _replace.__name__ = "_replace"
        self.sim.patch.set(cls, "_replace", _replace)

    def _make_conn_class(self):
        base = self.net.connection_class()
        m = self

        class PoolSimConnection(base):
            def __init__(self, *a, **kw):
                self.creator = _pool_caller()
                self.handlers = []
                self.close_snapshot = None
                self.factory_returned_at = None
                self.seen_installed = False     # observed as its pool's current or trashed connection
                base.__init__(self, *a, **kw)

            @classmethod
            def factory(cls, endpoint, timeout, *a, **kw):
                conn = base.factory.__func__(cls, endpoint, timeout, *a, **kw)
                conn.factory_returned_at = m.sim.world.now
                return conn

            def send_msg(self, msg, request_id, cb, *a, **kw):
                rec = Rec(self, request_id, msg, len(m.recs), m.sim.world.now)

                def handler(response, _rec=rec, _cb=cb):
                    _rec.calls.append((m.sim.world.now, response))
                    return _cb(response)
                rec.wrapped = handler
                m.recs.append(rec)
                self.handlers.append(rec)
                try:
                    return base.send_msg(self, msg, request_id, handler, *a, **kw)
                except BaseException as e:
                    rec.refused = e
                    raise

            def close(self):
                if not self.is_closed:
                    m._on_close(self)
                return base.close(self)

            def new_continuous_paging_session(self, stream_id, decoder, row_factory, state):
                s = base.new_continuous_paging_session(self, stream_id, decoder, row_factory, state)
                log = []
                orig_on_error = s.on_error

                def on_error(error):
                    log.append((m.sim.world.now, error))
                    return orig_on_error(error)
                s.on_error = on_error
                m.cp_sessions.append((self, stream_id, s, log))
                return s
        return PoolSimConnection

    # ---------------------------------------------------------------- observation
    def pool_of(self, conn):
        cb = getattr(conn, "_on_orphaned_stream_released", None)
        return getattr(cb, "__self__", None)

    def mark_installed(self):
        for p in self.pools:
            try:
                cur = list(p.get_connections() or [])
            except AttributeError:      # a HostConnectionPool still inside its __init__
                cur = []
            for c in cur + list(getattr(p, "_trash", ())):
                c.seen_installed = True

    def pooled_conns(self):
        out = []
        for c in self.net.conns:
            p = self.pool_of(c)
            if p is not None:
                if p not in self.pools:
                    self.pools.append(p)
                out.append(c)
        return out

    def current_pool(self):
        try:
            return self.session._pools.get(self.host)
        except Exception:  # noqa
            return None

    def _on_close(self, conn):
        self.mark_installed()
        pool = self.pool_of(conn)
        registered = dict(conn._requests)
        snap = dict(conn=conn, t=self.sim.world.now, by=_caller(3), pool_by=_pool_caller(3), defunct=conn.is_defunct,
                    requests=registered, orphans=set(conn.orphaned_request_ids), in_flight=conn.in_flight,
                    threshold=conn.orphaned_threshold_reached, pool=pool,
                    pool_shutdown=bool(pool is not None and pool.is_shutdown),
                    in_trash=bool(pool is not None and conn in getattr(pool, "_trash", ())),
                    pending=[r for r in conn.handlers
                             if not r.calls and r.refused is None and registered.get(r.stream, (None,))[0] is r.wrapped],
                    cp=[(sid, s) for (c, sid, s, _l) in self.cp_sessions
                        if c is conn and conn._continuous_paging_sessions.get(sid) is s],
                    unanswered=[s for s in self.sreqs if s.conn is conn and s.answered is None],
                    live_futs=[])
        conn.close_snapshot = snap
        self.closes.append(snap)

    def scan(self):
        """fold new server-side arrivals and finished execute_async calls into the record"""
        reqs = self.net.requests
        new = []
        while self._scanned < len(reqs):
            node, conn, req = reqs[self._scanned]
            self._scanned += 1
            if req["op"] == "QUERY" and tag_of_query(req.get("query")) is not None and not conn.is_control_connection:
                s = SReq(node, conn, req, len(self.sreqs), self.sim.world.now)
                self.sreqs.append(s)
                self._sreq_by_id[id(req)] = s
                new.append(s)
        for f in self.futs.values():
            if f.actor is not None and f.actor.done and not f.attached:
                f.attached = True
                if "exc" in f.actor.box:
                    f.raised = f.actor.box["exc"]
                else:
                    f.future = f.actor.box.get("result")
                    f.future.add_callbacks(f.pair.on_result, f.pair.on_error)
        self.pooled_conns()
        self.mark_installed()
        return new

    def replace_running(self):
        """a pool replacement task (HostConnection._replace) is queued or running on the executor"""
        for ex in self.sim.executors:
            for a in ex.tasks:
                if not a.done and a.name == "task:_replace":
                    return True
        return False

    def unanswered(self, conn):
        return [s for s in self.sreqs if s.conn is conn and s.answered is None]

    def held(self):
        return U.all_held(self.net)

    # --------------------------------------------------------------------- events
    def send(self, timeout_idx):
        from cassandra.query import SimpleStatement
        tag = self.next_tag
        self.next_tag += 1
        t = TIMEOUTS[timeout_idx % len(TIMEOUTS)]
        f = FutRec(tag, t)
        f.t_start = self.sim.world.now
        pool = self.current_pool()
        if pool is not None and hasattr(pool, "_connection") and not self.replace_running():
            f.pool_conn_at_start = pool._connection
        x = getattr(pool, "_connection", None)
        if x is not None and not pool.is_shutdown:
            f.start_info = dict(pool=pool, conn=x, orphans=len(x.orphaned_request_ids), thr=x.orphaned_threshold,
                                replacing=self.replace_running(), dead=bool(x.is_closed or x.is_defunct))
        self.futs[tag] = f
        stmt = SimpleStatement(PREFIX + str(tag))
        f.actor = self.sim.spawn(self.session.execute_async, stmt, timeout=t)
        self.counts["sent"] += 1
        return f

    def answer(self, i, kind):
        held = self.held()
        if not held:
            return None
        node, conn, req = held[i % len(held)]
        return self.answer_req(node, conn, req, kind)

    def _frame(self, conn, req, opcode, body):
        return wire.frame(req["version"], req["stream"], opcode, body)

    def _raw(self, conn, data):
        self.net.server_send(conn, seg_encode(data) if conn.srv_segmented else data)

    def answer_req(self, node, conn, req, kind):
        s = self._sreq_by_id.get(id(req))
        tag = s.tag if s is not None else None
        if s is not None:
            if kind == "drop":
                s.dropped = True
            else:
                s.answered = kind
                s.t_answered = self.sim.world.now
                s.recs_before = len(self.recs)
                fut = self.futs.get(tag)
                if fut is not None and fut.done:
                    s.late = True
                    self.counts["late"] += 1
        for i, (c, r) in enumerate(node.held):
            if r is req:
                del node.held[i]
                break
        self.counts["answered"] += 1
        v = req["version"]
        if kind == "rows":
            node.reply(conn, req, "RESULT", wire.result_rows(U.ROW_COLS, [[tag, "t%s" % tag]], version=v))
        elif kind == "void":
            node.reply(conn, req, "RESULT", wire.result_void())
        elif kind == "server_error":
            node.reply_error(conn, req, "server", "boom tag=%s" % tag)
        elif kind in ERR_ANSWERS:
            node.reply_error(conn, req, kind, "simulated %s tag=%s" % (kind, tag))
        elif kind == "drop":
            self.counts["dropped"] += 1
        elif kind in ("close", "reset"):
            self.counts["failures"] += 1
            self.injected.append((conn, kind))
            U.answer(node, conn, req, kind)
        elif kind == "eof":
            self.counts["failures"] += 1
            self.counts["eof"] += 1
            self.injected.append((conn, kind))
            self.net.server_close(conn, eof=True)
        elif kind.split("+")[0] in ("garbage", "protocol", "protocol-unsupported", "neglen"):
            self.counts["failures"] += 1
            # a body is only decoded when a handler is registered for its stream (a response to an orphaned
            # stream is discarded unread); a negative length is seen in the header whoever the stream belongs to
            if kind.startswith("neglen") or req["stream"] in conn._requests:
                self.injected.append((conn, kind))
            base = kind.split("+")[0]
            if base == "garbage":
                fr = self._frame(conn, req, "RESULT", b"\x00\x00\x00\x02garbage")
            elif base == "protocol":
                fr = self._frame(conn, req, "ERROR", wire.error_body(v, "protocol", "simulated protocol error tag=%s" % tag))
            elif base == "protocol-unsupported":
                self.counts["unsupported"] += 1
                fr = self._frame(conn, req, "ERROR", wire.error_body(v, "protocol", UNSUPPORTED_TEXT + " tag=%s" % tag))
            else:
                hdr = wire.frame(v, req["stream"], "RESULT", b"")
                fr = hdr[:-4] + struct.pack(">i", -1)
            if kind.endswith("+next"):
                # a valid response for another request pending on the same connection, in the same read
                for (c2, r2) in list(node.held):
                    if c2 is conn and r2 is not req:
                        s2 = self._sreq_by_id.get(id(r2))
                        if s2 is not None:
                            s2.answered = "rows-after-failure"
                        node.held.remove((c2, r2))
                        fr += wire.frame(r2["version"], r2["stream"], "RESULT",
                                         wire.result_rows(U.ROW_COLS, [[s2.tag if s2 else -1, "late"]], version=v))
                        break
            self._raw(conn, fr)
        else:
            raise ValueError(kind)
        return s

    def open_pooled(self):
        return [c for c in self.pooled_conns() if not c.is_closed and not c.is_defunct]

    def kill(self, i, how):
        conns = self.open_pooled()
        if not conns:
            return None
        conn = conns[i % len(conns)]
        self.counts["kills"] += 1
        self.injected.append((conn, how))
        if how == "close":
            self.net.server_close(conn)
        elif how == "eof":
            self.counts["eof"] += 1
            self.net.server_close(conn, eof=True)
        elif how == "reset":
            self.net.socket_error(conn)
        else:
            self.sim.spawn(conn.close)
        return conn

    def use(self, i):
        """switch the session's keyspace (USE through the session: every pool then sets it on its connections)"""
        ks = KEYSPACES[i % len(KEYSPACES)]
        self.counts["use"] += 1
        if ks == self.session.keyspace:
            self.counts["use_same"] += 1
        self.sim.spawn(self.session.execute_async, 'USE "%s"' % ks)

    def renew(self):
        self.counts["renew"] += 1
        self.sim.spawn(self.session.add_or_renew_pool, self.host, False)

    def shutdown_session(self):
        if not self.session_down:
            self.session_down = True
            self.sim.spawn(self.session.shutdown)

    def borrow_dead(self, i=0):
        dead = [p for p in self.pools if p.is_shutdown]
        if not dead:
            return False
        pool = dead[i % len(dead)]
        box = {"pool": pool}
        self.counts["dead_borrows"] += 1

        def attempt():
            try:
                box["got"] = pool.borrow_connection(timeout=0.2)
            except Exception as e:  # noqa
                box["exc"] = e
        box["actor"] = self.sim.spawn(attempt)
        self.dead_borrows.append(box)
        return True

    def apply(self, ev):
        k = ev[0]
        if k == "send":
            if self.session_down:
                self.borrow_dead(ev[1])
            else:
                self.send(ev[1])
        elif k == "burst":
            for _ in range(ev[1]):
                if not self.session_down:
                    self.send(ev[2])
        elif k == "answer":
            self.answer(ev[1], ev[2])
        elif k == "advance":
            self.sim.advance(ev[1])
        elif k == "kill":
            self.kill(ev[1], ev[2])
        elif k == "refuse":
            self.node.refuse_next = ev[1]
        elif k == "delay":
            self.node.connect_delay = ev[1]
        elif k == "renew":
            if not self.session_down:
                self.renew()
        elif k == "session_shutdown":
            self.shutdown_session()
        elif k == "borrow_dead":
            self.borrow_dead(ev[1])
        elif k == "hb_drop":
            self.hb_drop = bool(ev[1])
        elif k == "use":
            if not self.session_down:
                self.use(ev[1])
        else:
            raise ValueError("unknown event %r" % (ev,))

    # ------------------------------------------------------------------ driver
    def run(self, events):
        ok = True
        for n, ev in enumerate(events):
            self.apply(ev)
            self.sim.settle()
            self.scan()
            for o in self.observers:
                o.after_event(self, "after event %d %r" % (n, list(ev)))
            if self.ctx._failures:
                ok = False
                break
        return ok

    def drain_answers(self, limit=400):
        """answer every request the server still holds (rows, echoing the tag) without letting time pass"""
        for _ in range(limit):
            self.sim.settle()
            self.scan()
            held = self.held()
            if not held:
                break
            node, conn, req = held[0]
            self.answer_req(node, conn, req, "rows")
        self.sim.settle()
        self.scan()

    def finish(self):
        """common ending: answer everything, check; shut everything down, let pending work finish, check"""
        self.drain_answers()
        for o in self.observers:
            o.after_event(self, "after drain")
            o.final_answered(self)
        if not self.session_down and self.case.get("end") == "session":
            self.sim.spawn(self.session.shutdown)
            self.sim.settle()
        self.sim.call(self.cluster.shutdown)
        self.sim.advance(self.node.connect_delay + 6.0)
        self.drain_answers()
        self.sim.advance(1.0)
        self.scan()
        for o in self.observers:
            o.final_shutdown(self)

    def thread_errors(self, key_prefix):
        for name, e in self.sim.world.actor_errors:
            self.ctx.fail([key_prefix + ".thread-error", type(e).__name__],
                          "virtual thread %s died with %r" % (name, e))
            break

    def common_labels(self):
        c, ctx = self.counts, self.ctx
        case = self.case
        ctx.label("pv=%d" % case["pv"], "mif=%d" % min(case["mif"], 9), "thr=%d" % min(case["thr"], 4),
                  "convict" if case.get("convict", True) else "no-convict")
        for k in ("late", "kills", "failures", "renew", "dead_borrows", "dropped", "eof", "unsupported", "use", "use_same"):
            if c[k]:
                ctx.label("has:" + k)
        if self.session_down:
            ctx.label("has:session-shutdown-mid-history")
        n_conns = len(self.pooled_conns())
        ctx.label("pooled-conns=%d" % min(n_conns, 5))
        if any(f.pair.eb and type(f.pair.eb[0]).__name__ == "OperationTimedOut" for f in self.futs.values()):
            ctx.label("has:client-timeout")
        if self.rlog:
            ctx.label("has:retry-consulted")
        if len(self.pools) > 1:
            ctx.label("has:several-pools")


class Observer(object):
    def after_event(self, m, where):
        pass

    def final_answered(self, m):
        pass

    def final_shutdown(self, m):
        pass


# ------------------------------------------------------------------ strategies
WEIGHTS = {
    # kind -> weight; "fails" = how many connection failures (failing answers + kills) a history may contain
    "c09": dict(send=7, normal=6, adv_short=4, adv_long=1, err=1, drop=1, fail=1, kill=1, fails=[0, 0, 0, 1, 1, 2]),
    "c10": dict(send=7, normal=2, adv_short=2, adv_long=0, err=1, drop=0, fail=3, kill=2, fails=[1, 1, 2, 3]),
    "c12": dict(send=7, normal=4, adv_short=3, adv_long=2, err=1, drop=1, fail=1, kill=1, refuse=1, delay=1, renew=1,
                sshut=1, bdead=1, use=2, fails=[0, 1, 1, 2, 3]),
    "c13": dict(send=8, normal=4, adv_short=6, adv_long=1, err=1, drop=0, fail=1, kill=1, refuse=1, delay=1,
                fails=[0, 0, 1]),
}


def s_poolcfg(st):
    return st.sampled_from([
        {"core": 1, "max": 1, "min_req": 0, "max_req": 2},
        {"core": 1, "max": 2, "min_req": 0, "max_req": 1},
        {"core": 1, "max": 2, "min_req": 1, "max_req": 2},
        {"core": 1, "max": 3, "min_req": 0, "max_req": 1},
        {"core": 2, "max": 2, "min_req": 0, "max_req": 2},
        {"core": 2, "max": 3, "min_req": 1, "max_req": 2},
    ])


def s_history(st, draw, profile, n, fail_kinds=None):
    """a list of events drawn against a rough model of the world (how many requests are probably
    outstanding), so that answers mostly have something to answer and failures are budgeted"""
    W = WEIGHTS[profile]
    bag = []
    for k, w in W.items():
        if k != "fails":
            bag.extend([k] * int(w))
    fails = draw(st.sampled_from(W["fails"]))
    events = []
    out = 0
    down = False
    for _ in range(n):
        k = draw(st.sampled_from(bag))
        if k in ("normal", "err", "drop", "fail") and out == 0:
            k = "send"
        if k in ("fail", "kill"):
            if fails <= 0:
                k = "send"
            else:
                fails -= 1
        if k == "send":
            events.append(["send", draw(st.sampled_from([0, 0, 0, 1, 1, 2, 3]))])
            out += 0 if down else 1
        elif k == "normal":
            events.append(["answer", draw(st.integers(0, out - 1)), draw(st.sampled_from(["rows", "rows", "rows", "void"]))])
            out -= 1
        elif k == "err":
            events.append(["answer", draw(st.integers(0, out - 1)), draw(st.sampled_from(ERR_ANSWERS))])
        elif k == "drop":
            events.append(["answer", draw(st.integers(0, out - 1)), "drop"])
            out -= 1
        elif k == "fail":
            events.append(["answer", draw(st.integers(0, out - 1)), draw(st.sampled_from(fail_kinds or FAIL_ANSWERS))])
            out = 0
        elif k == "kill":
            # an explicit close() behind the pool's back is only generated for C10 (whose statement names it):
            # on a connection that has reached its orphan threshold it makes HostConnection.borrow_connection
            # busy-wait (closed + threshold => re-read self._connection, which is still the closed one) for its whole
            # 2 s timeout -- two million iterations of virtual microseconds
            events.append(["kill", draw(st.integers(0, 2)),
                           draw(st.sampled_from(["close", "reset", "eof", "explicit"] if profile == "c10" else ["close", "reset", "eof"]))])
            out = 0
        elif k == "adv_short":
            events.append(["advance", draw(st.sampled_from([0.05, 0.35, 0.35, 0.75, 1.1]))])
        elif k == "adv_long":
            events.append(["advance", draw(st.sampled_from([2.5, 6.0, 11.0]))])
        elif k == "refuse":
            events.append(["refuse", draw(st.integers(1, 2))])
        elif k == "delay":
            events.append(["delay", draw(st.sampled_from([0.0, 0.2, 0.6, 3.0]))])
        elif k == "renew":
            events.append(["renew"])
        elif k == "sshut":
            events.append(["session_shutdown"])
            down = True
        elif k == "bdead":
            events.append(["borrow_dead", draw(st.integers(0, 2))])
        elif k == "use":
            events.append(["use", draw(st.sampled_from([0, 0, 1]))])
    return events


def s_case(st, profile, gran, pvs, max_events=30, extra=None, mifs=(2, 3, 3, 4, 4, 5, 8), thrs=(1, 2, 2, 3, 100),
           fail_kinds=None):
    dec = st.tuples(st.sampled_from(["retry", "retry", "rethrow", "ignore", "next_host"]), st.just(None))

    @st.composite
    def build(draw):
        case = {
            "pv": draw(st.sampled_from(pvs)),
            "mif": draw(st.sampled_from(mifs)),
            "thr": draw(st.sampled_from(thrs)),
            "convict": draw(st.sampled_from([True, False, False])),
            "delay": draw(st.sampled_from([0.0, 0.0, 0.2, 0.6])),
            "poolcfg": draw(s_poolcfg(st)),
            "decisions": [list(d) for d in draw(st.lists(dec, max_size=4))],
            "end": draw(st.sampled_from(["cluster", "session"])),
            "gran": gran,
        }
        for k, v in (extra or {}).items():
            case[k] = draw(v)
        if "events" not in case:
            n = draw(st.integers(3, max_events))
            case["events"] = s_history(st, draw, profile, n, fail_kinds)
        case["tape"] = draw(st.lists(st.integers(0, 3), max_size=40 if gran == "locks" else 10))
        return case
    return build()
