"""Harness-side stub so that `import cassandra.cluster` succeeds on Python >= 3.12
(no asyncore in the stdlib, no libev in this sandbox).  The AsyncoreConnection
class gets defined on top of it but is never instantiated by any check."""
socket_map = {}


class dispatcher(object):
    def __init__(self, sock=None, map=None):
        self.socket = sock
        self._map = map

    def close(self):
        pass


def loop(timeout=30.0, use_poll=False, map=None, count=None):
    pass
