"""The deterministic world: real Cluster/Session/ControlConnection/pools/ResponseFuture over
an in-memory Connection subclass, fake nodes, a single virtual event-loop actor, a virtual
executor and the real scheduler/heartbeat classes running as virtual threads.

Typical use inside interpret():

    sim = Sim(tape=case["tape"], granularity="blocking")
    with sim:                                   # patches driver modules, restores at exit
        n1 = sim.net.add_node("10.0.0.1", dc="dc1", rack="r1", tokens=["-100"])
        cluster = sim.make_cluster(contact_points=["10.0.0.1"], protocol_version=4)
        session = sim.call(cluster.connect)    # runs as a client actor until it returns
        fut = sim.call(session.execute_async, "SELECT ...")
        sim.settle()
        ...
"""
import collections
import io
import logging
import struct
import uuid
import zlib
from concurrent.futures import Future

from sim import wire
from sim.vthreads import Patch, VTime, World, patch_driver, Killed, Deadlock, StepBudgetExceeded

_CRC24_INIT, _CRC24_POLY = 0x875060, 0x1974F0B
_CRC32_INIT = zlib.crc32(b"\xfa\x2d\x55\xca")
MAX_SEG = 131071


def _crc24(data_int, nbytes):
    crc = _CRC24_INIT
    for _ in range(nbytes):
        crc ^= (data_int & 0xFF) << 16
        data_int >>= 8
        for _i in range(8):
            crc <<= 1
            if crc & 0x1000000:
                crc ^= _CRC24_POLY
    return crc


def seg_encode(msg):
    out = b""
    chunks = [msg[i:i + MAX_SEG] for i in range(0, len(msg), MAX_SEG)] or [b""]
    selfc = len(chunks) == 1
    for c in chunks:
        h = len(c) | ((1 << 17) if selfc else 0)
        out += h.to_bytes(3, "little") + _crc24(h, 3).to_bytes(3, "little") + c + \
            struct.pack("<I", zlib.crc32(c, _CRC32_INIT) & 0xFFFFFFFF)
    return out


def seg_decode_stream(buf):
    """-> (payload bytes of complete segments, remaining)"""
    out = b""
    while len(buf) >= 6:
        h = int.from_bytes(buf[:3], "little")
        ln = h & MAX_SEG
        if len(buf) < 6 + ln + 4:
            break
        out += buf[6:6 + ln]
        buf = buf[6 + ln + 4:]
    return out, buf


class SimFuture(Future):
    """concurrent.futures.Future whose blocking calls are virtual.  Hashes by creation order so that
    sets of futures (Session._initial_connect_futures) iterate deterministically, not by address."""
    _world = None
    _counter = 0

    def __init__(self):
        Future.__init__(self)
        SimFuture._counter += 1
        self._serial = SimFuture._counter

    def __hash__(self):
        return self._serial

    def __eq__(self, other):
        return self is other

    def result(self, timeout=None):
        if not self.done() and self._world is not None:
            self._world.block(self.done, timeout)
        return Future.result(self, timeout=0 if not self.done() else None)

    def exception(self, timeout=None):
        if not self.done() and self._world is not None:
            self._world.block(self.done, timeout)
        return Future.exception(self, timeout=0 if not self.done() else None)


class OrderedIdentitySet(object):
    """insertion-ordered identity set standing in for Cluster.sessions (a WeakSet, whose iteration
    order depends on memory addresses and would make multi-session histories irreproducible)"""

    def __init__(self):
        self._items = []

    def add(self, x):
        if not any(x is y for y in self._items):
            self._items.append(x)

    def discard(self, x):
        self._items = [y for y in self._items if y is not x]

    def remove(self, x):
        if not any(x is y for y in self._items):
            raise KeyError(x)
        self.discard(x)

    def __iter__(self):
        return iter(list(self._items))

    def __len__(self):
        return len(self._items)

    def __contains__(self, x):
        return any(x is y for y in self._items)


class SimExecutor(object):
    """stands in for cluster.executor: every submitted task runs as its own virtual thread"""

    def __init__(self, world, sim):
        self.world = world
        self.sim = sim
        self.is_shutdown = False
        self.tasks = []
        self.submitted = 0
        self.rejected = 0

    def submit(self, fn, *args, **kwargs):
        if self.is_shutdown:
            self.rejected += 1
            raise RuntimeError("cannot schedule new futures after shutdown")
        f = SimFuture()
        f._world = self.world
        self.submitted += 1
        name = getattr(fn, "__name__", None) or getattr(getattr(fn, "func", None), "__name__", "task")

        def run():
            if not f.set_running_or_notify_cancel():
                return
            try:
                r = fn(*args, **kwargs)
            except Killed:
                raise
            except BaseException as e:  # noqa
                f.set_exception(e)
                self.sim.task_errors.append((name, e))
            else:
                f.set_result(r)
        a = self.world.spawn(run, "task:%s" % name)
        self.tasks.append(a)
        return f

    def shutdown(self, wait=True):
        self.is_shutdown = True
        if wait:
            me = self.world.current
            self.world.block(lambda: all(a.done or a is me for a in self.tasks))


class _VQueueModule(object):
    """virtual stand-in for the `queue` module used by cassandra.cluster._Scheduler"""

    class Empty(Exception):
        pass

    def __init__(self, world):
        self.world = world
        outer = self

        class PriorityQueue(object):
            def __init__(self, maxsize=0):
                self.items = []

            def put_nowait(self, item):
                import heapq
                heapq.heappush(self.items, item)

            put = put_nowait

            def get(self, block=True, timeout=None):
                import heapq
                if not self.items:
                    if not block:
                        raise outer.Empty()
                    outer.world.block(lambda: bool(self.items), timeout)
                    if not self.items:
                        raise outer.Empty()
                return heapq.heappop(self.items)

            def empty(self):
                return not self.items

            def qsize(self):
                return len(self.items)
        self.PriorityQueue = PriorityQueue
        self.Queue = PriorityQueue


class Node(object):
    """A fake Cassandra node.  `on_request(node, conn, req)` may return an action
    (see Net docs) or None for the default behaviour."""

    def __init__(self, net, address, dc="dc1", rack="r1", tokens=None, host_id=None, versions=(1, 2, 3, 4, 5),
                 release_version="4.0.0", schema_version=None, peers_v2=False, port=9042):
        self.net = net
        self.address = address
        self.port = port
        self.dc, self.rack = dc, rack
        self.tokens = list(tokens) if tokens is not None else [str(hash_addr(address))]
        self.host_id = host_id or uuid.UUID(int=hash_addr(address) & ((1 << 128) - 1))
        self.versions = set(versions)
        self.release_version = release_version
        self.schema_version = schema_version or uuid.UUID(int=1)
        self.peers_v2 = peers_v2
        self.up = True                 # accepts TCP connections
        self.connect_delay = 0.0       # virtual seconds a connect takes
        self.refuse_next = 0           # refuse the next k connection attempts
        self.silent_handshake = False  # accept the socket but never answer
        self.auth = None               # None | "plain": require SASL auth
        self.on_request = None
        self.held = []                 # [(conn, req)] awaiting release
        self.prepared = {}             # id -> query
        self.keyspaces = None          # None = every USE succeeds; else set of known keyspaces
        self.compressions = []
        self.requests = []             # every parsed request: (conn, req)
        self.registered = []           # conns registered for events
        self.partitioner = "org.apache.cassandra.dht.Murmur3Partitioner"
        self.cluster_name = "simcluster"
        self.peer_rows_override = None  # list of dict rows to serve instead of the topology-derived ones
        self.local_row_override = None

    # ---- bytes from a client connection
    def receive(self, conn, data):
        conn.srv_buf += data
        if conn.srv_segmented:
            payload, conn.srv_buf = seg_decode_stream(conn.srv_buf)
            conn.srv_frames += payload
        else:
            conn.srv_frames += conn.srv_buf
            conn.srv_buf = b""
        frames, conn.srv_frames = wire.split_frames(conn.srv_frames)
        for fr in frames:
            try:
                req = wire.parse_request(fr)
            except wire.WireError as e:
                self.net.wire_errors.append((conn, fr, e))
                continue
            if "trailing" in req:
                self.net.wire_errors.append((conn, fr, "trailing bytes"))
            self.requests.append((conn, req))
            self.net.requests.append((self, conn, req))
            self.handle(conn, req)

    # ---- answering
    def send(self, conn, version, stream, opcode, body, **kw):
        fr = wire.frame(version, stream, opcode, body, **kw)
        data = seg_encode(fr) if conn.srv_segmented else fr
        self.net.server_send(conn, data)

    def reply(self, conn, req, opcode, body, **kw):
        self.send(conn, req["version"], req["stream"], opcode, body, **kw)

    def reply_error(self, conn, req, kind, message="simulated error", **kw):
        self.reply(conn, req, "ERROR", wire.error_body(req["version"], kind, message, **kw))

    def push_event(self, ev, version=None):
        for conn in list(self.registered):
            if conn.is_closed or conn.srv_closed:
                continue
            v = version or conn.protocol_version
            self.send(conn, v, -1, "EVENT", wire.event_body(v, ev))

    def release(self, index=0, action=None):
        """answer a held request now (default action unless given)"""
        conn, req = self.held.pop(index)
        if action is None:
            self.default(conn, req)
        else:
            self.apply(conn, req, action)
        return conn, req

    def apply(self, conn, req, action):
        kind = action[0]
        if kind == "hold":
            self.held.append((conn, req))
        elif kind == "drop":
            pass
        elif kind == "close":
            self.net.server_close(conn)
        elif kind == "reply":
            self.reply(conn, req, action[1], action[2], **(action[3] if len(action) > 3 else {}))
        elif kind == "error":
            self.reply_error(conn, req, action[1], **(action[2] if len(action) > 2 else {}))
        elif kind == "default":
            self.default(conn, req)
        elif kind == "raw":
            self.net.server_send(conn, action[1])
        else:
            raise ValueError("unknown action %r" % (action,))

    def handle(self, conn, req):
        if self.on_request is not None:
            action = self.on_request(self, conn, req)
            if action is not None:
                self.apply(conn, req, action)
                return
        self.default(conn, req)

    def default(self, conn, req):
        v, op = req["version"], req["op"]
        if v not in self.versions or (v == 6 and not req.get("beta")):
            # real servers answer with an ERROR (protocol error) frame in a version they speak
            rv = max(x for x in self.versions if x <= max(v, min(self.versions))) if self.versions else v
            if v == 6 and v in self.versions and not req.get("beta"):
                msg = "Beta version of the protocol used (6/v6-beta), but USE_BETA flag is unset"
                rv = 6
            else:
                msg = "Invalid or unsupported protocol version (%d); supported versions are (%s)" % (
                    v, ", ".join("%d/v%d" % (x, x) for x in sorted(self.versions)))
            self.send(conn, rv, req["stream"] if rv >= 3 or -128 <= req["stream"] < 128 else 0, "ERROR",
                      wire.error_body(rv, "protocol", msg))
            return
        if self.silent_handshake and op in ("OPTIONS", "STARTUP"):
            return
        if op == "OPTIONS":
            self.reply(conn, req, "SUPPORTED", wire.supported_body(
                {"CQL_VERSION": ["3.4.5"], "COMPRESSION": list(self.compressions),
                 "PROTOCOL_VERSIONS": ["%d/v%d" % (x, x) for x in sorted(self.versions)]}))
        elif op == "STARTUP":
            if self.auth:
                self.reply(conn, req, "AUTHENTICATE", wire._string("org.apache.cassandra.auth.PasswordAuthenticator"))
            else:
                self.reply(conn, req, "READY", b"")
            if v in (5, 6):
                conn.srv_segmented = True
        elif op == "AUTH_RESPONSE":
            tok = req.get("token") or b""
            if self.auth == "plain" and tok.split(b"\x00")[-2:] == [b"user", b"pass"]:
                self.reply(conn, req, "AUTH_SUCCESS", wire._bytes(None))
            else:
                self.reply_error(conn, req, "bad_credentials", "Provided username and/or password are incorrect")
        elif op == "CREDENTIALS":
            self.reply(conn, req, "READY", b"")
        elif op == "REGISTER":
            self.registered.append(conn)
            self.reply(conn, req, "READY", b"")
        elif op == "QUERY":
            self.default_query(conn, req)
        elif op == "PREPARE":
            qid = ("id:" + req["query"]).encode()[:60]
            self.prepared[qid] = req["query"]
            self.reply(conn, req, "RESULT", wire.result_prepared(v, qid, [], [], ()))
        elif op == "EXECUTE":
            if req["id"] in self.prepared:
                self.reply(conn, req, "RESULT", wire.result_void())
            else:
                self.reply_error(conn, req, "unprepared", "unknown prepared statement", id=req["id"])
        elif op == "BATCH":
            self.reply(conn, req, "RESULT", wire.result_void())
        else:
            self.reply_error(conn, req, "protocol", "unexpected opcode")

    # ---- system tables
    def local_row(self):
        if self.local_row_override is not None:
            return self.local_row_override
        return {"key": "local", "cluster_name": self.cluster_name, "data_center": self.dc, "rack": self.rack,
                "host_id": self.host_id, "partitioner": self.partitioner, "release_version": self.release_version,
                "schema_version": self.schema_version, "tokens": list(self.tokens), "rpc_address": self.address,
                "broadcast_address": self.address, "listen_address": self.address}

    def peer_rows(self):
        if self.peer_rows_override is not None:
            return self.peer_rows_override
        rows = []
        for n in self.net.topology():
            if n is self:
                continue
            rows.append({"peer": n.address, "data_center": n.dc, "rack": n.rack, "host_id": n.host_id,
                         "release_version": n.release_version, "schema_version": n.schema_version,
                         "tokens": list(n.tokens), "rpc_address": n.address})
        return rows

    LOCAL_COLS = [("key", "text"), ("cluster_name", "text"), ("data_center", "text"), ("rack", "text"),
                  ("host_id", "uuid"), ("partitioner", "text"), ("release_version", "text"),
                  ("schema_version", "uuid"), ("tokens", ("set", "text")), ("rpc_address", "inet"),
                  ("broadcast_address", "inet"), ("listen_address", "inet")]
    PEER_COLS = [("peer", "inet"), ("data_center", "text"), ("rack", "text"), ("host_id", "uuid"),
                 ("release_version", "text"), ("schema_version", "uuid"), ("tokens", ("set", "text")),
                 ("rpc_address", "inet")]
    PEER_V2_COLS = [("peer", "inet"), ("peer_port", "int"), ("data_center", "text"), ("rack", "text"),
                    ("host_id", "uuid"), ("release_version", "text"), ("schema_version", "uuid"),
                    ("tokens", ("set", "text")), ("native_address", "inet"), ("native_port", "int")]

    def _rows(self, conn, req, cols, dict_rows, table):
        q = req["query"]
        sel = q[len("SELECT "):q.upper().index(" FROM ")].strip()
        if sel != "*":
            want = [c.strip() for c in sel.split(",")]
            cols = [c for c in cols if c[0] in want]
        rows = [[r.get(c[0]) for c in cols] for r in dict_rows]
        self.reply(conn, req, "RESULT", wire.result_rows(cols, rows, ks="system", table=table, version=req["version"]))

    def default_query(self, conn, req):
        q = req["query"].strip()
        qu = q.upper()
        if qu.startswith("SELECT") and "SYSTEM.LOCAL" in qu:
            self._rows(conn, req, self.LOCAL_COLS, [self.local_row()], "local")
        elif qu.startswith("SELECT") and "SYSTEM.PEERS_V2" in qu:
            if not self.peers_v2:
                self.reply_error(conn, req, "invalid", "unconfigured table peers_v2")
            else:
                rows = []
                for r in self.peer_rows():
                    r = dict(r)
                    r.setdefault("native_address", r.get("rpc_address"))
                    r.setdefault("native_port", 9042)
                    r.setdefault("peer_port", 7000)
                    rows.append(r)
                self._rows(conn, req, self.PEER_V2_COLS, rows, "peers_v2")
        elif qu.startswith("SELECT") and "SYSTEM.PEERS" in qu:
            self._rows(conn, req, self.PEER_COLS, self.peer_rows(), "peers")
        elif qu.startswith("USE "):
            ks = q[4:].strip().strip(";").strip()
            if ks.startswith('"') and ks.endswith('"'):
                ks = ks[1:-1].replace('""', '"')
            else:
                ks = ks.lower()
            if self.keyspaces is not None and ks not in self.keyspaces:
                self.reply_error(conn, req, "invalid", "Keyspace '%s' does not exist" % ks)
            else:
                conn.srv_keyspace = ks
                self.reply(conn, req, "RESULT", wire.result_set_keyspace(ks))
        else:
            self.reply(conn, req, "RESULT", wire.result_void())


def hash_addr(address):
    h = 1469598103934665603
    for ch in address.encode():
        h = ((h ^ ch) * 1099511628211) & ((1 << 63) - 1)
    return h


class Net(object):
    def __init__(self, sim):
        self.sim = sim
        self.world = sim.world
        self.nodes = collections.OrderedDict()
        self.conns = []
        self.requests = []
        self.wire_errors = []
        self.loop_queue = collections.deque()
        self.loop_errors = []
        self.auto = True
        self.chunk = None           # None = deliver each server send whole; int = chunk size
        self.timers = []
        self.removed = set()        # addresses no longer part of the topology snapshot
        self.connect_log = []       # (time, address, outcome)
        self._loop_actor = self.world.spawn(self._loop, "event-loop")

    def add_node(self, address, **kw):
        n = Node(self, address, **kw)
        self.nodes[address] = n
        return n

    def topology(self):
        return [n for a, n in self.nodes.items() if a not in self.removed]

    # ---- the single event-loop thread
    def _loop(self):
        w = self.world
        while True:
            w.block(lambda: bool(self.loop_queue))
            fn = self.loop_queue.popleft()
            try:
                fn()
            except Killed:
                raise
            except Exception as e:  # noqa -- reactors log and carry on
                self.loop_errors.append(e)

    def loop_call(self, fn):
        self.loop_queue.append(fn)

    # ---- server -> client bytes
    def server_send(self, conn, data):
        if conn.srv_closed:
            return
        conn.inbox.append(data)
        if self.auto:
            self.loop_call(lambda: self._feed_next(conn))

    def _feed_next(self, conn):
        if not conn.inbox:
            return
        data = conn.inbox.pop(0)
        self.feed(conn, data)

    def feed(self, conn, data):
        """what a reactor's handle_read does with bytes read off the socket"""
        if conn.is_closed or conn.is_defunct:
            conn.bytes_after_close += len(data)
            # real reactors stop reading a closed socket; nothing is delivered
            return
        step = self.chunk or len(data) or 1
        for i in range(0, len(data), step):
            if conn.is_closed or conn.is_defunct:
                conn.bytes_after_close += len(data) - i
                return
            conn._iobuf.write(data[i:i + step])
            conn.process_io_buffer()

    def deliver(self, conn, count=1):
        """manual mode: feed the next `count` server sends of this connection (from the loop thread)"""
        for _ in range(count):
            self.loop_call(lambda: self._feed_next(conn))

    def server_close(self, conn, eof=False):
        """the peer closes / resets the socket: the reactor sees EOF or an error on its next read.
        eof=False: the reactor reports it as an error (twisted's connectionLost, a reset): defunct().
        eof=True: an orderly close; the asyncio, libev, asyncore, eventlet and gevent reactors answer a
        zero-byte read with a plain close() -- no defunct(), no last_error."""
        from cassandra.connection import ConnectionShutdown
        conn.srv_closed = True

        def on_eof():
            if conn.is_closed or conn.is_defunct:
                return
            if eof:
                conn.close()
            else:
                conn.defunct(ConnectionShutdown("Connection to %s was closed by server" % conn.endpoint))
        self.loop_call(on_eof)

    def socket_error(self, conn, exc=None):
        conn.srv_closed = True
        e = exc or OSError(104, "Connection reset by peer")
        self.loop_call(lambda: conn.defunct(e))

    def open_conns(self):
        return [c for c in self.conns if not c.is_closed]

    def connection_class(self):
        from cassandra.connection import Connection, ConnectionShutdown, Timer
        net = self

        class SimConnection(Connection):
            _net = net

            def __init__(self, *args, **kwargs):
                Connection.__init__(self, *args, **kwargs)
                self.inbox = []
                self.pushed = []
                self.srv_buf = b""
                self.srv_frames = b""
                self.srv_segmented = False
                self.srv_closed = False
                self.srv_keyspace = None
                self.bytes_after_close = 0
                self.sim_id = len(net.conns)
                self.opened_at = net.world.now
                self.close_calls = 0
                net.conns.append(self)
                node = net.nodes.get(self.endpoint.address)
                self.node = node
                # the blocking part of a real reactor's __init__: resolve + connect the socket
                if node is not None and node.connect_delay:
                    net.sim.vtime.sleep(node.connect_delay)
                if node is None or not node.up or node.refuse_next > 0:
                    if node is not None and node.refuse_next > 0:
                        node.refuse_next -= 1
                    net.connect_log.append((net.world.now, self.endpoint.address, "refused"))
                    self.is_closed = True
                    raise ConnectionRefusedError(111, "Tried connecting to [(%r, %r)]. Last error: Connection refused" % (
                        self.endpoint.address, self.endpoint.port))
                net.connect_log.append((net.world.now, self.endpoint.address, "connected"))
                self._send_options_message()

            @classmethod
            def initialize_reactor(cls):
                pass

            @classmethod
            def create_timer(cls, timeout, callback):
                t = Timer(timeout, callback)
                net.timers.append(t)
                net.world.call_at(t.end, lambda: net.loop_call(lambda: t.finish(net.world.now)), "conn-timer")
                return t

            def push(self, data):
                data = bytes(data)
                self.pushed.append(data)
                if self.is_closed or self.srv_closed or self.node is None:
                    return
                self.node.receive(self, data)

            def close(self):
                self.close_calls += 1
                with self.lock:
                    if self.is_closed:
                        return
                    self.is_closed = True
                if not self.is_defunct:
                    # same contract as the shipped reactors' close()
                    exc = ConnectionShutdown("Connection to %s was closed" % self.endpoint)
                    self.error_all_cp_sessions(exc)
                    self.error_all_requests(exc)
                    self.connected_event.set()

            def __repr__(self):
                return "<SimConnection #%d %s%s%s>" % (self.sim_id, self.endpoint, " closed" if self.is_closed else "",
                                                     " defunct" if self.is_defunct else "")
        return SimConnection


class Sim(object):
    """One simulated world per case."""

    def __init__(self, tape=(), granularity="blocking", max_steps=200000, quiet_logs=True):
        self.world = World(tape=tape, granularity=granularity, max_steps=max_steps)
        SimFuture._counter = 0
        self.patch = Patch()
        self.vtime = None
        self.net = None
        self.task_errors = []
        self.clusters = []
        self.executors = []
        self._entered = False
        self.quiet_logs = quiet_logs

    def __enter__(self):
        import cassandra.cluster as C
        import cassandra.connection as K
        self.vtime = patch_driver(self.world, self.patch)
        self.patch.set(C, "queue", _VQueueModule(self.world))
        self.patch.set(C.ControlConnection, "_time", self.vtime)
        # the two classes that inherit from threading.Thread at import time run as virtual threads
        world = self.world

        class SimScheduler(C._Scheduler):
            def start(self):
                self._actor = world.spawn(self.run, "scheduler")

            def join(self, timeout=None):
                a = getattr(self, "_actor", None)
                if a is not None and a is not world.current:
                    world.block(lambda: a.done, timeout)

        class SimHeartbeat(K.ConnectionHeartbeat):
            def start(self):
                self._actor = world.spawn(self.run, "heartbeat")

            def join(self, timeout=None):
                a = getattr(self, "_actor", None)
                if a is not None and a is not world.current:
                    world.block(lambda: a.done, timeout)
        self.patch.set(C, "_Scheduler", SimScheduler)
        self.patch.set(C, "ConnectionHeartbeat", SimHeartbeat)
        self.patch.set(C, "_register_cluster_shutdown", lambda cluster: None)
        self.patch.set(C, "_discard_cluster_shutdown", lambda cluster: None)
        self.net = Net(self)
        if self.quiet_logs:
            self._old_disable = logging.root.manager.disable
            logging.disable(logging.CRITICAL)
        self._entered = True
        return self

    def __exit__(self, et, ev, tb):
        try:
            self.world.kill_all()
        finally:
            self.patch.restore()
            if self.quiet_logs:
                logging.disable(self._old_disable)
        return False

    # ---- cluster construction
    def make_cluster(self, contact_points, protocol_version=4, **kw):
        import cassandra.cluster as C
        sim = self

        class SimCluster(C.Cluster):
            def _create_thread_pool_executor(self, **kwargs):
                ex = SimExecutor(sim.world, sim)
                sim.executors.append(ex)
                return ex
        opts = dict(connection_class=self.net.connection_class(), protocol_version=protocol_version,
                    compression=False, schema_metadata_enabled=False, idle_heartbeat_interval=0,
                    connect_timeout=5, control_connection_timeout=2.0)
        opts.update(kw)
        cluster = SimCluster(contact_points=list(contact_points), **opts)
        cluster.sessions = OrderedIdentitySet()
        self.clusters.append(cluster)
        return cluster

    # ---- running client code
    def spawn(self, fn, *args, **kwargs):
        box = {}

        def body():
            try:
                box["result"] = fn(*args, **kwargs)
            except Killed:
                raise
            except BaseException as e:  # noqa
                box["exc"] = e
        a = self.world.spawn(body, "client:%s" % getattr(fn, "__name__", "call"))
        a.box = box
        return a

    def call(self, fn, *args, **kwargs):
        """run fn as a client actor until it returns (letting everything else run too);
        returns its result or raises its exception; raises Deadlock if it can never finish"""
        horizon = kwargs.pop("_horizon", 3600.0)
        a = self.spawn(fn, *args, **kwargs)
        self.run_until(lambda: a.done, horizon)
        if not a.done:
            raise Deadlock("client call %s did not finish within %s virtual seconds" % (a.name, horizon))
        if "exc" in a.box:
            raise a.box["exc"]
        return a.box.get("result")

    def run_until(self, pred, horizon=3600.0):
        w = self.world
        end = w.now + horizon
        while True:
            w.run()
            if pred():
                return True
            nd = w.next_deadline()
            if nd is None or nd > end:
                return pred()
            w.now = max(w.now, nd)
            w._fire_world_timers()

    def settle(self, horizon=None):
        self.world.settle(horizon)

    def advance(self, dt):
        self.world.advance(dt)
