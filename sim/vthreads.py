"""Deterministic virtual threads for driving the real driver code.

Actors are greenlets; exactly one runs at a time; every blocking primitive the driver
uses (Lock, RLock, Condition, Event, Thread, time.time/sleep, concurrent.futures.wait)
is substituted in the driver's module namespaces by the virtual versions below, whose
blocking operations switch back to the world scheduler.  Which runnable actor continues
is decided by the *tape* (a list of small ints that is part of the generated case); an
exhausted tape means "lowest-numbered choice", which for pre-emption points is "continue
the current actor", so shrinking drives towards few context switches.

Granularity:
  blocking -- an actor runs until it blocks or returns (event-level interleavings)
  locks    -- additionally every lock acquire/release, clock read and Event.set is a
              pre-emption point
"""
import heapq

import greenlet


class Killed(BaseException):
    """raised inside an actor when the world is torn down"""


class Deadlock(Exception):
    pass


class StepBudgetExceeded(Exception):
    pass


class Actor(object):
    _ids = 0

    def __init__(self, world, fn, name, args, kwargs):
        self.world = world
        self.name = name
        self.id = world._next_actor_id()
        self.pred = None          # blocked iff pred is not None
        self.deadline = None
        self.done = False
        self.exc = None
        self.result = None
        self.started = False
        self.daemon = True

        def body():
            try:
                self.result = fn(*args, **kwargs)
            except Killed:
                pass
            except greenlet.GreenletExit:
                pass
            except BaseException as e:  # noqa
                self.exc = e
                world.actor_errors.append((self.name, e))
            finally:
                self.done = True
        self.glet = greenlet.greenlet(body, parent=world.main)

    def __repr__(self):
        return "<Actor %d %s%s>" % (self.id, self.name, " done" if self.done else (" blocked" if self.pred else ""))


class World(object):
    def __init__(self, tape=(), granularity="blocking", start_time=1.0e9, max_steps=200000):
        self.main = greenlet.getcurrent()
        self.now = float(start_time)
        self.tape = list(tape)
        self.tpos = 0
        self.granularity = granularity
        self.actors = []
        self.current = None
        self.killing = False
        self.steps = 0
        self.max_steps = max_steps
        self.actor_errors = []
        self._aid = 0
        self.timers = []          # heap of (when, seq, fn, name)  world-level callbacks run by main
        self._tseq = 0
        self.switches = 0
        self.choice_points = 0
        self.log = []
        self._thread_class = None

    # ------------------------------------------------------------------ basics
    def _next_actor_id(self):
        self._aid += 1
        return self._aid

    def choose(self, n):
        """tape-driven choice in range(n)"""
        if n <= 1:
            return 0
        self.choice_points += 1
        if self.tpos < len(self.tape):
            v = self.tape[self.tpos] % n
            self.tpos += 1
            return v
        return 0

    def spawn(self, fn, name="actor", *args, **kwargs):
        a = Actor(self, fn, name, args, kwargs)
        self.actors.append(a)
        return a

    def in_actor(self):
        return self.current is not None and greenlet.getcurrent() is self.current.glet

    # --------------------------------------------------------- called by actors
    def block(self, pred, timeout=None):
        """Park the calling actor until pred() is true or the virtual timeout expires.
        Returns pred().  When called from the main greenlet (the test driver itself) the
        world is run until the predicate holds (or time runs out)."""
        if self.killing:
            raise Killed()
        if pred():
            return True
        if timeout is not None and timeout <= 0:
            return False
        if not self.in_actor():
            return self._main_wait(pred, timeout)
        me = self.current
        me.pred = pred
        me.deadline = None if timeout is None else self.now + timeout
        self.main.switch()
        me.pred = None
        me.deadline = None
        if self.killing:
            raise Killed()
        return pred()

    def preempt(self):
        """pre-emption point (locks granularity only)"""
        if self.granularity != "locks" or self.killing or not self.in_actor():
            return
        self.main.switch()
        if self.killing:
            raise Killed()

    def _main_wait(self, pred, timeout):
        end = None if timeout is None else self.now + timeout
        while True:
            self.run()
            if pred():
                return True
            nd = self.next_deadline()
            if nd is None or (end is not None and nd > end):
                if end is not None:
                    self.now = max(self.now, end)
                    return pred()
                raise Deadlock("main waits forever; actors: %r" % (self.actors,))
            self.now = max(self.now, nd)
            self._fire_world_timers()

    # ------------------------------------------------------------ the scheduler
    def _runnable(self):
        out = []
        for a in self.actors:
            if a.done:
                continue
            if a.pred is None:
                out.append(a)
            else:
                if (a.deadline is not None and a.deadline <= self.now) or a.pred():
                    out.append(a)
        return out

    def run(self, max_steps=None):
        """Run actors until none is runnable at the current virtual time."""
        if greenlet.getcurrent() is not self.main:
            raise RuntimeError("World.run must be called from the main greenlet")
        last = None
        while True:
            self.actors = [a for a in self.actors if not a.done]
            runnable = self._runnable()
            if not runnable:
                return
            self.steps += 1
            if self.steps > self.max_steps:
                raise StepBudgetExceeded("step budget of %d exceeded" % self.max_steps)
            runnable.sort(key=lambda a: a.id)
            if last is not None and last in runnable:
                # the actor that just yielded at a pre-emption point is choice 0
                runnable.remove(last)
                runnable.insert(0, last)
            a = runnable[self.choose(len(runnable))]
            if a is not last:
                self.switches += 1
            self.current = a
            a.started = True
            a.glet.switch()
            self.current = None
            last = a if (not a.done and a.pred is None) else None

    def next_deadline(self):
        ds = [a.deadline for a in self.actors if not a.done and a.pred is not None and a.deadline is not None]
        if self.timers:
            ds.append(self.timers[0][0])
        return min(ds) if ds else None

    def call_at(self, when, fn, name="timer"):
        self._tseq += 1
        heapq.heappush(self.timers, (when, self._tseq, fn, name))

    def _fire_world_timers(self):
        while self.timers and self.timers[0][0] <= self.now:
            _, _, fn, _ = heapq.heappop(self.timers)
            fn()

    def advance(self, dt):
        """run, then move the clock forward by dt, firing everything that becomes due, in time order"""
        end = self.now + dt
        while True:
            self.run()
            nd = self.next_deadline()
            if nd is None or nd > end:
                break
            self.now = max(self.now, nd)
            self._fire_world_timers()
        self.now = end
        self._fire_world_timers()
        self.run()

    def settle(self, horizon=None, max_rounds=100000):
        """run to quiescence; with a horizon also let virtual time pass up to now+horizon"""
        if horizon is None:
            self.run()
            return
        self.advance(horizon)

    def kill_all(self):
        """unwind every parked actor"""
        self.killing = True
        for _ in range(3):
            for a in list(self.actors):
                if not a.done and a.started:
                    self.current = a
                    try:
                        a.glet.throw(Killed())
                    except Killed:
                        pass
                    self.current = None
                elif not a.done:
                    a.done = True
            self.actors = [a for a in self.actors if not a.done]
            if not self.actors:
                break
        self.current = None

    # ------------------------------------------------------ virtual primitives
    def Lock(self):
        return VLock(self)

    def RLock(self):
        return VRLock(self)

    def Condition(self, lock=None):
        return VCondition(self, lock)

    def Event(self):
        return VEvent(self)

    @property
    def Thread(self):
        """a class: the driver both instantiates `Thread(target=...)` and calls
        `Thread.__init__(self, name=...)` from subclasses of the real threading.Thread"""
        if self._thread_class is None:
            import threading
            world = self

            class WThread(VThread):
                def __init__(self, group=None, target=None, name=None, args=(), kwargs=None, daemon=None):
                    if isinstance(self, threading.Thread):
                        threading.Thread.__init__(self, group=group, target=target, name=name, args=args,
                                                  kwargs=kwargs, daemon=daemon)
                        return
                    VThread.__init__(self, world, target, name, args, kwargs or {}, daemon)
            self._thread_class = WThread
        return self._thread_class

    def wait_futures(self, fs, timeout=None, return_when="ALL_COMPLETED"):
        from concurrent.futures import ALL_COMPLETED, FIRST_COMPLETED, FIRST_EXCEPTION
        from concurrent.futures._base import DoneAndNotDoneFutures
        fs = list(fs)

        def pred():
            done = [f for f in fs if f.done()]
            if return_when == FIRST_COMPLETED:
                return bool(done)
            if return_when == FIRST_EXCEPTION:
                if any((not f.cancelled()) and f.exception() is not None for f in done):
                    return True
            return len(done) == len(fs)
        if fs:
            self.block(pred, timeout)
        done = set(f for f in fs if f.done())
        return DoneAndNotDoneFutures(done, set(fs) - done)


class VTime(object):
    """stand-in for the `time` module inside driver namespaces"""

    def __init__(self, world):
        self.world = world

    TICK = 1e-6

    def time(self):
        # real clocks never stand perfectly still: every reading moves virtual time forward by
        # one microsecond, so that loops of the form `remaining = deadline - time.time();
        # if remaining < 0: break; cond.wait(remaining)` terminate when they wake exactly at
        # their deadline (with a frozen clock they would spin forever on wait(0))
        self.world.preempt()
        self.world.now += self.TICK
        return self.world.now

    def monotonic(self):
        return self.world.now

    def perf_counter(self):
        return self.world.now

    def sleep(self, dt):
        if dt <= 0:
            self.world.preempt()
            return
        self.world.block(lambda: False, dt)

    def __getattr__(self, name):
        import time as _t
        return getattr(_t, name)


class VLock(object):
    def __init__(self, world):
        self.world = world
        self.owner = None
        self.held = False

    def acquire(self, blocking=True, timeout=-1):
        w = self.world
        w.preempt()
        if self.held:
            if not blocking:
                return False
            if w.killing:
                return True
            ok = w.block(lambda: not self.held, None if timeout is None or timeout < 0 else timeout)
            if not ok:
                return False
        self.held = True
        self.owner = w.current
        return True

    def release(self):
        if not self.held and not self.world.killing:
            raise RuntimeError("release unlocked lock")
        self.held = False
        self.owner = None
        self.world.preempt()

    def locked(self):
        return self.held

    __enter__ = acquire

    def __exit__(self, *a):
        self.release()


class VRLock(object):
    def __init__(self, world):
        self.world = world
        self.owner = None
        self.count = 0

    def _me(self):
        return self.world.current if self.world.in_actor() else "main"

    def acquire(self, blocking=True, timeout=-1):
        w = self.world
        me = self._me()
        if self.count and self.owner is me:
            self.count += 1
            return True
        w.preempt()
        if self.count:
            if not blocking:
                return False
            if w.killing:
                return True
            ok = w.block(lambda: self.count == 0, None if timeout is None or timeout < 0 else timeout)
            if not ok:
                return False
        self.owner = me
        self.count = 1
        return True

    def release(self):
        if self.count == 0:
            if self.world.killing:
                return
            raise RuntimeError("cannot release un-acquired lock")
        self.count -= 1
        if self.count == 0:
            self.owner = None
            self.world.preempt()

    __enter__ = acquire

    def __exit__(self, *a):
        self.release()

    # used by VCondition
    def _release_save(self):
        st = (self.count, self.owner)
        self.count = 0
        self.owner = None
        return st

    def _acquire_restore(self, st):
        w = self.world
        if self.count and not w.killing:
            w.block(lambda: self.count == 0)
        self.count, self.owner = st

    def _is_owned(self):
        return self.count > 0 and self.owner is self._me()


class VCondition(object):
    def __init__(self, world, lock=None):
        self.world = world
        self.lock = lock if lock is not None else VRLock(world)
        self.acquire = self.lock.acquire
        self.release = self.lock.release
        self.waiters = []

    def __enter__(self):
        return self.lock.__enter__()

    def __exit__(self, *a):
        return self.lock.__exit__(*a)

    def wait(self, timeout=None):
        w = self.world
        ticket = [False]
        self.waiters.append(ticket)
        if isinstance(self.lock, VRLock):
            st = self.lock._release_save()
        else:
            self.lock.release()
            st = None
        try:
            w.block(lambda: ticket[0], timeout)
        finally:
            if ticket in self.waiters:
                self.waiters.remove(ticket)
            if isinstance(self.lock, VRLock):
                self.lock._acquire_restore(st)
            else:
                self.lock.acquire()
        return ticket[0]

    def wait_for(self, predicate, timeout=None):
        end = None if timeout is None else self.world.now + timeout
        res = predicate()
        while not res:
            if end is not None:
                left = end - self.world.now
                if left <= 0:
                    break
                self.wait(left)
            else:
                self.wait()
            res = predicate()
        return res

    def notify(self, n=1):
        for t in self.waiters[:n]:
            t[0] = True
        del self.waiters[:n]

    def notify_all(self):
        self.notify(len(self.waiters))

    notifyAll = notify_all


class VEvent(object):
    def __init__(self, world):
        self.world = world
        self.flag = False

    def is_set(self):
        return self.flag

    isSet = is_set

    def set(self):
        self.flag = True
        self.world.preempt()

    def clear(self):
        self.flag = False

    def wait(self, timeout=None):
        if self.flag:
            return True
        self.world.block(lambda: self.flag, timeout)
        return self.flag


class VThread(object):
    def __init__(self, world, target, name, args, kwargs, daemon):
        self.world = world
        self._target = target
        self._args = args
        self._kwargs = kwargs
        self.name = name or "vthread"
        self.daemon = bool(daemon)
        self.actor = None

    def run(self):
        if self._target:
            self._target(*self._args, **self._kwargs)

    def start(self):
        self.actor = self.world.spawn(self.run, "thread:" + self.name)

    def join(self, timeout=None):
        a = self.actor
        if a is None:
            return
        self.world.block(lambda: a.done, timeout)

    def is_alive(self):
        return self.actor is not None and not self.actor.done

    isAlive = is_alive

    def setDaemon(self, d):
        self.daemon = d


class Patch(object):
    """substitute module attributes for the duration of a case"""

    def __init__(self):
        self.saved = []

    def set(self, mod, name, value):
        missing = object()
        self.saved.append((mod, name, getattr(mod, name, missing), missing))
        setattr(mod, name, value)

    def restore(self):
        for mod, name, old, missing in reversed(self.saved):
            if old is missing:
                try:
                    delattr(mod, name)
                except AttributeError:
                    pass
            else:
                setattr(mod, name, old)
        self.saved = []


def patch_driver(world, patch):
    """Rebind the threading/time names of the pure-Python driver modules to `world`."""
    import cassandra.cluster as C
    import cassandra.concurrent as CC
    import cassandra.connection as K
    import cassandra.pool as P
    import cassandra.policies as POL
    import cassandra.timestamps as TS
    import cassandra.metadata as MD
    vt = VTime(world)
    for mod in (C, K, P, CC, TS, POL, MD):
        for name, factory in (("Lock", world.Lock), ("RLock", world.RLock), ("Condition", world.Condition),
                              ("Event", world.Event), ("Thread", world.Thread)):
            if hasattr(mod, name):
                patch.set(mod, name, factory)
        if hasattr(mod, "time") and not callable(getattr(mod, "time")):
            patch.set(mod, "time", vt)
    patch.set(C, "wait_futures", world.wait_futures)
    return vt
