"""Server side of the wire for the simulated world: parses the request frames the driver
pushes and builds the response frames the fake nodes answer with.  Deliberately small and
separate from cassandra.protocol (the byte-level conformance of the driver's codec is the
business of C03/C04 with spec/proto.py; here the wire only has to carry histories)."""
import io
import struct
import uuid as _uuid

OP = {0x00: "ERROR", 0x01: "STARTUP", 0x02: "READY", 0x03: "AUTHENTICATE", 0x04: "CREDENTIALS", 0x05: "OPTIONS",
      0x06: "SUPPORTED", 0x07: "QUERY", 0x08: "RESULT", 0x09: "PREPARE", 0x0A: "EXECUTE", 0x0B: "REGISTER",
      0x0C: "EVENT", 0x0D: "BATCH", 0x0E: "AUTH_CHALLENGE", 0x0F: "AUTH_RESPONSE", 0x10: "AUTH_SUCCESS",
      0xFF: "REVISE_REQUEST"}
OPCODE = dict((v, k) for k, v in OP.items())

V5_LIKE = (5, 6, 0x42)       # prepare flags / keyspace flag / result metadata id
INT_FLAGS = (5, 6, 0x41, 0x42)


class WireError(Exception):
    pass


# --------------------------------------------------------------------------- readers
class R(object):
    def __init__(self, data):
        self.d = data
        self.p = 0

    def take(self, n):
        if n < 0 or self.p + n > len(self.d):
            raise WireError("short body")
        b = self.d[self.p:self.p + n]
        self.p += n
        return b

    def byte(self):
        return self.take(1)[0]

    def short(self):
        return struct.unpack(">H", self.take(2))[0]

    def int(self):
        return struct.unpack(">i", self.take(4))[0]

    def uint(self):
        return struct.unpack(">I", self.take(4))[0]

    def long(self):
        return struct.unpack(">q", self.take(8))[0]

    def string(self):
        return self.take(self.short()).decode("utf8")

    def longstring(self):
        return self.take(self.int()).decode("utf8")

    def shortbytes(self):
        return self.take(self.short())

    def bytes(self):
        n = self.int()
        return None if n < 0 else self.take(n)

    def value(self):
        n = self.int()
        if n == -1:
            return None
        if n == -2:
            return "UNSET"
        return self.take(n)

    def stringlist(self):
        return [self.string() for _ in range(self.short())]

    def stringmap(self):
        return dict((self.string(), self.string()) for _ in range(self.short()))

    def bytesmap(self):
        return dict((self.string(), self.bytes()) for _ in range(self.short()))

    def rest(self):
        return len(self.d) - self.p


def header_size(version):
    return 9 if (version & 0x7F) >= 3 else 8


def parse_header(buf):
    """returns (version, flags, stream, opcode, body_len, header_size) or None if incomplete"""
    if not buf:
        return None
    v = buf[0] & 0x7F
    hs = header_size(v)
    if len(buf) < hs:
        return None
    if hs == 9:
        flags, stream, op, ln = struct.unpack(">BhBi", buf[1:9])
    else:
        flags, stream, op, ln = struct.unpack(">BbBi", buf[1:8])
    return v, flags, stream, op, ln, hs


def split_frames(buf):
    """-> (list of frame bytes, remaining bytes)"""
    out = []
    while True:
        h = parse_header(buf)
        if h is None:
            break
        v, flags, stream, op, ln, hs = h
        if len(buf) < hs + ln:
            break
        out.append(bytes(buf[:hs + ln]))
        buf = buf[hs + ln:]
    return out, bytes(buf)


def _query_params(r, v, req, is_execute_v1=False):
    req["consistency"] = r.short()
    flags = r.uint() if v in INT_FLAGS else r.byte()
    req["qflags"] = flags
    if flags & 0x01:
        n = r.short()
        vals = []
        for _ in range(n):
            if flags & 0x40:
                r.string()
            vals.append(r.value())
        req["values"] = vals
    req["skip_meta"] = bool(flags & 0x02)
    if flags & 0x04:
        req["page_size"] = r.int()
    if flags & 0x08:
        req["paging_state"] = r.bytes()
    if flags & 0x10:
        req["serial_consistency"] = r.short()
    if flags & 0x20:
        req["timestamp"] = r.long()
    if flags & 0x80:
        req["keyspace"] = r.string()
    if flags & 0x80000000:
        req["continuous"] = [r.int(), r.int()] + ([r.int()] if v == 0x42 else [])


def parse_request(frame, decompress=None):
    v, flags, stream, op, ln, hs = parse_header(frame)
    if frame[0] & 0x80:
        raise WireError("response direction bit on a request")
    body = frame[hs:hs + ln]
    if flags & 0x01:
        if decompress is None:
            raise WireError("compressed frame but no compression negotiated")
        body = decompress(body)
    r = R(body)
    req = {"version": v, "flags": flags, "stream": stream, "op": OP.get(op, op), "tracing": bool(flags & 0x02),
           "beta": bool(flags & 0x10), "compressed": bool(flags & 0x01)}
    if flags & 0x04:
        req["custom_payload"] = r.bytesmap()
    name = req["op"]
    if name == "STARTUP":
        req["options"] = r.stringmap()
    elif name == "OPTIONS":
        pass
    elif name == "REGISTER":
        req["events"] = r.stringlist()
    elif name == "AUTH_RESPONSE":
        req["token"] = r.bytes()
    elif name == "CREDENTIALS":
        req["credentials"] = r.stringmap()
    elif name == "QUERY":
        req["query"] = r.longstring()
        if v == 1:
            req["consistency"] = r.short()
        else:
            _query_params(r, v, req)
    elif name == "PREPARE":
        req["query"] = r.longstring()
        if v in V5_LIKE:
            pf = r.uint()
            if pf & 0x01:
                req["keyspace"] = r.string()
    elif name == "EXECUTE":
        req["id"] = r.shortbytes()
        if v in V5_LIKE:
            req["result_metadata_id"] = r.shortbytes()
        if v == 1:
            req["values"] = [r.value() for _ in range(r.short())]
            req["consistency"] = r.short()
        else:
            _query_params(r, v, req)
    elif name == "BATCH":
        req["batch_type"] = r.byte()
        qs = []
        for _ in range(r.short()):
            kind = r.byte()
            q = {"kind": kind}
            if kind == 0:
                q["query"] = r.longstring()
            else:
                q["id"] = r.shortbytes()
            q["values"] = [r.value() for _ in range(r.short())]
            qs.append(q)
        req["queries"] = qs
        req["consistency"] = r.short()
        if v >= 3:
            bf = r.uint() if v in INT_FLAGS else r.byte()
            if bf & 0x10:
                req["serial_consistency"] = r.short()
            if bf & 0x20:
                req["timestamp"] = r.long()
            if bf & 0x80:
                req["keyspace"] = r.string()
    else:
        req["raw"] = body
    if name in ("STARTUP", "OPTIONS", "REGISTER", "AUTH_RESPONSE", "QUERY", "PREPARE", "EXECUTE", "BATCH") and r.rest():
        req["trailing"] = r.rest()
    return req


# --------------------------------------------------------------------------- writers
def _short(n):
    return struct.pack(">H", n)


def _int(n):
    return struct.pack(">i", n)


def _string(s):
    b = s.encode("utf8")
    return _short(len(b)) + b


def _longstring(s):
    b = s.encode("utf8")
    return _int(len(b)) + b


def _bytes(b):
    return _int(-1) if b is None else _int(len(b)) + b


def _shortbytes(b):
    return _short(len(b)) + b


def _stringlist(l):
    return _short(len(l)) + b"".join(_string(s) for s in l)


def _inet(addr, port):
    import socket
    try:
        a = socket.inet_pton(socket.AF_INET, addr)
    except OSError:
        a = socket.inet_pton(socket.AF_INET6, addr)
    return bytes([len(a)]) + a + _int(port)


def frame(version, stream, opcode, body, flags=0, trace_id=None, warnings=None, payload=None):
    pre = b""
    if trace_id is not None:
        flags |= 0x02
        pre += trace_id
    if warnings is not None and version >= 4:
        flags |= 0x08
        pre += _stringlist(warnings)
    if payload is not None and version >= 4:
        flags |= 0x04
        pre += _short(len(payload)) + b"".join(_string(k) + _bytes(v) for k, v in payload.items())
    body = pre + body
    if isinstance(opcode, str):
        opcode = OPCODE[opcode]
    if version >= 3:
        return struct.pack(">BBhBi", 0x80 | version, flags, stream, opcode, len(body)) + body
    return struct.pack(">BBbBi", 0x80 | version, flags, stream, opcode, len(body)) + body


# ---- types and values for RESULT rows (only what the fake system tables and test queries need)
TYPE_ID = {"custom": 0x0000, "ascii": 0x0001, "bigint": 0x0002, "blob": 0x0003, "boolean": 0x0004, "counter": 0x0005,
           "decimal": 0x0006, "double": 0x0007, "float": 0x0008, "int": 0x0009, "timestamp": 0x000B, "uuid": 0x000C,
           "text": 0x000D, "varchar": 0x000D, "varint": 0x000E, "timeuuid": 0x000F, "inet": 0x0010}


def type_option(t):
    """t: 'text' | 'int' | ... | ('list', t) | ('set', t) | ('map', k, v)"""
    if isinstance(t, str):
        return _short(TYPE_ID[t])
    if t[0] == "list":
        return _short(0x20) + type_option(t[1])
    if t[0] == "set":
        return _short(0x22) + type_option(t[1])
    if t[0] == "map":
        return _short(0x21) + type_option(t[1]) + type_option(t[2])
    raise WireError("unsupported type %r" % (t,))


def _cbytes(b, legacy):
    if not legacy:
        return _bytes(b)
    b = b or b""
    return _short(len(b)) + b


def enc_value(t, v, version=4):
    """encode python value v of wire type t; None -> None.  On protocol v1/v2 a top-level collection
    uses 16-bit counts and lengths (nested collections always use the v3 layout)"""
    if v is None:
        return None
    legacy = version < 3 and not isinstance(t, str)
    if legacy:
        cnt = _short
        if t[0] in ("list", "set"):
            items = list(v)
            return cnt(len(items)) + b"".join(_cbytes(enc_value(t[1], x), True) for x in items)
        if t[0] == "map":
            items = list(v.items()) if isinstance(v, dict) else list(v)
            return cnt(len(items)) + b"".join(_cbytes(enc_value(t[1], k), True) + _cbytes(enc_value(t[2], x), True)
                                              for k, x in items)
    if isinstance(t, str):
        if t in ("text", "varchar", "ascii"):
            return v.encode("utf8")
        if t == "int":
            return struct.pack(">i", v)
        if t in ("bigint", "counter", "timestamp"):
            return struct.pack(">q", v)
        if t == "boolean":
            return b"\x01" if v else b"\x00"
        if t in ("uuid", "timeuuid"):
            return (v if isinstance(v, _uuid.UUID) else _uuid.UUID(v)).bytes
        if t == "inet":
            import socket
            try:
                return socket.inet_pton(socket.AF_INET, v)
            except OSError:
                return socket.inet_pton(socket.AF_INET6, v)
        if t == "blob":
            return bytes(v)
        if t == "double":
            return struct.pack(">d", v)
        raise WireError("unsupported scalar %r" % t)
    if t[0] in ("list", "set"):
        items = list(v)
        return _int(len(items)) + b"".join(_bytes(enc_value(t[1], x)) for x in items)
    if t[0] == "map":
        items = list(v.items()) if isinstance(v, dict) else list(v)
        return _int(len(items)) + b"".join(_bytes(enc_value(t[1], k)) + _bytes(enc_value(t[2], x)) for k, x in items)
    raise WireError("unsupported type %r" % (t,))


def rows_metadata(columns, ks="ks", table="t", paging_state=None, no_metadata=False, metadata_id=None,
                  version=4):
    flags = 0x0001
    if paging_state is not None:
        flags |= 0x0002
    if no_metadata:
        flags |= 0x0004
    if metadata_id is not None and version in V5_LIKE:
        flags |= 0x0008
    out = _int(flags) + _int(len(columns))
    if paging_state is not None:
        out += _bytes(paging_state)
    if flags & 0x0008:
        out += _shortbytes(metadata_id)
    if not no_metadata:
        out += _string(ks) + _string(table)
        for name, t in columns:
            out += _string(name) + type_option(t)
    return out


def result_rows(columns, rows, ks="ks", table="t", paging_state=None, no_metadata=False, metadata_id=None, version=4):
    """columns: [(name, type)], rows: list of lists of python values"""
    out = _int(2) + rows_metadata(columns, ks, table, paging_state, no_metadata, metadata_id, version)
    out += _int(len(rows))
    for row in rows:
        for (name, t), v in zip(columns, row):
            out += _bytes(enc_value(t, v, version))
    return out


def result_void():
    return _int(1)


def result_set_keyspace(ks):
    return _int(3) + _string(ks)


def result_prepared(version, query_id, bind_columns, result_columns, pk_indexes=(), ks="ks", table="t",
                    result_metadata_id=b"rmid"):
    out = _int(4) + _shortbytes(query_id)
    if version in V5_LIKE:
        out += _shortbytes(result_metadata_id)
    # bind metadata
    flags = 0x0001
    out += _int(flags) + _int(len(bind_columns))
    if version >= 4:
        out += _int(len(pk_indexes)) + b"".join(_short(i) for i in pk_indexes)
    out += _string(ks) + _string(table)
    for name, t in bind_columns:
        out += _string(name) + type_option(t)
    if version >= 2:
        out += rows_metadata(result_columns, ks, table, version=version)
    return out


def result_schema_change(version, change, target, ks, name=None, args=None):
    out = _int(5)
    if version >= 3:
        out += _string(change) + _string(target) + _string(ks)
        if target != "KEYSPACE":
            out += _string(name or "")
        if target in ("FUNCTION", "AGGREGATE"):
            out += _stringlist(args or [])
    else:
        out += _string(change) + _string(ks) + _string(name or "")
    return out


# ---- errors
ERR = {"server": 0x0000, "protocol": 0x000A, "bad_credentials": 0x0100, "unavailable": 0x1000, "overloaded": 0x1001,
       "bootstrapping": 0x1002, "truncate": 0x1003, "write_timeout": 0x1100, "read_timeout": 0x1200,
       "read_failure": 0x1300, "function_failure": 0x1400, "write_failure": 0x1500, "syntax": 0x2000,
       "unauthorized": 0x2100, "invalid": 0x2200, "config": 0x2300, "already_exists": 0x2400, "unprepared": 0x2500}


def error_body(version, kind, message="err", **kw):
    code = ERR[kind]
    out = _int(code) + _string(message)
    if kind == "unavailable":
        out += _short(kw.get("cl", 1)) + _int(kw.get("required", 2)) + _int(kw.get("alive", 1))
    elif kind == "write_timeout":
        out += _short(kw.get("cl", 1)) + _int(kw.get("received", 0)) + _int(kw.get("required", 1)) + \
            _string(kw.get("write_type", "SIMPLE"))
    elif kind == "read_timeout":
        out += _short(kw.get("cl", 1)) + _int(kw.get("received", 0)) + _int(kw.get("required", 1)) + \
            bytes([1 if kw.get("data_present", False) else 0])
    elif kind in ("read_failure", "write_failure"):
        out += _short(kw.get("cl", 1)) + _int(kw.get("received", 0)) + _int(kw.get("required", 1))
        if version in (5, 6, 0x41, 0x42):
            out += _int(1) + bytes([4, 127, 0, 0, 1]) + _short(0)
        else:
            out += _int(kw.get("failures", 1))
        if kind == "read_failure":
            out += bytes([1 if kw.get("data_present", False) else 0])
        else:
            out += _string(kw.get("write_type", "SIMPLE"))
    elif kind == "function_failure":
        out += _string(kw.get("keyspace", "ks")) + _string(kw.get("function", "f")) + _stringlist(kw.get("arg_types", []))
    elif kind == "already_exists":
        out += _string(kw.get("keyspace", "ks")) + _string(kw.get("table", "t"))
    elif kind == "unprepared":
        out += _shortbytes(kw.get("id", b"id"))
    return out


def supported_body(options):
    out = _short(len(options))
    for k, vals in options.items():
        out += _string(k) + _stringlist(list(vals))
    return out


def event_body(version, ev):
    t = ev["type"]
    if t == "TOPOLOGY_CHANGE":
        return _string(t) + _string(ev["change"]) + _inet(ev["address"], ev.get("port", 9042))
    if t == "STATUS_CHANGE":
        return _string(t) + _string(ev["change"]) + _inet(ev["address"], ev.get("port", 9042))
    if t == "SCHEMA_CHANGE":
        return _string(t) + result_schema_change(version, ev["change"], ev.get("target", "KEYSPACE"), ev["keyspace"],
                                                  ev.get("name"), ev.get("args"))[4:]
    raise WireError("unknown event %r" % (t,))
