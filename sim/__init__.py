"""Simulation engine (E3).  Importing this package before cassandra.cluster keeps the
optional twisted/eventlet reactors from being imported (4 s of import time per process);
cassandra.cluster treats them as unavailable, exactly as on a machine without them."""
import sys

if "cassandra.cluster" not in sys.modules:
    sys.modules.setdefault("cassandra.io.twistedreactor", None)
    sys.modules.setdefault("cassandra.io.eventletreactor", None)
