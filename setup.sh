#!/bin/sh
# Offline setup: make sure hypothesis (and, best effort, atheris) are importable by /venv/bin/python.
# Everything else is pure Python run straight from this checkout against /repo's working tree.
HERE="$(cd "$(dirname "$0")" && pwd)"
cd "$HERE" || exit 1
PY=/venv/bin/python
WH=/opt/veriftools/wheels
export PIP_NO_INDEX=1 PIP_DISABLE_PIP_VERSION_CHECK=1
if ! $PY -c "import hypothesis" 2>/dev/null; then
  mkdir -p .deps
  $PY -m pip install -q --no-index --find-links "$WH" --target .deps hypothesis || exit 1
fi
if ! PYTHONPATH="$HERE/.deps" $PY -c "import atheris" 2>/dev/null; then
  mkdir -p .deps
  $PY -m pip install -q --no-index --find-links "$WH" --target .deps atheris 2>/dev/null || \
    echo "setup: atheris not installable for this interpreter; thorough tiers run Hypothesis-only" >&2
fi
PYTHONPATH="$HERE/.deps" $PY -c "import hypothesis; print('setup ok: hypothesis', hypothesis.__version__)" || exit 1
exit 0
