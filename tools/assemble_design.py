#!/venv/bin/python
"""Rebuilds sections 6 and 7 of DESIGN.md from tools/design_6_intro.md, tools/design_62.md, the rendered tables
(tools/render_tables.py -> DESIGN_TABLES.md) and tools/design_7.md.  Sections 1-5 are left as they are."""
import os, subprocess
H = os.path.dirname(os.path.dirname(os.path.abspath(__file__)))
subprocess.check_call([os.path.join(H, "tools", "render_tables.py")])
s = open(H + "/DESIGN.md").read()
head = s[:s.index("## 6. ")]
tables = open(H + "/DESIGN_TABLES.md").read()
t61 = tables[:tables.index("### 6.3")]
t63 = tables[tables.index("### 6.3"):]
body = open(H + "/tools/design_6_intro.md").read() + "\n" + t61 + "\n" + open(H + "/tools/design_62.md").read() + "\n" + t63 + \
    "\n---------------------------------------------------------------------------\n\n" + open(H + "/tools/design_7.md").read()
open(H + "/DESIGN.md", "w").write(head + body)
os.remove(H + "/DESIGN_TABLES.md")
print("DESIGN.md assembled:", len((head + body).splitlines()), "lines")
