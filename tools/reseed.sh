#!/bin/sh
# tools/reseed.sh <ID> <file> <old> <new> : re-create seeded/<ID>/patch.diff on the current HEAD with a textual edit,
# check demo (clean 0 / patched 1) and the unit suite, then run the check against it
ID=$1; F=$2; WT=/tmp/reseed-$$
git -C /repo worktree add --detach $WT HEAD >/dev/null 2>&1 || exit 2
OLD="$3" NEW="$4" /venv/bin/python - "$WT/$F" <<'PY'
import os,sys
p=sys.argv[1]; s=open(p).read(); old=os.environ["OLD"]; new=os.environ["NEW"]
assert s.count(old)==1, s.count(old)
open(p,'w').write(s.replace(old,new))
PY
[ $? = 0 ] || { git -C /repo worktree remove --force $WT; echo "edit failed"; exit 3; }
git -C $WT diff > /verif/seeded/$ID/patch.diff
cd /verif/seeded/$ID; /venv/bin/python demo.py $WT >/dev/null 2>&1; echo "patched=$?"; /venv/bin/python demo.py /repo >/dev/null 2>&1; echo "clean=$?"
(cd $WT && /venv/bin/python -m pytest -q -p no:cacheprovider --continue-on-collection-errors tests/unit 2>&1 | tail -1)
git -C /repo worktree remove --force $WT
cd /verif; tools/mut.py $ID --patch seeded/$ID/patch.diff 2>&1 | grep "MUTANT\|FAILED"
