#!/venv/bin/python
"""Renders the status tables of DESIGN.md section 6 from MANIFEST.json, evidence/, mutants/, seeded/MATRIX.json,
known_findings.json and /repo's git log -> DESIGN_TABLES.md (included verbatim into DESIGN.md)."""
import json, os, subprocess, glob
H = os.path.dirname(os.path.dirname(os.path.abspath(__file__)))
man = json.load(open(H + "/MANIFEST.json"))
props = {json.loads(l)["id"]: json.loads(l) for l in open(H + "/properties.jsonl")}
matrix = json.load(open(H + "/seeded/MATRIX.json")) if os.path.exists(H + "/seeded/MATRIX.json") else {}
kf = json.load(open(H + "/known_findings.json"))
out = []
out.append("### 6.1 Checks as built (last run on this machine, seed 1) and sensitivity\n")
out.append("| id | engine | parts | evaluations (tier of the last run) | distinct non-trivial | exhaustive parts | catalogue mutants | seeded changes, rounds 1/2/3/4 (independent agents) |")
out.append("|---|---|---|---|---|---|---|---|")
for c in man["checks"]:
    pid = c["property_id"]
    ev = {}
    p = H + "/evidence/%s.json" % pid
    if os.path.exists(p):
        ev = json.load(open(p))
    cov = ev.get("coverage", {})
    mp = H + "/mutants/%s.json" % pid
    nm = len(json.load(open(mp))) if os.path.exists(mp) else 0
    sm = " / ".join(matrix.get(pid + sfx, {}).get("verdict", "-") for sfx in ("", ".r2", ".r3", ".r4"))
    out.append("| %s | %s | %s | %s (%s) | %s | %s | %d | %s |" % (
        pid, c.get("engine", ""), ", ".join(sorted(cov.get("parts", {}).keys())), cov.get("evaluations", "?"), ev.get("tier", "?"),
        cov.get("distinct_nontrivial", "?"), ", ".join(cov.get("exhaustive_parts", [])) or "-", nm, sm))
out.append("")
out.append("### 6.3 Findings (genuine defects of the pinned tree) and their repair\n")
out.append("| property | finding key | status | commit | what |")
out.append("|---|---|---|---|---|")
for r in sorted(kf, key=lambda r: (r["property"], r.get("commit", ""), "/".join(r["key"]))):
    what = r["what"]
    if what.startswith("fixed: "):
        what = what.split(" ", 3)[-1]
    out.append("| %s | `%s` | %s | %s | %s |" % (r["property"], "/".join(r["key"]).replace("|", "\\|"), r["status"], r.get("commit", ""), what.replace("|", "\\|").replace("\n", " ")[:400]))
log = subprocess.check_output(["git", "-C", "/repo", "log", "--format=%h %s", "--reverse"]).decode().splitlines()
out.append("")
out.append("### 6.4 `fix:` commits in /repo (oldest first)\n")
for l in log:
    if " fix: " in l:
        out.append("* `%s` %s" % tuple(l.split(" ", 1)))
open(H + "/DESIGN_TABLES.md", "w").write("\n".join(out) + "\n")
print("written", len(out), "lines")
