#!/bin/sh
# tools/import_round4.sh <ID>... : copy /var/tmp/seed-out5/<ID>/ to seeded/<ID>/round4/, confirm it with
# tools/seedverify.sh (patch applies to HEAD, demo 0 on clean / 1 on patched, pinned suite unchanged), record the
# confirmation in meta.json and run the check's quick tier against it (seeded/MATRIX.json key <ID>.r4).
H="$(cd "$(dirname "$0")/.." && pwd)"
for ID in "$@"; do
  SRC=/var/tmp/seed-out5/$ID; DST=$H/seeded/$ID/round4
  [ -f "$SRC/patch.diff" ] || { echo "$ID: no patch"; continue; }
  rm -rf "$DST"; mkdir -p "$DST"
  for f in patch.diff demo.py asyncore.py meta.json; do [ -f "$SRC/$f" ] && cp "$SRC/$f" "$DST/"; done
  # helper modules a demo may import
  for f in "$SRC"/*.py; do [ -f "$f" ] && cp -n "$f" "$DST/"; done
  RES=$("$H/tools/seedverify.sh" "$DST")
  echo "$ID verify: $RES"
  RES="$RES" /venv/bin/python - "$DST/meta.json" <<'PY'
import json, os, sys
p = sys.argv[1]
try:
    m = json.load(open(p))
except Exception:
    m = {}
m["confirmed"] = os.environ["RES"]
m["confirmed_how"] = "tools/seedverify.sh: fresh worktree of /repo HEAD, git apply patch.diff, demo.py on clean tree (exit 0) and patched tree (exit 1), pinned unit suite on the patched tree"
json.dump(m, open(p, "w"), indent=1)
PY
  "$H/tools/seedmatrix.py" "$ID" --only=.r4
done
