#!/bin/sh
# tools/seedverify.sh <dir with patch.diff demo.py [asyncore.py]>  -- confirm a seeded change:
#   (1) applies to a clean worktree of /repo HEAD, (2) pinned unit suite still 350 passed,
#   (3) demo.py exits 1 on the patched tree and 0 on the clean tree.   Scratch worktree is removed.
D="$(cd "$1" && pwd)"; WT="/tmp/seedverify-$$"
git -C /repo worktree add --detach "$WT" HEAD >/dev/null 2>&1 || exit 2
trap 'git -C /repo worktree remove --force "$WT" >/dev/null 2>&1' EXIT
cd "$D" || exit 2
/venv/bin/python demo.py "$WT" >/dev/null 2>&1; CLEAN=$?
git -C "$WT" apply "$D/patch.diff" || { echo "PATCH-DOES-NOT-APPLY"; exit 3; }
/venv/bin/python demo.py "$WT" > "$D/demo_patched.out" 2>&1; PATCHED=$?
if [ "$2" != "--no-tests" ]; then
  RES=$(cd "$WT" && /venv/bin/python -m pytest -q -p no:cacheprovider --timeout=900 --continue-on-collection-errors tests/unit 2>&1 | tail -1)
else RES="(tests skipped)"; fi
echo "demo clean=$CLEAN patched=$PATCHED ; pytest: $RES"
