#!/venv/bin/python
"""tools/flip.py PROP KEY_SUBSTRING COMMIT_SUBJECT_SUBSTRING  -- mark matching known findings as fixed (atomic write)"""
import json, os, subprocess, sys
prop, sub, subj = sys.argv[1:4]
log = subprocess.check_output(['git', '-C', '/repo', 'log', '--format=%h %s']).decode().splitlines()
c = next(l.split()[0] for l in log if subj in l)
p = '/verif/known_findings.json'
d = json.load(open(p))
n = 0
for r in d:
    k = "/".join(r["key"])
    if r["property"] == prop and sub in k and r["status"] == "known":
        r["status"] = "fixed"; r["commit"] = c
        r["what"] = "fixed: property=%s %s %s" % (prop, c, r["what"]); n += 1
        print("flipped", prop, k, c)
tmp = p + ".tmp%d" % os.getpid()
open(tmp, 'w').write("[\n" + ",\n".join(" " + json.dumps(r) for r in d) + "\n]\n")
os.replace(tmp, p)
if not n: print("nothing matched", prop, sub)
