#!/venv/bin/python
"""Regenerates MANIFEST.json from the check modules present in checks/ and from
tools/not_applicable.json (reasons for the properties that are not claimed)."""
import importlib, json, os, sys
HOME = os.path.dirname(os.path.dirname(os.path.abspath(__file__)))
sys.path[:0] = [HOME, "/repo", os.path.join(HOME, "shims")]
if os.path.isdir(os.path.join(HOME, ".deps")):
    sys.path.append(os.path.join(HOME, ".deps"))
props = [json.loads(l) for l in open(os.path.join(HOME, "properties.jsonl"))]
na_path = os.path.join(HOME, "tools", "not_applicable.json")
na_reasons = json.load(open(na_path)) if os.path.exists(na_path) else {}
checks, na = [], []
reg_path = os.path.join(HOME, "tools", "registered.txt")
registered = set(open(reg_path).read().split()) if os.path.exists(reg_path) else None
for p in props:
    pid = p["id"]
    path = os.path.join(HOME, "checks", pid.lower() + ".py")
    if not os.path.exists(path) or pid in na_reasons or (registered is not None and pid not in registered):
        na.append({"property_id": pid, "reason": na_reasons.get(pid, "check not built yet (work in progress; see DESIGN.md section 3)")})
        continue
    m = importlib.import_module("checks." + pid.lower())
    level = getattr(m, "LEVEL", "exploration")
    entry = {
        "property_id": pid,
        "quick_cmd": "./run %s quick" % pid,
        "thorough_cmd": "./run %s thorough" % pid,
        "evidence_file": "evidence/%s.json" % pid,
        "replay_cmd_template": "./run %s --replay {path}" % pid,
        "engine": getattr(m, "ENGINE", "models"),
        "level_claimed": {
            "category": level,
            "text": getattr(m, "LEVEL_TEXT", "Generated-input search (Hypothesis, seeded by VERIF_SEED) against an explicit oracle; "
                            "a green run means the property held on every generated case, not that it holds universally."),
            "design_ref": "DESIGN.md section 3, " + pid,
        },
        "level_note": getattr(m, "LEVEL_NOTE", "; ".join(getattr(m, "ASSUMPTIONS", [])) or "trusted: the reference model in /verif"),
        "technique": getattr(m, "TECHNIQUE", "property-based testing (Hypothesis) against a reference model"),
    }
    checks.append(entry)
baseline = json.load(open("/root/.vp/BASELINE.json"))["cmd"] if os.path.exists("/root/.vp/BASELINE.json") else \
    "cd /repo && /venv/bin/python -m pytest -ra -q -p no:cacheprovider --timeout=900 --continue-on-collection-errors --junitxml=<file>"
hooks_path = os.path.join(HOME, "tools", "hooks.json")
hooks = json.load(open(hooks_path)) if os.path.exists(hooks_path) else {}
man = {
    "version": 1,
    "setup_cmd": "sh setup.sh",
    "hooks": {
        "guard": "DATASTAX_PYTHON_DRIVER_VERIF",
        "enable": hooks.get("enable", "none needed: the checks reach everything through public constructor arguments, subclassing and "
                  "module-attribute substitution from the harness side; no source hooks exist in /repo"),
        "baseline_off_cmd": baseline,
        "source_commits": hooks.get("source_commits", []),
        "add_only": True,
    },
    "engines": [
        {"name": "vlib", "path": "vlib/", "serves_properties": [c["property_id"] for c in checks],
         "kind_free_text": "runner: Hypothesis parts + exhaustive enumeration parts, sharded over processes, finding keys, replay files, regressions replayed first, evidence writer"},
        {"name": "spec", "path": "spec/", "serves_properties": [c["property_id"] for c in checks if c["engine"] in ("codec", "proto", "cql", "models")],
         "kind_free_text": "independent reference models written from the protocol/Cassandra specifications (value codec, protocol frames, v5 segments, murmur3, replica placement, retry tables, CQL lexer/term parser/DML interpreter, civil calendar, time-UUID order); import nothing from cassandra.*"},
        {"name": "sim", "path": "sim/", "serves_properties": [c["property_id"] for c in checks if c["engine"] == "sim"],
         "kind_free_text": "deterministic world: real Cluster/Session/pools/ResponseFuture over an in-memory Connection subclass, fake nodes, one virtual event loop, virtual threads (greenlets) with virtual Lock/Condition/Event/time and a schedule tape drawn by Hypothesis"},
        {"name": "cybuild", "path": "build/", "serves_properties": [c["property_id"] for c in checks if c["engine"] == "cybuild"],
         "kind_free_text": "out-of-tree Cython build of the current /repo tree into /var/tmp (removed at exit) for the compiled-vs-pure differential"},
    ],
    "checks": checks,
    "not_applicable": na,
    "notes": "Every check is `./run <ID> <tier>`; it imports the driver from /repo's working tree (pure Python, nothing cached), "
             "is a pure function of (tree, VERIF_SEED, tier), exits 0/1/2 (held / violation / harness error). "
             "known_findings.json lists fixed and known findings; regressions/<ID>/ are replayed first on every run.",
}
json.dump(man, open(os.path.join(HOME, "MANIFEST.json"), "w"), indent=1)
print("MANIFEST.json: %d checks, %d not_applicable" % (len(checks), len(na)))
