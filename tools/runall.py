#!/venv/bin/python
"""tools/runall.py [--tier quick] [--seeds 1,2,3] [--jobs 2] [IDs...]  -- run checks, print a summary table"""
import json, os, subprocess, sys, time
from concurrent.futures import ThreadPoolExecutor
HOME = os.path.dirname(os.path.dirname(os.path.abspath(__file__)))
args = sys.argv[1:]
tier, seeds, jobs = "quick", [1], 2
ids = []
while args:
    a = args.pop(0)
    if a == "--tier": tier = args.pop(0)
    elif a == "--seeds": seeds = [int(x) for x in args.pop(0).split(",")]
    elif a == "--jobs": jobs = int(args.pop(0))
    else: ids.append(a.upper())
if not ids:
    ids = [c["property_id"] for c in json.load(open(os.path.join(HOME, "MANIFEST.json")))["checks"]]
def one(job):
    pid, seed = job
    t0 = time.time()
    r = subprocess.run([os.path.join(HOME, "run"), pid, tier], env=dict(os.environ, VERIF_SEED=str(seed)),
                       stdout=subprocess.PIPE, stderr=subprocess.STDOUT, text=True)
    lines = [l for l in r.stdout.splitlines() if l.startswith(pid + " ") or "VIOLATION" in l or "HARNESS ERROR" in l or "KNOWN-FINDING" in l]
    return pid, seed, r.returncode, time.time() - t0, lines
with ThreadPoolExecutor(jobs) as ex:
    for pid, seed, rc, dt, lines in ex.map(one, [(p, s) for p in ids for s in seeds]):
        kn = sum(1 for l in lines if "KNOWN-FINDING" in l)
        summ = [l for l in lines if l.startswith(pid + " ")]
        print("%-4s seed=%-3d rc=%d %6.1fs known=%d  %s" % (pid, seed, rc, dt, kn, summ[-1][len(pid)+1:] if summ else ""))
        if rc != 0:
            for l in lines:
                if "KNOWN-FINDING" not in l:
                    print("      " + l[:240])
        sys.stdout.flush()
