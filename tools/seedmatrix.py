#!/venv/bin/python
"""tools/seedmatrix.py [IDs...] -- run each check's quick tier against its seeded change (scratch copy via
tools/mut.py --patch) and record the verdict in seeded/MATRIX.json"""
import json, os, subprocess, sys
HOME = os.path.dirname(os.path.dirname(os.path.abspath(__file__)))
mpath = os.path.join(HOME, "seeded", "MATRIX.json")
matrix = json.load(open(mpath)) if os.path.exists(mpath) else {}
only = [a for a in sys.argv[1:] if a.startswith("--only=")]
args = [a for a in sys.argv[1:] if not a.startswith("--")]
ids = [a.upper() for a in args] or sorted(d for d in os.listdir(os.path.join(HOME, "seeded")) if d.startswith("C"))
jobs = []
for pid in ids:
    for sub, tag in (("", pid), ("round2", pid + ".r2"), ("round3", pid + ".r3"), ("round4", pid + ".r4")):
        jobs.append((pid, os.path.join(HOME, "seeded", pid, sub, "patch.diff"), tag))
for pid, patch, tag in jobs:
    if only and not tag.endswith(only[0][7:]):
        continue
    if not os.path.exists(patch) or not os.path.exists(os.path.join(HOME, "checks", pid.lower() + ".py")):
        continue
    try:
        meta = json.load(open(os.path.join(os.path.dirname(patch), "meta.json")))
    except Exception:
        meta = {}
    if meta.get("neutralised"):
        matrix = json.load(open(mpath)) if os.path.exists(mpath) else {}
        matrix[tag] = {"verdict": "NEUTRALISED-BY-FIX", "tier": "quick", "failures": [], "note": meta["neutralised"][:200]}
        json.dump(matrix, open(mpath + ".tmp%d" % os.getpid(), "w"), indent=1, sort_keys=True)
        os.replace(mpath + ".tmp%d" % os.getpid(), mpath)
        print(tag, "NEUTRALISED-BY-FIX")
        continue
    r = subprocess.run([os.path.join(HOME, "tools", "mut.py"), pid, "--patch", patch], stdout=subprocess.PIPE,
                       stderr=subprocess.STDOUT, text=True)
    out = r.stdout
    verdict = "KILLED" if "KILLED" in out else ("SURVIVED" if "SURVIVED" in out else ("PATCH-FAILED" if "FAILED" in out or "rej" in out else "ERROR"))
    fails = [l.strip() for l in out.splitlines() if l.strip().startswith("failure ")][:2]
    matrix = json.load(open(mpath)) if os.path.exists(mpath) else {}   # re-read: importers may run side by side
    matrix[tag] = {"verdict": verdict, "tier": "quick", "failures": fails}
    print(tag, verdict, fails[:1])
    sys.stdout.flush()
    json.dump(matrix, open(mpath + ".tmp%d" % os.getpid(), "w"), indent=1, sort_keys=True)
    os.replace(mpath + ".tmp%d" % os.getpid(), mpath)
