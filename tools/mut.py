#!/venv/bin/python
"""Sensitivity tool (development only, not evidence).

  tools/mut.py C24 [-t quick|thorough] FILE OLD NEW      one textual mutation
  tools/mut.py C24 --patch some.diff                     a unified diff (patch -p1)
  tools/mut.py C24 --catalog mutants/C24.json            [{"name","file","old","new"}...]

Copies /repo/cassandra to a scratch dir under /var/tmp, applies the mutation, runs
./run <ID> <tier> with VERIF_REPO pointing at the scratch copy, prints the exit code
(1 = killed) and removes the scratch dir."""
import json, os, shutil, subprocess, sys, tempfile

HOME = os.path.dirname(os.path.dirname(os.path.abspath(__file__)))


def run_one(pid, tier, edits=None, patch=None, name=""):
    scratch = tempfile.mkdtemp(prefix="verif-mut-", dir="/var/tmp")
    try:
        shutil.copytree("/repo/cassandra", os.path.join(scratch, "cassandra"),
                        ignore=shutil.ignore_patterns("__pycache__", "*.so", "*.c.orig"))
        if patch:
            subprocess.check_call(["patch", "-s", "-p1", "-i", os.path.abspath(patch)], cwd=scratch)
        for e in edits or []:
            p = os.path.join(scratch, e["file"])
            s = open(p).read()
            if s.count(e["old"]) < 1:
                print("MUTANT %s: pattern not found in %s" % (name, e["file"]))
                return None
            s = s.replace(e["old"], e["new"], e.get("count", 1))
            open(p, "w").write(s)
        env = dict(os.environ, VERIF_REPO=scratch)
        r = subprocess.run([os.path.join(HOME, "run"), pid, tier], env=env, stdout=subprocess.PIPE,
                           stderr=subprocess.STDOUT, text=True)
        lines = [l for l in r.stdout.splitlines() if not l.startswith("WARNING conda")]
        verdict = {0: "SURVIVED", 1: "KILLED", 2: "HARNESS-ERROR"}.get(r.returncode, "rc=%d" % r.returncode)
        print("MUTANT %-40s %s" % (name or "(adhoc)", verdict))
        for l in lines[-6:]:
            print("    " + l[:300])
        return r.returncode
    finally:
        shutil.rmtree(scratch, ignore_errors=True)


def main(argv):
    pid = argv[0]
    argv = argv[1:]
    tier = "quick"
    if argv and argv[0] == "-t":
        tier = argv[1]
        argv = argv[2:]
    if argv[0] == "--patch":
        return run_one(pid, tier, patch=argv[1], name=os.path.basename(argv[1]))
    if argv[0] == "--catalog":
        cat = json.load(open(argv[1]))
        only = argv[2:] 
        rcs = {}
        for m in cat:
            if only and m["name"] not in only:
                continue
            edits = m.get("edits") or [m]
            rcs[m["name"]] = run_one(m.get("property", pid), tier, edits=edits, name=m["name"])
        print(json.dumps(rcs))
        return 0
    f, old, new = argv[:3]
    return run_one(pid, tier, edits=[{"file": f, "old": old, "new": new}], name="%s: %s -> %s" % (f, old[:30], new[:30]))


if __name__ == "__main__":
    sys.exit(main(sys.argv[1:]) or 0)
