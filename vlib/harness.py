"""Core of the /verif machinery: parts, shards, recording, findings, evidence.

A check module (checks/cNN.py) exposes

    PID   = "C24"
    TITLE = "..."                       (free text)
    RULE  = "..."                       how cases are generated, what is non-trivial
    ASSUMPTIONS = [...]
    def parts(tier):  -> list of Part   (see hyp_part / enum_part below)

Each Part has an ``interpret(case, ctx)`` function.  ``case`` is JSON-able plain
data; ``interpret`` builds the real driver objects from it, runs the oracle and
reports through ``ctx``:

    ctx.label("class-name", ...)        class histogram (hypothesis.event-like)
    ctx.nontrivial()                    mark the current case non-trivial
    ctx.fail([sub_oracle, feature...], "message")   record an oracle failure
    with ctx.driver([sub_oracle, ...]): an exception escaping the block is an
                                        oracle failure (driver code must not raise here)

Any other exception escaping ``interpret`` is a harness error (exit 2).

Exit codes of a run: 0 held / 1 violation(s) / 2 harness error.
"""
from __future__ import annotations

import hashlib
import json
import os
import sys
import time
import traceback
from collections import Counter

HOME = os.environ.get("VERIF_HOME") or os.path.dirname(os.path.dirname(os.path.abspath(__file__)))
REPO = os.environ.get("VERIF_REPO", "/repo")

MAX_ROUNDS = 5
MAX_SAMPLES = 6


class HarnessError(Exception):
    pass


def canon(case):
    return json.dumps(case, sort_keys=True, separators=(",", ":"), default=_json_default)


def _json_default(o):
    if isinstance(o, (bytes, bytearray)):
        return {"__hex__": bytes(o).hex()}
    if isinstance(o, (set, frozenset)):
        return sorted(o, key=repr)
    if isinstance(o, tuple):
        return list(o)
    return repr(o)


def digest(case):
    return hashlib.blake2b(canon(case).encode("utf-8", "surrogatepass"), digest_size=12).digest()


def key_str(key):
    return "/".join(str(k) for k in key)


# ----------------------------------------------------------------------------
# known findings
# ----------------------------------------------------------------------------

def load_findings(pid):
    path = os.path.join(HOME, "known_findings.json")
    known, fixed = {}, {}
    if os.path.exists(path):
        with open(path) as f:
            for rec in json.load(f):
                if rec.get("property") != pid:
                    continue
                k = key_str(rec["key"])
                if rec.get("status") == "known":
                    known[k] = rec
                else:
                    fixed[k] = rec
    return known, fixed


# ----------------------------------------------------------------------------
# per-case context
# ----------------------------------------------------------------------------

class _DriverBlock(object):
    def __init__(self, ctx, key, expect):
        self.ctx, self.key, self.expect = ctx, list(key), expect

    def __enter__(self):
        return self

    def __exit__(self, et, ev, tb):
        if et is None:
            return False
        if issubclass(et, (KeyboardInterrupt, SystemExit, HarnessError, MemoryError)):
            return False
        if self.expect and issubclass(et, self.expect):
            return False
        frames = traceback.extract_tb(tb)
        where = ""
        for fr in reversed(frames):
            if "/cassandra/" in fr.filename:
                where = "%s:%s" % (os.path.basename(fr.filename), fr.name)
                break
        self.ctx.fail(self.key + ["raises", et.__name__],
                      "driver raised %s: %s (at %s)" % (et.__name__, str(ev)[:300], where))
        return True


class Ctx(object):
    """Recording context handed to interpret()."""

    def __init__(self, stats, known, excluded):
        self.stats = stats
        self.known = known          # dict key_str -> rec
        self.excluded = excluded    # set of key_str (in-run exclusions)
        self.reset()

    def reset(self):
        self._labels = []
        self._nt = False
        self._failures = []

    # --- classification
    def label(self, *names):
        self._labels.extend(names)

    def nontrivial(self, flag=True):
        if flag:
            self._nt = True

    # --- oracle failures
    def fail(self, key, msg=""):
        self._failures.append((list(map(str, key)), str(msg)[:2000]))

    def check(self, cond, key, msg=""):
        if not cond:
            self.fail(key, msg)
        return cond

    def driver(self, key, expect=()):
        return _DriverBlock(self, key, expect)

    def is_known(self, key):
        return key_str(key) in self.known


class Stats(object):
    def __init__(self):
        self.evaluations = 0
        self.nt = set()
        self.classes = Counter()
        self.samples = []
        self.known_hits = Counter()
        self.excluded_hits = Counter()
        self.known_samples = {}
        self.inconclusive = 0
        self.extra = {}

    def merge(self, other):
        self.evaluations += other.evaluations
        self.nt |= other.nt
        self.classes.update(other.classes)
        for s in other.samples:
            if len(self.samples) < MAX_SAMPLES:
                self.samples.append(s)
        self.known_hits.update(other.known_hits)
        self.excluded_hits.update(other.excluded_hits)
        for k, v in other.known_samples.items():
            self.known_samples.setdefault(k, v)
        self.inconclusive += other.inconclusive
        for k, v in other.extra.items():
            if isinstance(v, (int, float)) and isinstance(self.extra.get(k, 0), (int, float)):
                self.extra[k] = self.extra.get(k, 0) + v
            else:
                self.extra.setdefault(k, v)


def evaluate(part, case, ctx):
    """Run interpret on one case; returns list of *new* (unlisted, unexcluded) failures."""
    ctx.reset()
    part.interpret(case, ctx)
    st = ctx.stats
    st.evaluations += 1
    for lab in ctx._labels:
        st.classes[lab] += 1
    if ctx._nt:
        d = digest(case)
        if d not in st.nt:
            st.nt.add(d)
            if len(st.samples) < MAX_SAMPLES and (len(st.samples) < 2 or st.evaluations % 7 == 0):
                st.samples.append({"part": part.name, "case": json.loads(canon(case))})
    new = []
    for key, msg in ctx._failures:
        ks = key_str(key)
        if ks in ctx.known:
            st.known_hits[ks] += 1
            st.known_samples.setdefault(ks, {"part": part.name, "case": json.loads(canon(case)), "msg": msg})
        elif ks in ctx.excluded:
            st.excluded_hits[ks] += 1
        else:
            new.append((key, msg))
    return new


# ----------------------------------------------------------------------------
# parts
# ----------------------------------------------------------------------------

class Part(object):
    kind = "abstract"

    def __init__(self, name, interpret):
        self.name = name
        self.interpret = interpret
        self.exhaustive = False

    def shards(self):
        return 1

    def run_shard(self, shard, seed, ctx):
        """returns list of violations: dict(key,msg,case)"""
        raise NotImplementedError


class HypPart(Part):
    """Hypothesis-driven part: `strategy` draws JSON-able cases."""
    kind = "hypothesis"

    def __init__(self, name, strategy, interpret, examples, shards=1, shrink=True, floors=None,
                 suppress_filter_check=False):
        Part.__init__(self, name, interpret)
        self.strategy = strategy
        self.examples = int(examples)
        self._shards = int(shards)
        self.shrink = shrink
        self.floors = floors or {}
        self.suppress_filter_check = suppress_filter_check

    def shards(self):
        return self._shards

    def run_shard(self, shard, seed, ctx):
        import hypothesis
        from hypothesis import HealthCheck, Phase, given, settings

        violations = []
        strategy = self.strategy() if callable(self.strategy) else self.strategy
        sup = [HealthCheck.too_slow, HealthCheck.data_too_large, HealthCheck.large_base_example]
        if self.suppress_filter_check:
            sup.append(HealthCheck.filter_too_much)
        phases = [Phase.generate] + ([Phase.shrink] if self.shrink else [])
        sett = settings(max_examples=self.examples, deadline=None, database=None,
                        derandomize=False, report_multiple_bugs=False, print_blob=False,
                        suppress_health_check=sup, phases=phases,
                        verbosity=hypothesis.Verbosity.quiet)
        shard_seed = (int(seed) * 1000003 + shard * 7919 + _name_salt(self.name)) % (2 ** 63)

        for _round in range(MAX_ROUNDS):
            box = {"case": None, "fails": None}

            def body(case):
                new = evaluate(self, case, ctx)
                if new:
                    box["case"], box["fails"] = case, new
                    raise _OracleFailure(new[0][1])

            test = hypothesis.seed(shard_seed)(sett(given(strategy)(body)))
            try:
                test()
            except _OracleFailure:
                pass
            except hypothesis.errors.FailedHealthCheck as e:
                raise HarnessError("generator health check failed in part %s: %s" % (self.name, e))
            except hypothesis.errors.Flaky as e:
                # hypothesis could not re-run the shrunk case deterministically.  If an oracle
                # failure was observed report that; otherwise it is a harness problem.
                if box["fails"] is None:
                    raise HarnessError("flaky case in part %s: %s" % (self.name, e))
            except BaseException as e:
                if _is_wrapped_oracle_failure(e) and box["fails"] is not None:
                    pass
                else:
                    raise
            if box["fails"] is None:
                break
            for key, msg in box["fails"]:
                ctx.excluded.add(key_str(key))
                violations.append({"key": key, "msg": msg, "part": self.name,
                                   "case": json.loads(canon(box["case"]))})
        return violations


class _OracleFailure(AssertionError):
    pass


def _is_wrapped_oracle_failure(e):
    seen = 0
    while e is not None and seen < 5:
        if isinstance(e, _OracleFailure):
            return True
        e = e.__cause__ or e.__context__
        seen += 1
    return False


def _name_salt(name):
    return int.from_bytes(hashlib.blake2b(name.encode(), digest_size=4).digest(), "big")


class EnumPart(Part):
    """Enumerates a finite domain.  `chunks(tier_args)` returns a list of chunk
    descriptors (JSON-able); `cases(chunk)` yields the cases of one chunk.  When the
    whole list is processed the part is exhaustive over its stated domain."""
    kind = "enumeration"

    def __init__(self, name, chunks, cases, interpret, exhaustive=True, sampled=False):
        Part.__init__(self, name, interpret)
        self._chunks = list(chunks)
        self.cases = cases
        self.exhaustive = exhaustive and not sampled

    def shards(self):
        return max(1, len(self._chunks))

    def run_shard(self, shard, seed, ctx):
        violations = []
        if not self._chunks:
            return violations
        chunk = self._chunks[shard]
        seen_keys = set()
        for case in self.cases(chunk):
            new = evaluate(self, case, ctx)
            for key, msg in new:
                ks = key_str(key)
                if ks in seen_keys:
                    ctx.stats.excluded_hits[ks] += 1
                    continue
                seen_keys.add(ks)
                ctx.excluded.add(ks)
                violations.append({"key": key, "msg": msg, "part": self.name,
                                   "case": json.loads(canon(case))})
        return violations


def hyp_part(name, strategy, interpret, tier, quick, thorough, quick_shards=1, thorough_shards=16, **kw):
    """`quick` / `thorough` are example counts per shard."""
    if tier == "quick":
        return HypPart(name, strategy, interpret, quick, shards=quick_shards, **kw)
    return HypPart(name, strategy, interpret, thorough, shards=thorough_shards, **kw)


# ----------------------------------------------------------------------------
# worker entry (top-level for multiprocessing)
# ----------------------------------------------------------------------------

_WORK = {}


def _worker(args):
    pid, tier, seed, part_index, shard = args
    t0 = time.time()
    try:
        mod = _WORK.get("mod")
        parts = _WORK.get("parts")
        part = parts[part_index]
        known, _fixed = load_findings(pid)
        stats = Stats()
        ctx = Ctx(stats, known, set())
        violations = part.run_shard(shard, seed, ctx)
        return {"ok": True, "part": part_index, "shard": shard, "stats": stats,
                "violations": violations, "wall": time.time() - t0}
    except HarnessError as e:
        return {"ok": False, "part": part_index, "shard": shard, "error": "HarnessError: %s" % e,
                "tb": traceback.format_exc()}
    except BaseException as e:  # noqa
        return {"ok": False, "part": part_index, "shard": shard,
                "error": "%s: %s" % (type(e).__name__, e), "tb": traceback.format_exc()}
