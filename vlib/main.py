"""./run <ID> <quick|thorough>   |   ./run <ID> --replay <path>"""
from __future__ import annotations

import importlib
import json
import multiprocessing
import os
import sys
import time
import traceback

from vlib import harness
from vlib.harness import Ctx, HarnessError, Stats, canon, key_str, load_findings

HOME = harness.HOME


def _seed():
    try:
        s = int(os.environ.get("VERIF_SEED", "1"))
    except ValueError:
        s = 1
    return s if s != 0 else 1


def _load(pid):
    if harness.REPO not in sys.path:
        sys.path.insert(1, harness.REPO)
    import cassandra  # noqa: the tree under test
    src = os.path.realpath(os.path.dirname(cassandra.__file__))
    want = os.path.realpath(os.path.join(harness.REPO, "cassandra"))
    if src != want:
        raise HarnessError("cassandra imported from %s, expected %s" % (src, want))
    return importlib.import_module("checks." + pid.lower())


def _write_replay(pid, v):
    d = os.path.join(HOME, "replays", pid)
    os.makedirs(d, exist_ok=True)
    body = {"property": pid, "part": v["part"], "key": v["key"], "msg": v["msg"], "case": v["case"]}
    name = harness.digest({"k": v["key"], "c": v["case"]}).hex() + ".json"
    path = os.path.join(d, name)
    with open(path, "w") as f:
        json.dump(body, f, indent=1, sort_keys=True)
    return os.path.relpath(path, HOME)


def _run_case_file(pid, mod, parts_by_name, path, known):
    with open(path) as f:
        body = json.load(f)
    part = parts_by_name.get(body["part"])
    if part is None:
        raise HarnessError("replay %s names unknown part %r" % (path, body["part"]))
    stats = Stats()
    ctx = Ctx(stats, {}, set())
    ctx.reset()
    part.interpret(body["case"], ctx)
    return body, list(ctx._failures)


def replay(pid, path):
    mod = _load(pid)
    parts = {}
    for tier in ("thorough", "quick"):
        for p in mod.parts(tier):
            parts.setdefault(p.name, p)
    known, fixed = load_findings(pid)
    body, fails = _run_case_file(pid, mod, parts, path, known)
    if not fails:
        print("replay %s: no oracle failure (property holds on this case)" % path)
        return 0
    rc = 0
    for key, msg in fails:
        ks = key_str(key)
        if ks in known:
            print("KNOWN-FINDING: property=%s %s -- %s" % (pid, ks, known[ks].get("what", "")))
        else:
            rc = 1
            print("failure %s: %s" % (ks, msg))
    if rc:
        print("VIOLATION property=%s replay=%s" % (pid, path))
    return rc


def run(pid, tier):
    t0 = time.time()
    seed = _seed()
    mod = _load(pid)
    parts = mod.parts(tier)
    if tier == "thorough":
        # the per-check thorough budgets were sized on a heavily loaded machine; on an idle 16-core
        # box they take 0.5-3 minutes, so Hypothesis parts are scaled up (case counts, not time)
        scale = float(os.environ.get("VERIF_THOROUGH_SCALE", getattr(mod, "THOROUGH_SCALE", 3.0)))
        for p in parts:
            if isinstance(p, harness.HypPart) and scale != 1.0:
                p.examples = max(1, int(p.examples * scale))
    known, fixed = load_findings(pid)
    total = Stats()
    violations = []
    errors = []
    per_part = {}

    # --- replay tier: saved regressions first (plain interpret, no hypothesis)
    all_parts = {}
    for t in (tier, "thorough", "quick"):
        for p in (parts if t == tier else mod.parts(t)):
            all_parts.setdefault(p.name, p)
    reg_dir = os.path.join(HOME, "regressions", pid)
    n_reg = 0
    seen_viol = set()
    if os.path.isdir(reg_dir):
        for fn in sorted(os.listdir(reg_dir)):
            if not fn.endswith(".json"):
                continue
            path = os.path.join(reg_dir, fn)
            body, fails = _run_case_file(pid, mod, all_parts, path, known)
            n_reg += 1
            for key, msg in fails:
                ks = key_str(key)
                if ks in known:
                    total.known_hits[ks] += 1
                elif ks not in seen_viol:
                    seen_viol.add(ks)
                    violations.append({"key": key, "msg": msg, "part": body["part"], "case": body["case"],
                                       "from_regression": os.path.relpath(path, HOME)})

    # --- generated tiers
    harness._WORK["mod"] = mod
    harness._WORK["parts"] = parts
    tasks = []
    for i, p in enumerate(parts):
        for s in range(p.shards()):
            tasks.append((pid, tier, seed, i, s))
    nproc = int(os.environ.get("VERIF_JOBS", "0") or 0)
    if not nproc:
        nproc = 16 if tier == "thorough" else 8
    nproc = max(1, min(nproc, len(tasks)))
    serial = getattr(mod, "SERIAL", False) or nproc == 1
    if serial:
        results = [harness._worker(t) for t in tasks]
    else:
        ctxmp = multiprocessing.get_context("fork")
        with ctxmp.Pool(nproc, maxtasksperchild=getattr(mod, "MAXTASKS", None)) as pool:
            results = pool.map(harness._worker, tasks, chunksize=1)
    for r in results:
        pname = parts[r["part"]].name
        if not r["ok"]:
            errors.append("part %s shard %s: %s\n%s" % (pname, r["shard"], r["error"], r.get("tb", "")))
            continue
        total.merge(r["stats"])
        pp = per_part.setdefault(pname, {"evaluations": 0, "shards": 0, "kind": parts[r["part"]].kind,
                                         "exhaustive": parts[r["part"]].exhaustive})
        pp["evaluations"] += r["stats"].evaluations
        pp["shards"] += 1
        for v in r["violations"]:
            ks = key_str(v["key"])
            if ks in seen_viol:
                continue
            seen_viol.add(ks)
            violations.append(v)

    # --- class floors (generator must not be degenerate)
    floor_msgs = []
    for p in parts:
        for cls, frac in getattr(p, "floors", {}).items():
            ev = per_part.get(p.name, {}).get("evaluations", 0)
            # class counts are global; floors are keyed by class name, so use global counts
            if ev and total.classes.get(cls, 0) < frac * ev:
                floor_msgs.append("class %r below floor %.4f in part %s (%d of %d)" % (
                    cls, frac, p.name, total.classes.get(cls, 0), ev))
    if floor_msgs and not violations:
        errors.extend("generator degenerate: " + m for m in floor_msgs)

    wall = time.time() - t0
    # --- evidence
    exhaustive_parts = [n for n, pp in per_part.items() if pp["exhaustive"]]
    samples = list(total.samples)
    if not samples and total.evaluations:
        samples = [{"note": "no non-trivial case sampled"}]
    coverage = {
        "evaluations": total.evaluations,
        "distinct_nontrivial": len(total.nt),
        "rule": getattr(mod, "RULE", ""),
        "samples": samples,
        "classes": dict(total.classes.most_common(60)),
        "parts": per_part,
        "regressions_replayed": n_reg,
        "known_finding_hits": dict(total.known_hits),
        "excluded_after_first_report": dict(total.excluded_hits),
        "inconclusive": total.inconclusive,
        "exhaustive": bool(exhaustive_parts) and len(exhaustive_parts) == len(per_part),
        "exhaustive_parts": exhaustive_parts,
    }
    coverage.update(total.extra)
    ev = {
        "property_id": pid,
        "tier": tier,
        "seed": seed,
        "level": getattr(mod, "LEVEL", "exploration"),
        "coverage": coverage,
        "assumptions": list(getattr(mod, "ASSUMPTIONS", [])),
        "wall_s": round(wall, 2),
        "violations": len(violations),
        "tree": harness.REPO,
        "harness_errors": errors[:5],
    }
    if os.environ.get("VERIF_REPO", "/repo") == "/repo" or os.environ.get("VERIF_WRITE_EVIDENCE"):
        os.makedirs(os.path.join(HOME, "evidence"), exist_ok=True)
        tmp = os.path.join(HOME, "evidence", pid + ".json.tmp")
        with open(tmp, "w") as f:
            json.dump(ev, f, indent=1, sort_keys=True, default=harness._json_default)
        os.replace(tmp, os.path.join(HOME, "evidence", pid + ".json"))

    # --- report
    for ks, rec in sorted(known.items()):
        print("KNOWN-FINDING: property=%s %s -- %s (hit %d times this run)" % (
            pid, ks, rec.get("what", ""), total.known_hits.get(ks, 0)))
    for v in violations:
        path = _write_replay(pid, v)
        print("failure %s: %s" % (key_str(v["key"]), v["msg"]))
        print("VIOLATION property=%s replay=%s" % (pid, path))
    print("%s %s seed=%d: %d evaluations, %d distinct non-trivial, %d violation(s), %d known-finding hit(s), %.1fs" % (
        pid, tier, seed, total.evaluations, len(total.nt), len(violations),
        sum(total.known_hits.values()), wall))
    if violations:
        return 1
    if errors:
        for e in errors[:5]:
            sys.stderr.write("HARNESS ERROR: %s\n" % e)
        return 2
    if total.evaluations < 1 or len(total.nt) < 2:
        sys.stderr.write("HARNESS ERROR: too few non-trivial cases (%d evaluations, %d non-trivial)\n" % (
            total.evaluations, len(total.nt)))
        return 2
    return 0


def main(argv):
    if len(argv) < 2:
        sys.stderr.write(__doc__ + "\n")
        return 2
    pid = argv[0].upper()
    try:
        if argv[1] == "--replay":
            return replay(pid, argv[2])
        tier = argv[1]
        if tier not in ("quick", "thorough"):
            sys.stderr.write("tier must be quick or thorough\n")
            return 2
        os.environ["VERIF_TIER"] = tier
        return run(pid, tier)
    except HarnessError as e:
        sys.stderr.write("HARNESS ERROR: %s\n" % e)
        return 2
    except BaseException:  # noqa
        traceback.print_exc()
        return 2


if __name__ == "__main__":
    sys.exit(main(sys.argv[1:]))
