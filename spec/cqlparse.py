"""Independent parser for the CQL *DML* statements (SELECT / INSERT / UPDATE / DELETE / BATCH).

Imports nothing from ``cassandra.*``.  Built on spec.cqllex + spec.cqlterm; written from Cassandra's Parser.g (rules
selectStatement, insertStatement/normalInsertStatement, updateStatement, deleteStatement, batchStatement, usingClause,
whereClause/relation, columnOperation, columnCondition, deleteOp).  A text that this parser rejects with ParseError is
rejected by Cassandra's grammar as well (every alternative of the DML rules is implemented except JSON inserts, GROUP BY,
multi-column relations and UDT field assignment, which raise Unsupported instead).

PUBLIC API
    parse_statement(text, placeholders=False) -> AST       exactly one statement (optional trailing ';')
         placeholders=True additionally accepts the python ``%(name)s`` markers cqlengine renders before the driver
         substitutes the values; they become {"k": "bind", "name": name, "ph": True} terms
    terms(ast) -> [(role, term)]         every value term of a statement in source order; role is a tuple such as
                                         ("where", i, "rhs") ("set", i, "value") ("set", i, "key") ("values", i) ("if", i, "rhs")
                                         ("delete", i, "key") ("limit",) ("ttl",) ("timestamp",); batches prefix ("stmt", j)
    placeholders(ast) -> [name]          names of the %(name)s markers in source order (with repetitions)
    ParseError, Unsupported              re-exported from spec.cqlterm (both ValueError)

AST (plain JSON-able dicts; identifiers as Cassandra reads them: unquoted lower-cased, quoted verbatim)
    {"stmt":"select","json":bool,"distinct":bool,"selectors":"*" | [SEL..],"ks":str|None,"table":str,"where":[REL..],
     "order":[[col,"ASC"|"DESC"]..],"per_partition_limit":T|None,"limit":T|None,"allow_filtering":bool}
        SEL = {"sel":"col","name":n} | {"sel":"count"} (COUNT(*) / COUNT(1)) | {"sel":"call","name":f,"args":[SEL..]}   (+ "alias")
    {"stmt":"insert","ks","table","columns":[n..],"values":[T..],"if_not_exists":bool,"ttl":T|None,"timestamp":T|None}
    {"stmt":"update","ks","table","ttl","timestamp","set":[ASSIGN..],"where":[REL..],"if":[COND..],"if_exists":bool}
        ASSIGN = {"col":n,"op":"set","value":T}              c = T
               | {"col":n,"op":"add","value":T}              c = c + T      (also c += T)
               | {"col":n,"op":"sub","value":T}              c = c - T      (also c -= T, and c = c -1 lexed as an INTEGER)
               | {"col":n,"op":"prepend","value":T}          c = T + c
               | {"col":n,"op":"setelem","key":T,"value":T}  c[T] = T
    {"stmt":"delete","targets":[{"col":n} | {"col":n,"key":T}..],"ks","table","timestamp","where","if","if_exists"}
    {"stmt":"batch","type":"LOGGED"|"UNLOGGED"|"COUNTER","ttl","timestamp","statements":[AST..]}
    REL  = {"lhs":{"col":n} | {"token":[n..]}, "op":"="|"!="|"<"|"<="|">"|">="|"IN"|"CONTAINS"|"CONTAINS KEY"|"LIKE"|"IS NOT NULL",
            "rhs": T | [T..] (IN with a value list) | None (IS NOT NULL)}
    COND = {"col":n,"key":T (optional: c[T]),"op":...,"rhs": T | [T..]}
    T    = term AST of spec.cqlterm
"""
from __future__ import annotations

from spec import cqllex
from spec import cqlterm
from spec.cqlterm import ParseError, Unsupported  # noqa: F401 (re-exported)

_REL_OPS = ("=", "!=", "<", "<=", ">", ">=")


class _Parser(cqlterm.Parser):
    def __init__(self, src, placeholders=False):
        cqlterm.Parser.__init__(self, src)
        self.placeholders = placeholders

    # ---- %(name)s markers
    def _at_placeholder(self):
        if not self.placeholders or not self.is_punct("%") or not self.is_punct("(", 1) or not self.is_punct(")", 3):
            return False
        name, s = self.peek(2), self.peek(4)
        if name is None or s is None or name.kind not in ("INTEGER", "IDENT", "KEYWORD") or s.text != "s":
            return False
        toks = [self.peek(i) for i in range(5)]
        return all(a.end == b.start for a, b in zip(toks, toks[1:]))

    def _simple(self):
        if self._at_placeholder():
            name = self.peek(2).text
            self.pos += 5
            return {"k": "bind", "name": name, "ph": True}
        return cqlterm.Parser._simple(self)

    def _starts_term(self, k):
        t = self.peek(k)
        if self.placeholders and t is not None and t.kind == "PUNCT" and t.value == "%":
            return True
        return cqlterm.Parser._starts_term(self, k)

    # ---- shared pieces
    def table(self):
        name = self.ident()
        if self.accept("."):
            return name, self.ident()
        return None, name

    def int_value(self):
        """intValue: INTEGER | bind marker"""
        t = self.peek()
        if t is not None and t.kind == "INTEGER":
            self.pos += 1
            return {"k": "integer", "text": t.text}
        if self._at_placeholder() or (t is not None and (t.kind == "QMARK" or (t.kind == "PUNCT" and t.value == ":"))):
            return self._simple()
        self._err("expected an integer or a bind marker")

    def using(self, allow_ttl=True):
        out = {"ttl": None, "timestamp": None}
        if not self.accept_kw("USING"):
            return out
        while True:
            if self.accept_kw("TIMESTAMP"):
                out["timestamp"] = self.int_value()
            elif allow_ttl and self.accept_kw("TTL"):
                out["ttl"] = self.int_value()
            else:
                self._err("expected TIMESTAMP%s" % (" or TTL" if allow_ttl else ""))
            if not self.accept_kw("AND"):
                return out

    def _op(self):
        t = self.peek()
        if t is not None and t.kind == "PUNCT" and t.value in _REL_OPS:
            self.pos += 1
            return t.value
        self._err("expected a relation operator")

    def _in_values(self):
        """'(' [term (',' term)*] ')'  |  marker"""
        if self.accept("("):
            items = []
            if not self.accept(")"):
                items.append(self.term())
                while self.accept(","):
                    items.append(self.term())
                self.expect(")")
            return items
        t = self.peek()
        if self._at_placeholder() or (t is not None and (t.kind == "QMARK" or (t.kind == "PUNCT" and t.value == ":"))):
            return self._simple()
        self._err("expected a value list or a bind marker after IN")

    def relation(self):
        if self.is_kw("TOKEN") and self.is_punct("(", 1):
            self.pos += 2
            cols = [self.ident()]
            while self.accept(","):
                cols.append(self.ident())
            self.expect(")")
            return {"lhs": {"token": cols}, "op": self._op(), "rhs": self.term()}
        if self.is_punct("("):
            raise Unsupported("multi-column relation")
        col = self.ident()
        lhs = {"col": col}
        if self.accept_kw("IN"):
            return {"lhs": lhs, "op": "IN", "rhs": self._in_values()}
        if self.accept_kw("CONTAINS"):
            op = "CONTAINS KEY" if self.accept_kw("KEY") else "CONTAINS"
            return {"lhs": lhs, "op": op, "rhs": self.term()}
        if self.accept_kw("LIKE"):
            return {"lhs": lhs, "op": "LIKE", "rhs": self.term()}
        if self.accept_kw("IS"):
            self.expect_kw("NOT")
            self.expect_kw("NULL")
            return {"lhs": lhs, "op": "IS NOT NULL", "rhs": None}
        if self.is_punct("["):
            raise Unsupported("relation on a collection element")
        return {"lhs": lhs, "op": self._op(), "rhs": self.term()}

    def where(self):
        rels = [self.relation()]
        while self.accept_kw("AND"):
            rels.append(self.relation())
        return rels

    def condition(self):
        col = self.ident()
        c = {"col": col}
        if self.accept("["):
            c["key"] = self.term()
            self.expect("]")
        elif self.is_punct("."):
            raise Unsupported("condition on a UDT field")
        if self.accept_kw("IN"):
            c["op"], c["rhs"] = "IN", self._in_values()
        else:
            c["op"], c["rhs"] = self._op(), self.term()
        return c

    def if_clause(self, allow_not_exists=False):
        """-> (conditions, if_exists, if_not_exists)"""
        if not self.accept_kw("IF"):
            return [], False, False
        if self.accept_kw("EXISTS"):
            return [], True, False
        if allow_not_exists and self.is_kw("NOT"):
            self.pos += 1
            self.expect_kw("EXISTS")
            return [], False, True
        conds = [self.condition()]
        while self.accept_kw("AND"):
            conds.append(self.condition())
        return conds, False, False

    # ---- statements
    def selector(self):
        t = self.peek()
        if t is not None and t.kind == "KEYWORD" and t.value == "COUNT" and self.is_punct("(", 1):
            if self.is_punct("*", 2) or (self.peek(2) is not None and self.peek(2).kind == "INTEGER" and self.is_punct(")", 3)):
                if self.peek(2).kind == "INTEGER" and self.peek(2).text != "1":
                    self._err("only COUNT(1) is accepted")
                self.pos += 3
                self.expect(")")
                return self._alias({"sel": "count"})
        if self._is_function_name(0) and self.is_punct("(", 1) and not (t.kind == "KEYWORD" and t.value in cqllex.RESERVED and t.value != "TOKEN"):
            name = t.value if t.kind == "QUOTED_NAME" else t.text.lower()
            self.pos += 2
            args = []
            if not self.accept(")"):
                args.append(self.selector())
                while self.accept(","):
                    args.append(self.selector())
                self.expect(")")
            return self._alias({"sel": "call", "name": name, "args": args})
        return self._alias({"sel": "col", "name": self.ident()})

    def _alias(self, sel):
        if self.accept_kw("AS"):
            sel["alias"] = self.ident()
        return sel

    def select(self):
        self.expect_kw("SELECT")
        st = {"stmt": "select", "json": False, "distinct": False}
        # JSON and DISTINCT are unreserved keywords: they are modifiers only when a selector follows
        if self.is_kw("JSON") and not (self.is_kw("FROM", 1) or self.is_punct(",", 1)):
            self.pos += 1
            st["json"] = True
        if self.is_kw("DISTINCT") and not (self.is_kw("FROM", 1) or self.is_punct(",", 1)):
            self.pos += 1
            st["distinct"] = True
        if self.accept("*"):
            st["selectors"] = "*"
        else:
            sels = [self.selector()]
            while self.accept(","):
                sels.append(self.selector())
            st["selectors"] = sels
        self.expect_kw("FROM")
        st["ks"], st["table"] = self.table()
        st["where"] = self.where() if self.accept_kw("WHERE") else []
        if self.is_kw("GROUP"):
            raise Unsupported("GROUP BY")
        st["order"] = []
        if self.accept_kw("ORDER"):
            self.expect_kw("BY")
            while True:
                col = self.ident()
                direction = "DESC" if self.accept_kw("DESC") else ("ASC" if (self.accept_kw("ASC") or True) else None)
                st["order"].append([col, direction])
                if not self.accept(","):
                    break
        st["per_partition_limit"] = None
        if self.is_kw("PER"):
            self.pos += 1
            self.expect_kw("PARTITION")
            self.expect_kw("LIMIT")
            st["per_partition_limit"] = self.int_value()
        st["limit"] = self.int_value() if self.accept_kw("LIMIT") else None
        st["allow_filtering"] = False
        if self.accept_kw("ALLOW"):
            self.expect_kw("FILTERING")
            st["allow_filtering"] = True
        return st

    def insert(self):
        self.expect_kw("INSERT")
        self.expect_kw("INTO")
        st = {"stmt": "insert"}
        st["ks"], st["table"] = self.table()
        if self.is_kw("JSON"):
            raise Unsupported("INSERT JSON")
        self.expect("(")
        cols = [self.ident()]
        while self.accept(","):
            cols.append(self.ident())
        self.expect(")")
        self.expect_kw("VALUES")
        self.expect("(")
        vals = [self.term()]
        while self.accept(","):
            vals.append(self.term())
        self.expect(")")
        st["columns"], st["values"] = cols, vals
        _c, _e, st["if_not_exists"] = self.if_clause(allow_not_exists=True)
        if _c or _e:
            self._err("INSERT only takes IF NOT EXISTS")
        st.update(self.using())
        return st

    def assignment(self):
        col = self.ident()
        if self.accept("["):
            key = self.term()
            self.expect("]")
            self.expect("=")
            return {"col": col, "op": "setelem", "key": key, "value": self.term()}
        if self.is_punct("."):
            raise Unsupported("UDT field assignment")
        if self.accept("+="):
            return {"col": col, "op": "add", "value": self.term()}
        if self.accept("-="):
            return {"col": col, "op": "sub", "value": self.term()}
        self.expect("=")
        # normalColumnOperation:  term ('+' cident)?  |  cident ('+'|'-') term  |  cident INTEGER
        if self.is_ident(0) and not self.is_punct("(", 1) and not (self.is_punct(".", 1) and self.is_punct("(", 3)):
            save = self.pos
            other = self.ident()
            if self.is_punct("+") or self.is_punct("-"):
                sign = self.peek().value
                self.pos += 1
                if other != col:
                    raise ParseError("only expressions of the form X = X %s <value> are supported (got %s = %s ...)" % (sign, col, other))
                return {"col": col, "op": "add" if sign == "+" else "sub", "value": self.term()}
            t = self.peek()
            if t is not None and t.kind == "INTEGER" and t.text.startswith("-"):
                self.pos += 1
                if other != col:
                    raise ParseError("only expressions of the form X = X - <value> are supported")
                return {"col": col, "op": "sub", "value": {"k": "integer", "text": t.text[1:]}}
            self.pos = save
        value = self.term()
        if self.accept("+"):
            other = self.ident()
            if other != col:
                raise ParseError("only expressions of the form X = <value> + X are supported (got %s = ... + %s)" % (col, other))
            return {"col": col, "op": "prepend", "value": value}
        return {"col": col, "op": "set", "value": value}

    def update(self):
        self.expect_kw("UPDATE")
        st = {"stmt": "update"}
        st["ks"], st["table"] = self.table()
        st.update(self.using())
        self.expect_kw("SET")
        st["set"] = [self.assignment()]
        while self.accept(","):
            st["set"].append(self.assignment())
        self.expect_kw("WHERE")
        st["where"] = self.where()
        st["if"], st["if_exists"], _n = self.if_clause()
        return st

    def delete(self):
        self.expect_kw("DELETE")
        st = {"stmt": "delete", "targets": []}
        if not self.is_kw("FROM"):
            while True:
                tgt = {"col": self.ident()}
                if self.accept("["):
                    tgt["key"] = self.term()
                    self.expect("]")
                elif self.is_punct("."):
                    raise Unsupported("UDT field deletion")
                st["targets"].append(tgt)
                if not self.accept(","):
                    break
        self.expect_kw("FROM")
        st["ks"], st["table"] = self.table()
        u = self.using(allow_ttl=False)
        st["timestamp"] = u["timestamp"]
        self.expect_kw("WHERE")
        st["where"] = self.where()
        st["if"], st["if_exists"], _n = self.if_clause()
        return st

    def batch(self):
        self.expect_kw("BEGIN")
        kind = "LOGGED"
        if self.accept_kw("UNLOGGED"):
            kind = "UNLOGGED"
        elif self.accept_kw("COUNTER"):
            kind = "COUNTER"
        self.expect_kw("BATCH")
        st = {"stmt": "batch", "type": kind}
        st.update(self.using())
        st["statements"] = []
        while not self.is_kw("APPLY"):
            if self.at_end():
                self._err("expected APPLY BATCH")
            st["statements"].append(self.dml(in_batch=True))
            self.accept(";")
        self.expect_kw("APPLY")
        self.expect_kw("BATCH")
        return st

    def dml(self, in_batch=False):
        if self.is_kw("INSERT"):
            return self.insert()
        if self.is_kw("UPDATE"):
            return self.update()
        if self.is_kw("DELETE"):
            return self.delete()
        if not in_batch and self.is_kw("SELECT"):
            return self.select()
        if not in_batch and self.is_kw("BEGIN"):
            return self.batch()
        self._err("expected %s" % ("INSERT, UPDATE or DELETE" if in_batch else "a DML statement"))


def parse_statement(text, placeholders=False):
    p = _Parser(text, placeholders=placeholders)
    st = p.dml()
    p.accept(";")
    if not p.at_end():
        p._err("unexpected input after the statement")
    return st


# ---------------------------------------------------------------------------------------------------------
# walkers
# ---------------------------------------------------------------------------------------------------------
def terms(ast, prefix=()):
    out = []
    k = ast["stmt"]
    if k == "batch":
        for name in ("ttl", "timestamp"):
            if ast.get(name) is not None:
                out.append((prefix + (name,), ast[name]))
        for j, sub in enumerate(ast["statements"]):
            out.extend(terms(sub, prefix + ("stmt", j)))
        return out

    def rels(role, items):
        for i, r in enumerate(items):
            if "key" in r:
                out.append((prefix + (role, i, "key"), r["key"]))
            rhs = r["rhs"]
            if isinstance(rhs, list):
                for j, t in enumerate(rhs):
                    out.append((prefix + (role, i, "rhs", j), t))
            elif rhs is not None:
                out.append((prefix + (role, i, "rhs"), rhs))

    def using():
        for name in ("ttl", "timestamp"):
            if ast.get(name) is not None:
                out.append((prefix + (name,), ast[name]))

    if k == "select":
        rels("where", ast["where"])
        for name in ("per_partition_limit", "limit"):
            if ast.get(name) is not None:
                out.append((prefix + (name,), ast[name]))
    elif k == "insert":
        for i, t in enumerate(ast["values"]):
            out.append((prefix + ("values", i), t))
        using()
    elif k == "update":
        using()
        for i, a in enumerate(ast["set"]):
            if "key" in a:
                out.append((prefix + ("set", i, "key"), a["key"]))
            out.append((prefix + ("set", i, "value"), a["value"]))
        rels("where", ast["where"])
        rels("if", ast["if"])
    elif k == "delete":
        for i, t in enumerate(ast["targets"]):
            if "key" in t:
                out.append((prefix + ("delete", i, "key"), t["key"]))
        using()
        rels("where", ast["where"])
        rels("if", ast["if"])
    return out


def _walk_term(t, out):
    k = t["k"]
    if k == "bind" and t.get("ph"):
        out.append(t["name"])
    elif k in ("list", "set", "tuple"):
        for x in t["items"]:
            _walk_term(x, out)
    elif k == "map":
        for a, b in t["items"]:
            _walk_term(a, out)
            _walk_term(b, out)
    elif k == "udt":
        for _n, v in t["fields"]:
            _walk_term(v, out)
    elif k == "call":
        for x in t["args"]:
            _walk_term(x, out)
    elif k in ("hint", "neg"):
        _walk_term(t["term"], out)


def placeholders(ast):
    out = []
    for _role, t in terms(ast):
        _walk_term(t, out)
    return out


# ---------------------------------------------------------------------------------------------------------
# self test
# ---------------------------------------------------------------------------------------------------------
_GOOD = [
    ('SELECT * FROM ks.t', False),
    ('SELECT "a", "b" FROM ks.t WHERE "k" = 1 AND "c" IN (1, 2) AND "d" > 3 ORDER BY "c" DESC LIMIT 10000 ALLOW FILTERING', False),
    ('SELECT DISTINCT "k" FROM ks.t', False),
    ('SELECT COUNT(*) FROM ks.t WHERE token("k", "j") >= token(1, 2) AND "s" CONTAINS 5 AND "t" LIKE \'a%\' AND "u" IS NOT NULL', False),
    ('SELECT DISTINCT COUNT("k") FROM ks.t', False),
    ('INSERT INTO ks.t ("k", "v") VALUES (%(0)s, %(1)s) IF NOT EXISTS USING TTL 5 AND TIMESTAMP 12', True),
    ('UPDATE ks.t USING TTL 5 SET "a" = %(0)s, "s" = "s" + %(1)s, "s" = "s" - %(2)s, "l" = %(3)s + "l", "m"[%(4)s] = %(5)s, "c" = "c" - 3 '
     'WHERE "k" = %(6)s IF "a" = %(7)s AND "b" != 3', True),
    ('UPDATE t SET c = c -1 WHERE k = 0 IF EXISTS', False),
    ('DELETE "a", "m"[%(0)s] FROM ks.t  USING TIMESTAMP 5  WHERE "k" = %(1)s IF EXISTS', True),
    ('DELETE FROM ks.t WHERE "k" = 1 AND "c" = 2', False),
    ('BEGIN  BATCH USING TIMESTAMP 1\n  INSERT INTO ks.t ("k") VALUES (1)\n  DELETE FROM ks.t WHERE "k" = 2\nAPPLY BATCH;', False),
    ('BEGIN UNLOGGED BATCH UPDATE ks.t SET a = 1 WHERE k = 1; APPLY BATCH', False),
]
_BAD = ['SELECT FROM t', 'SELECT * FROM t WHERE', 'INSERT INTO t (a) VALUES ()', 'UPDATE t SET a = 1', 'UPDATE t SET WHERE k = 1',
        'UPDATE t SET a = 1 WHERE k = 1 IF a = 1 IF EXISTS', 'DELETE FROM t', 'DELETE a FROM t WHERE k = bytearray(b\'x\')',
        'SELECT * FROM t WHERE k IN (00:00:01.000000000)', 'BEGIN BATCH SELECT * FROM t APPLY BATCH', 'SELECT * FROM t WHERE k = 1 LIMIT',
        'UPDATE t SET a = b + 1 WHERE k = 1', 'INSERT INTO t (a) VALUES (1) USING TTL 1 IF NOT EXISTS', 'SELECT * FROM t; SELECT * FROM t',
        'UPDATE t SET "a" = %(0)s WHERE k = 1']


def self_test():
    for text, ph in _GOOD:
        ast = parse_statement(text, placeholders=ph)
        assert ast["stmt"] in ("select", "insert", "update", "delete", "batch"), text
        if ph:
            names = placeholders(ast)
            assert names == [str(i) for i in range(len(names))], (text, names)
    for text in _BAD:
        try:
            parse_statement(text)
        except ValueError:
            continue
        raise AssertionError("%r should not parse" % (text,))
    a = parse_statement('UPDATE ks.t SET "l" = [1] + "l", "c" = "c" + 2 WHERE "k" = 1')
    assert [x["op"] for x in a["set"]] == ["prepend", "add"]
    return True
