"""Independent reference for the CQL native protocol (frame level), stdlib only.

Written from the protocol specification texts native_protocol_v1.spec ... native_protocol_v5.spec
(v6 is the beta that shares the v5 body layouts) and the DSE additions (DSE_V1 = 0x41, DSE_V2 = 0x42:
4-byte query flags, continuous paging options, REVISE_REQUEST, keyspace / result_metadata_id on DSE_V2).
It imports nothing from ``cassandra.*`` and shares no code with ``cassandra.protocol`` / ``cassandra.marshal``.

Two halves:

* the *server reading a client*:  ``parse_frame_header`` / ``split_frames`` / ``decode_request`` -- STRICT:
  anything the specification does not allow (trailing bytes, unknown flag bits, a flag without its field,
  wrong widths, unknown consistency codes, a feature on a version that cannot carry it) raises ``SpecError``
  whose ``.kind`` is a short structural identifier;
* the *server answering*:  ``encode_response`` (+ ``encode_response_body`` / ``encode_frame``) for every
  response message, every RESULT kind / metadata flag, every ERROR code, and ``encode_type`` /
  ``encode_value`` for column specs and a representative set of cell values.

Public API (stable; used by checks C03/C04 and by the simulated server)
------------------------------------------------------------------------
Version predicates (all derived from the specs, ``v`` is the 7-bit version number)::

    VERSIONS = (1, 2, 3, 4, 5, 6, 0x41, 0x42);  BETA_VERSIONS = (6,)
    header_size(v) -> 8 | 9                      v1/v2: 1-byte stream; v3+: 2-byte signed stream
    is_dse(v), is_beta(v)
    has_int_query_flags(v)      4-byte <flags> in QUERY/EXECUTE/BATCH        v5, v6, DSE_V1, DSE_V2
    has_keyspace_flag(v)        per-request keyspace (0x80) / PREPARE flags   v5, v6, DSE_V2
    has_prepare_flags(v)        PREPARE carries <flags>                       v5, v6, DSE_V2
    has_result_metadata_id(v)   EXECUTE / PREPARED carry result_metadata_id   v5, v6, DSE_V2
    has_reason_map(v)           *_FAILURE carry <reasonmap> not <numfailures> v5, v6, DSE_V1, DSE_V2
    has_continuous_paging(v)    DSE_V1, DSE_V2;   has_next_pages(v)  DSE_V2
    has_now_in_seconds(v)       v5, v6
    has_custom_payload(v), has_warnings(v), has_unset(v)                     v >= 4 (all DSE)
    has_frame_compression(v)    body compression flag usable                  not v5/v6 (segment level there)

Frames::

    parse_frame_header(data, offset=0) -> {"version","direction" ("request"|"response"),"flags","stream",
                                           "opcode","length","header_size"}
    split_frames(stream_bytes, strict=True) -> [(header_dict, body_bytes), ...]
    encode_frame(version, stream, opcode, body, flags=0, response=True) -> bytes

Requests (strict)::

    decode_request(frame_bytes, decompress=None, tolerate=()) -> dict   see its docstring for the shape
    UNSET                                                     marker for a "not set" [value] (length -2)

Responses::

    encode_response(desc, version, stream, trace_id=None, warnings=None, custom_payload=None,
                    compress=None, use_beta=None) -> bytes    see ``encode_response.__doc__`` for ``desc``
    encode_response_body(desc, version) -> (opcode, body_bytes)
    encode_type(tree) -> bytes                                [option] for a JSON-able type tree
    encode_value(tree, value, version) -> bytes | None        cell bytes (None = null) for a small type set
    encode_rows_result(columns, rows, version, **metadata) -> desc   convenience for a fake server
    ERROR_CODES                                               {name: code}

Type tree (shared shape with spec/values.py)::

    {"t":"int"} {"t":"list","of":T} {"t":"set","of":T} {"t":"map","k":T,"v":T} {"t":"tuple","of":[T..]}
    {"t":"udt","ks":str,"name":str,"fields":[[name,T]..]} {"t":"custom","cls":"org.apache..."}
"""
import ipaddress
import struct
import uuid as _uuid

__all__ = [
    "SpecError", "UNSET", "VERSIONS", "BETA_VERSIONS", "REQUEST_OPCODES", "RESPONSE_OPCODES", "ERROR_CODES",
    "header_size", "is_dse", "is_beta", "has_int_query_flags", "has_keyspace_flag", "has_prepare_flags",
    "has_result_metadata_id", "has_reason_map", "has_continuous_paging", "has_next_pages",
    "has_now_in_seconds", "has_custom_payload", "has_warnings", "has_unset", "has_frame_compression",
    "parse_frame_header", "split_frames", "encode_frame", "decode_request", "encode_response",
    "encode_response_body", "encode_type", "encode_value", "encode_rows_result", "type_to_cql", "quote_ident",
]


class SpecError(Exception):
    """The bytes are not what the specification allows.  ``kind`` is a short structural identifier
    (``"trailing-bytes"``, ``"unknown-flags"``, ``"truncated"``, ...), ``where`` names the field."""

    def __init__(self, kind, where="", detail=""):
        self.kind, self.where, self.detail = kind, where, detail
        Exception.__init__(self, "%s at %s%s" % (kind, where or "?", (": " + detail) if detail else ""))


class _Unset(object):
    __slots__ = ()

    def __repr__(self):
        return "UNSET"

    def __reduce__(self):
        return (_get_unset, ())


def _get_unset():
    return UNSET


UNSET = _Unset()

# ---------------------------------------------------------------------------------------------
# versions and what each can carry
# ---------------------------------------------------------------------------------------------

V1, V2, V3, V4, V5, V6, DSE_V1, DSE_V2 = 1, 2, 3, 4, 5, 6, 0x41, 0x42
VERSIONS = (V1, V2, V3, V4, V5, V6, DSE_V1, DSE_V2)
BETA_VERSIONS = (V6,)
_OSS_V5_FAMILY = (V5, V6)


def is_dse(v):
    return v in (DSE_V1, DSE_V2)


def is_beta(v):
    return v in BETA_VERSIONS


def header_size(v):
    return 8 if v in (V1, V2) else 9


def has_int_query_flags(v):
    return v in _OSS_V5_FAMILY or is_dse(v)


def has_keyspace_flag(v):
    return v in _OSS_V5_FAMILY or v == DSE_V2


def has_prepare_flags(v):
    return v in _OSS_V5_FAMILY or v == DSE_V2


def has_result_metadata_id(v):
    return v in _OSS_V5_FAMILY or v == DSE_V2


def has_reason_map(v):
    return v in _OSS_V5_FAMILY or is_dse(v)


def has_continuous_paging(v):
    return is_dse(v)


def has_next_pages(v):
    return v == DSE_V2


def has_now_in_seconds(v):
    return v in _OSS_V5_FAMILY


def _at_least_v4(v):
    return v in (V4, V5, V6) or is_dse(v)


def _at_least_v3(v):
    return v == V3 or _at_least_v4(v)


def _at_least_v2(v):
    return v == V2 or _at_least_v3(v)


has_custom_payload = _at_least_v4
has_warnings = _at_least_v4
has_unset = _at_least_v4


def has_frame_compression(v):
    """v5/v6 compress at the segment layer; the frame-header compression flag is not used there."""
    return v not in _OSS_V5_FAMILY


# header flags
F_COMPRESSION, F_TRACING, F_CUSTOM_PAYLOAD, F_WARNING, F_USE_BETA = 0x01, 0x02, 0x04, 0x08, 0x10

# opcodes
OP_ERROR, OP_STARTUP, OP_READY, OP_AUTHENTICATE, OP_CREDENTIALS, OP_OPTIONS, OP_SUPPORTED = 0, 1, 2, 3, 4, 5, 6
OP_QUERY, OP_RESULT, OP_PREPARE, OP_EXECUTE, OP_REGISTER, OP_EVENT, OP_BATCH = 7, 8, 9, 10, 11, 12, 13
OP_AUTH_CHALLENGE, OP_AUTH_RESPONSE, OP_AUTH_SUCCESS, OP_REVISE_REQUEST = 14, 15, 16, 0xFF

REQUEST_OPCODES = {
    OP_STARTUP: "STARTUP", OP_CREDENTIALS: "CREDENTIALS", OP_OPTIONS: "OPTIONS", OP_QUERY: "QUERY",
    OP_PREPARE: "PREPARE", OP_EXECUTE: "EXECUTE", OP_REGISTER: "REGISTER", OP_BATCH: "BATCH",
    OP_AUTH_RESPONSE: "AUTH_RESPONSE", OP_REVISE_REQUEST: "REVISE_REQUEST",
}
RESPONSE_OPCODES = {
    OP_ERROR: "ERROR", OP_READY: "READY", OP_AUTHENTICATE: "AUTHENTICATE", OP_SUPPORTED: "SUPPORTED",
    OP_RESULT: "RESULT", OP_EVENT: "EVENT", OP_AUTH_CHALLENGE: "AUTH_CHALLENGE", OP_AUTH_SUCCESS: "AUTH_SUCCESS",
}
_RESPONSE_BY_NAME = dict((n, o) for o, n in RESPONSE_OPCODES.items())

# consistency codes (spec section 3, [consistency])
CONSISTENCIES = {0x0000: "ANY", 0x0001: "ONE", 0x0002: "TWO", 0x0003: "THREE", 0x0004: "QUORUM", 0x0005: "ALL",
                 0x0006: "LOCAL_QUORUM", 0x0007: "EACH_QUORUM", 0x0008: "SERIAL", 0x0009: "LOCAL_SERIAL",
                 0x000A: "LOCAL_ONE"}
SERIAL_CONSISTENCIES = (0x0008, 0x0009)

# query flags
QF_VALUES, QF_SKIP_METADATA, QF_PAGE_SIZE, QF_PAGING_STATE, QF_SERIAL, QF_TIMESTAMP = 0x01, 0x02, 0x04, 0x08, 0x10, 0x20
QF_NAMES, QF_KEYSPACE, QF_NOW_IN_SECONDS = 0x40, 0x80, 0x100
QF_PAGE_SIZE_BYTES, QF_CONTINUOUS_PAGING = 0x40000000, 0x80000000
_QF_NAMES = [(QF_VALUES, "values"), (QF_SKIP_METADATA, "skip_metadata"), (QF_PAGE_SIZE, "page_size"),
             (QF_PAGING_STATE, "paging_state"), (QF_SERIAL, "serial_consistency"), (QF_TIMESTAMP, "timestamp"),
             (QF_NAMES, "names_for_values"), (QF_KEYSPACE, "keyspace"), (QF_NOW_IN_SECONDS, "now_in_seconds"),
             (QF_PAGE_SIZE_BYTES, "page_size_in_bytes"), (QF_CONTINUOUS_PAGING, "continuous_paging")]


def _query_flag_mask(v):
    m = QF_VALUES | QF_SKIP_METADATA | QF_PAGE_SIZE | QF_PAGING_STATE | QF_SERIAL
    if _at_least_v3(v):
        m |= QF_TIMESTAMP | QF_NAMES
    if has_keyspace_flag(v):
        m |= QF_KEYSPACE
    if has_now_in_seconds(v):
        m |= QF_NOW_IN_SECONDS
    if has_continuous_paging(v):
        m |= QF_PAGE_SIZE_BYTES | QF_CONTINUOUS_PAGING
    return m


def _batch_flag_mask(v):
    m = QF_SERIAL | QF_TIMESTAMP | QF_NAMES
    if has_keyspace_flag(v):
        m |= QF_KEYSPACE
    if has_now_in_seconds(v):
        m |= QF_NOW_IN_SECONDS
    return m


# ---------------------------------------------------------------------------------------------
# reading primitives (spec section 3 "Notations")
# ---------------------------------------------------------------------------------------------

class _Reader(object):
    def __init__(self, data, where="body"):
        self.d = bytes(data)
        self.p = 0
        self.where = where

    def take(self, n, what):
        if n < 0 or self.p + n > len(self.d):
            raise SpecError("truncated", what, "need %d bytes at offset %d of %d" % (n, self.p, len(self.d)))
        b = self.d[self.p:self.p + n]
        self.p += n
        return b

    def byte(self, what):
        return self.take(1, what)[0]

    def short(self, what):
        return struct.unpack(">H", self.take(2, what))[0]

    def int(self, what):
        return struct.unpack(">i", self.take(4, what))[0]

    def uint(self, what):
        return struct.unpack(">I", self.take(4, what))[0]

    def long(self, what):
        return struct.unpack(">q", self.take(8, what))[0]

    def string(self, what):
        n = self.short(what)
        return self._utf8(self.take(n, what), what)

    def long_string(self, what):
        n = self.int(what)
        if n < 0:
            raise SpecError("negative-length", what, "[long string] length %d" % n)
        return self._utf8(self.take(n, what), what)

    @staticmethod
    def _utf8(b, what):
        try:
            return b.decode("utf-8")
        except UnicodeDecodeError as e:
            raise SpecError("bad-utf8", what, str(e))

    def short_bytes(self, what):
        return self.take(self.short(what), what)

    def bytes_(self, what):
        """[bytes]: n < 0 is null"""
        n = self.int(what)
        if n < 0:
            if n != -1:
                raise SpecError("bad-bytes-length", what, "[bytes] length %d" % n)
            return None
        return self.take(n, what)

    def value(self, what, version):
        """[value]: -1 null, -2 not set (v4+ only), anything below is an error"""
        n = self.int(what)
        if n >= 0:
            return self.take(n, what)
        if n == -1:
            return None
        if n == -2:
            if not has_unset(version):
                raise SpecError("unset-before-v4", what, "length -2 ('not set') needs protocol v4")
            return UNSET
        raise SpecError("bad-value-length", what, "[value] length %d" % n)

    def string_list(self, what):
        return [self.string(what) for _ in range(self.short(what))]

    def string_map(self, what):
        out = {}
        for _ in range(self.short(what)):
            k = self.string(what)
            if k in out:
                raise SpecError("duplicate-key", what, repr(k))
            out[k] = self.string(what)
        return out

    def bytes_map(self, what):
        out = {}
        for _ in range(self.short(what)):
            k = self.string(what)
            if k in out:
                raise SpecError("duplicate-key", what, repr(k))
            out[k] = self.bytes_(what)
        return out

    def consistency(self, what):
        c = self.short(what)
        if c not in CONSISTENCIES:
            raise SpecError("bad-consistency", what, "0x%04x" % c)
        return c

    def end(self):
        if self.p != len(self.d):
            raise SpecError("trailing-bytes", self.where, "%d byte(s) after the last field: %s" % (
                len(self.d) - self.p, self.d[self.p:self.p + 16].hex()))


# ---------------------------------------------------------------------------------------------
# frames
# ---------------------------------------------------------------------------------------------

def parse_frame_header(data, offset=0):
    """Parse one frame header at ``offset``.  v1/v2: ``version flags stream(int8) opcode length(int32)``
    (8 bytes); v3+: ``version flags stream(int16) opcode length(int32)`` (9 bytes).  The top bit of the
    version byte is the direction (0 request, 1 response)."""
    data = bytes(data)
    if len(data) - offset < 1:
        raise SpecError("truncated", "header")
    vb = data[offset]
    version = vb & 0x7F
    if version not in VERSIONS:
        raise SpecError("bad-version", "header.version", "0x%02x" % vb)
    hs = header_size(version)
    if len(data) - offset < hs:
        raise SpecError("truncated", "header", "%d of %d header bytes" % (len(data) - offset, hs))
    if hs == 8:
        flags, stream, opcode, length = struct.unpack_from(">BbBi", data, offset + 1)
    else:
        flags, stream, opcode, length = struct.unpack_from(">BhBi", data, offset + 1)
    if length < 0:
        raise SpecError("negative-length", "header.length", str(length))
    return {"version": version, "direction": "response" if vb & 0x80 else "request", "flags": flags,
            "stream": stream, "opcode": opcode, "length": length, "header_size": hs}


def split_frames(stream_bytes, strict=True):
    """Cut a byte stream into ``(header, body)`` pairs.  ``strict``: an incomplete last frame is an error;
    otherwise the incomplete tail is ignored."""
    data = bytes(stream_bytes)
    out, pos = [], 0
    while pos < len(data):
        try:
            h = parse_frame_header(data, pos)
        except SpecError as e:
            if e.kind == "truncated" and not strict:
                break
            raise
        start = pos + h["header_size"]
        if start + h["length"] > len(data):
            if strict:
                raise SpecError("length-mismatch", "header.length", "header says %d body bytes, %d available" % (
                    h["length"], len(data) - start))
            break
        out.append((h, data[start:start + h["length"]]))
        pos = start + h["length"]
    return out


def encode_frame(version, stream, opcode, body, flags=0, response=True):
    vb = (version & 0x7F) | (0x80 if response else 0)
    if header_size(version) == 8:
        head = struct.pack(">BBbBi", vb, flags, stream, opcode, len(body))
    else:
        head = struct.pack(">BBhBi", vb, flags, stream, opcode, len(body))
    return head + bytes(body)


# ---------------------------------------------------------------------------------------------
# requests
# ---------------------------------------------------------------------------------------------

KNOWN_DEVIATIONS = ("v1-query-flags-byte",)


def decode_request(frame_bytes, decompress=None, tolerate=()):
    """Strictly decode ONE request frame (header + body, nothing else).

    ``tolerate``: names from ``KNOWN_DEVIATIONS`` that are accepted instead of raising (what was tolerated is
    listed in the result under ``"deviations"``), so that a simulated server can keep talking to a client with
    a known, harmless deviation:  ``"v1-query-flags-byte"`` -- a v1 QUERY body ``<query><consistency>``
    followed by one extra 0x00 byte (a v2-style empty flags byte; Cassandra's v1 decoder ignores it).

    Returns a dict with, for every opcode::

        version, stream, opcode (name), opcode_id, header_flags (int), length (body length on the wire),
        compressed, tracing, use_beta (bools), custom_payload (None | {str: bytes|None}), deviations [str]

    and per opcode::

        STARTUP         options {str: str}                       (must contain CQL_VERSION)
        OPTIONS         --
        CREDENTIALS     credentials {str: str}                   (v1 only)
        AUTH_RESPONSE   token bytes|None                         (v2+)
        REGISTER        events [str]
        QUERY           query str + <query parameters>
        EXECUTE         query_id bytes, result_metadata_id bytes|None + <query parameters>
        PREPARE         query str, flags int|None, keyspace str|None
        BATCH           batch_type int (0 LOGGED, 1 UNLOGGED, 2 COUNTER), queries [ {kind "query"|"prepared",
                        query str | query_id bytes, values [..], value_names None} ], consistency,
                        flags int|None (None on v2: no flags byte), serial_consistency, timestamp, keyspace,
                        now_in_seconds
        REVISE_REQUEST  revision_type int (1 cancel, 2 backpressure), target_stream int, next_pages int|None

        <query parameters>: consistency int, flags int|None (None: v1, which has no flags), flag_names [str],
                        values None|[bytes|None|UNSET], value_names None|[str], skip_metadata bool,
                        page_size int|None, page_size_in_bytes bool, paging_state bytes|None,
                        serial_consistency int|None, timestamp int|None, keyspace str|None,
                        now_in_seconds int|None,
                        continuous_paging None | {"max_pages","pages_per_second","next_pages" (None on DSE_V1)}

    ``decompress``: callable applied to the body when the compression flag is set (an error if missing).
    """
    data = bytes(frame_bytes)
    h = parse_frame_header(data)
    version = h["version"]
    if h["direction"] != "request":
        raise SpecError("bad-direction", "header.version", "response bit set in a request")
    body = data[h["header_size"]:]
    if len(body) != h["length"]:
        raise SpecError("length-mismatch", "header.length", "header says %d, body has %d bytes" % (h["length"], len(body)))
    opcode = h["opcode"]
    if opcode not in REQUEST_OPCODES:
        raise SpecError("bad-opcode", "header.opcode", "0x%02x is not a request opcode" % opcode)
    name = REQUEST_OPCODES[opcode]
    if (opcode == OP_CREDENTIALS and version != V1) or \
            (opcode in (OP_AUTH_RESPONSE, OP_BATCH) and version == V1) or \
            (opcode == OP_REVISE_REQUEST and not is_dse(version)):
        raise SpecError("opcode-not-in-version", "header.opcode", "%s in protocol 0x%02x" % (name, version))
    flags = h["flags"]
    known = F_COMPRESSION | F_TRACING | F_USE_BETA
    if has_custom_payload(version):
        known |= F_CUSTOM_PAYLOAD
    if flags & ~known:
        if flags & F_CUSTOM_PAYLOAD and not has_custom_payload(version):
            raise SpecError("custom-payload-before-v4", "header.flags", "0x%02x" % flags)
        raise SpecError("unknown-flags", "header.flags", "0x%02x" % (flags & ~known))
    compressed = bool(flags & F_COMPRESSION)
    if compressed:
        if not has_frame_compression(version):
            raise SpecError("frame-compression-in-v5", "header.flags", "v5+ compresses segments, not frames")
        if opcode == OP_STARTUP:
            raise SpecError("compressed-startup", "header.flags")
        if decompress is None:
            raise SpecError("no-decompressor", "header.flags")
        body = decompress(body)
    r = _Reader(body, name + " body")
    out = {"version": version, "stream": h["stream"], "opcode": name, "opcode_id": opcode,
           "header_flags": flags, "length": h["length"], "compressed": compressed,
           "tracing": bool(flags & F_TRACING), "use_beta": bool(flags & F_USE_BETA), "custom_payload": None}
    out["deviations"] = []
    if flags & F_CUSTOM_PAYLOAD:
        out["custom_payload"] = r.bytes_map("custom_payload")
    _REQUEST_DECODERS[opcode](r, version, out)
    if opcode == OP_QUERY and version == V1 and "v1-query-flags-byte" in tolerate and r.d[r.p:] == b"\x00":
        r.p += 1
        out["deviations"].append("v1-query-flags-byte")
    r.end()
    return out


def _req_startup(r, v, out):
    out["options"] = r.string_map("STARTUP.options")
    if "CQL_VERSION" not in out["options"]:
        raise SpecError("missing-cql-version", "STARTUP.options")


def _req_options(r, v, out):
    pass


def _req_credentials(r, v, out):
    out["credentials"] = r.string_map("CREDENTIALS.map")


def _req_auth_response(r, v, out):
    out["token"] = r.bytes_("AUTH_RESPONSE.token")


def _req_register(r, v, out):
    ev = r.string_list("REGISTER.events")
    for e in ev:
        if e not in ("TOPOLOGY_CHANGE", "STATUS_CHANGE", "SCHEMA_CHANGE"):
            raise SpecError("unknown-event-type", "REGISTER.events", repr(e))
    out["events"] = ev


def _read_values(r, v, what, named):
    n = r.short(what + ".n")
    names = [] if named else None
    vals = []
    for i in range(n):
        if named:
            names.append(r.string("%s.name[%d]" % (what, i)))
        vals.append(r.value("%s.value[%d]" % (what, i), v))
    return vals, names


def _query_parameters(r, v, out, what):
    """<consistency><flags>[<n>[name_1]<value_1>...][<result_page_size>][<paging_state>][<serial_consistency>]
    [<timestamp>][<keyspace>][<now_in_seconds>][<continuous_paging_options>]"""
    out["consistency"] = r.consistency(what + ".consistency")
    if has_int_query_flags(v):
        flags = r.uint(what + ".flags")
    else:
        flags = r.byte(what + ".flags")
    bad = flags & ~_query_flag_mask(v)
    if bad:
        names = [n for b, n in _QF_NAMES if bad & b]
        raise SpecError("unknown-flags", what + ".flags", "0x%x %s not defined for protocol 0x%02x" % (bad, names, v))
    out["flags"] = flags
    out["flag_names"] = [n for b, n in _QF_NAMES if flags & b]
    out["skip_metadata"] = bool(flags & QF_SKIP_METADATA)
    out["values"] = out["value_names"] = None
    if flags & QF_NAMES and not flags & QF_VALUES:
        raise SpecError("flag-mismatch", what + ".flags", "names-for-values without values")
    if flags & QF_VALUES:
        out["values"], out["value_names"] = _read_values(r, v, what + ".values", bool(flags & QF_NAMES))
    out["page_size"] = r.int(what + ".page_size") if flags & QF_PAGE_SIZE else None
    out["page_size_in_bytes"] = bool(flags & QF_PAGE_SIZE_BYTES)
    # (0x40000000 only qualifies <result_page_size>; without a page size it carries no field and is harmless)
    ps = None
    if flags & QF_PAGING_STATE:
        ps = r.bytes_(what + ".paging_state")
        if ps is None:
            raise SpecError("null-paging-state", what + ".paging_state")
    out["paging_state"] = ps
    sc = None
    if flags & QF_SERIAL:
        sc = r.consistency(what + ".serial_consistency")
        if sc not in SERIAL_CONSISTENCIES:
            raise SpecError("bad-serial-consistency", what + ".serial_consistency", "0x%04x" % sc)
    out["serial_consistency"] = sc
    out["timestamp"] = r.long(what + ".timestamp") if flags & QF_TIMESTAMP else None
    out["keyspace"] = r.string(what + ".keyspace") if flags & QF_KEYSPACE else None
    out["now_in_seconds"] = r.int(what + ".now_in_seconds") if flags & QF_NOW_IN_SECONDS else None
    cp = None
    if flags & QF_CONTINUOUS_PAGING:
        cp = {"max_pages": r.int(what + ".continuous.max_pages"),
              "pages_per_second": r.int(what + ".continuous.pages_per_second"),
              "next_pages": r.int(what + ".continuous.next_pages") if has_next_pages(v) else None}
    out["continuous_paging"] = cp


def _no_query_parameters(out):
    out.update({"flags": None, "flag_names": [], "skip_metadata": False, "values": None, "value_names": None,
                "page_size": None, "page_size_in_bytes": False, "paging_state": None, "serial_consistency": None,
                "timestamp": None, "keyspace": None, "now_in_seconds": None, "continuous_paging": None})


def _req_query(r, v, out):
    out["query"] = r.long_string("QUERY.query")
    if v == V1:
        # v1: <query><consistency>, nothing else
        _no_query_parameters(out)
        out["consistency"] = r.consistency("QUERY.consistency")
    else:
        _query_parameters(r, v, out, "QUERY")


def _req_execute(r, v, out):
    out["query_id"] = r.short_bytes("EXECUTE.id")
    out["result_metadata_id"] = r.short_bytes("EXECUTE.result_metadata_id") if has_result_metadata_id(v) else None
    if v == V1:
        # v1: <id><n><value_1>...<value_n><consistency>
        _no_query_parameters(out)
        out["values"], _ = _read_values(r, v, "EXECUTE.values", False)
        out["consistency"] = r.consistency("EXECUTE.consistency")
    else:
        _query_parameters(r, v, out, "EXECUTE")


def _req_prepare(r, v, out):
    out["query"] = r.long_string("PREPARE.query")
    out["flags"] = None
    out["keyspace"] = None
    if has_prepare_flags(v):
        f = r.uint("PREPARE.flags")
        if f & ~0x01:
            raise SpecError("unknown-flags", "PREPARE.flags", "0x%x" % (f & ~0x01))
        out["flags"] = f
        if f & 0x01:
            out["keyspace"] = r.string("PREPARE.keyspace")


def _req_batch(r, v, out):
    t = r.byte("BATCH.type")
    if t not in (0, 1, 2):
        raise SpecError("bad-batch-type", "BATCH.type", str(t))
    out["batch_type"] = t
    n = r.short("BATCH.n")
    # names-for-values in a batch is declared by the *trailing* flags, so values are read unnamed first;
    # the spec itself notes the flag is unusable there (CASSANDRA-10246) -- it is rejected below.
    queries = []
    for i in range(n):
        kind = r.byte("BATCH.query[%d].kind" % i)
        q = {}
        if kind == 0:
            q["kind"] = "query"
            q["query"] = r.long_string("BATCH.query[%d].string" % i)
        elif kind == 1:
            q["kind"] = "prepared"
            q["query_id"] = r.short_bytes("BATCH.query[%d].id" % i)
        else:
            raise SpecError("bad-batch-kind", "BATCH.query[%d].kind" % i, str(kind))
        q["values"], q["value_names"] = _read_values(r, v, "BATCH.query[%d].values" % i, False)
        queries.append(q)
    out["queries"] = queries
    out["consistency"] = r.consistency("BATCH.consistency")
    out.update({"flags": None, "serial_consistency": None, "timestamp": None, "keyspace": None,
                "now_in_seconds": None})
    if v == V2:
        return
    flags = r.uint("BATCH.flags") if has_int_query_flags(v) else r.byte("BATCH.flags")
    bad = flags & ~_batch_flag_mask(v)
    if bad:
        raise SpecError("unknown-flags", "BATCH.flags", "0x%x %s not defined for protocol 0x%02x" % (
            bad, [nm for b, nm in _QF_NAMES if bad & b], v))
    if flags & QF_NAMES:
        raise SpecError("batch-names-for-values", "BATCH.flags")
    out["flags"] = flags
    if flags & QF_SERIAL:
        sc = r.consistency("BATCH.serial_consistency")
        if sc not in SERIAL_CONSISTENCIES:
            raise SpecError("bad-serial-consistency", "BATCH.serial_consistency", "0x%04x" % sc)
        out["serial_consistency"] = sc
    if flags & QF_TIMESTAMP:
        out["timestamp"] = r.long("BATCH.timestamp")
    if flags & QF_KEYSPACE:
        out["keyspace"] = r.string("BATCH.keyspace")
    if flags & QF_NOW_IN_SECONDS:
        out["now_in_seconds"] = r.int("BATCH.now_in_seconds")


def _req_revise(r, v, out):
    t = r.int("REVISE_REQUEST.type")
    out["revision_type"] = t
    out["target_stream"] = r.int("REVISE_REQUEST.id")
    out["next_pages"] = None
    if t == 1:
        pass
    elif t == 2:
        if not has_next_pages(v):
            raise SpecError("backpressure-before-dse-v2", "REVISE_REQUEST.type")
        out["next_pages"] = r.int("REVISE_REQUEST.next_pages")
        if out["next_pages"] <= 0:
            raise SpecError("bad-next-pages", "REVISE_REQUEST.next_pages", str(out["next_pages"]))
    else:
        raise SpecError("bad-revision-type", "REVISE_REQUEST.type", str(t))


_REQUEST_DECODERS = {
    OP_STARTUP: _req_startup, OP_OPTIONS: _req_options, OP_CREDENTIALS: _req_credentials,
    OP_AUTH_RESPONSE: _req_auth_response, OP_REGISTER: _req_register, OP_QUERY: _req_query,
    OP_EXECUTE: _req_execute, OP_PREPARE: _req_prepare, OP_BATCH: _req_batch, OP_REVISE_REQUEST: _req_revise,
}


# ---------------------------------------------------------------------------------------------
# writing primitives
# ---------------------------------------------------------------------------------------------

def _w_short(n):
    return struct.pack(">H", n)


def _w_int(n):
    return struct.pack(">i", n)


def _w_long(n):
    return struct.pack(">q", n)


def _w_string(s):
    b = s.encode("utf-8")
    return _w_short(len(b)) + b


def _w_long_string(s):
    b = s.encode("utf-8")
    return _w_int(len(b)) + b


def _w_bytes(b):
    if b is None:
        return _w_int(-1)
    return _w_int(len(b)) + bytes(b)


def _w_short_bytes(b):
    return _w_short(len(b)) + bytes(b)


def _w_string_list(lst):
    return _w_short(len(lst)) + b"".join(_w_string(s) for s in lst)


def _pairs(m):
    return list(m.items()) if isinstance(m, dict) else [tuple(p) for p in m]


def _w_inetaddr(addr):
    packed = ipaddress.ip_address(addr).packed
    return bytes([len(packed)]) + packed


def _w_inet(addr, port):
    return _w_inetaddr(addr) + _w_int(port)


# ---------------------------------------------------------------------------------------------
# types and values
# ---------------------------------------------------------------------------------------------

_NATIVE_IDS = {
    "ascii": 0x01, "bigint": 0x02, "blob": 0x03, "boolean": 0x04, "counter": 0x05, "decimal": 0x06,
    "double": 0x07, "float": 0x08, "int": 0x09, "text": 0x0A, "timestamp": 0x0B, "uuid": 0x0C,
    "varchar": 0x0D, "varint": 0x0E, "timeuuid": 0x0F, "inet": 0x10, "date": 0x11, "time": 0x12,
    "smallint": 0x13, "tinyint": 0x14, "duration": 0x15,
}


def encode_type(tree):
    """[option] for a type tree: <id:short>[<value>].  custom 0x0000 <string>; list 0x20 <option>;
    map 0x21 <option><option>; set 0x22 <option>; udt 0x30 <ks><name><n:short>(<fname><option>)*;
    tuple 0x31 <n:short><option>*."""
    t = tree["t"]
    if t in _NATIVE_IDS:
        return _w_short(_NATIVE_IDS[t])
    if t == "custom":
        return _w_short(0x0000) + _w_string(tree["cls"])
    if t == "list":
        return _w_short(0x0020) + encode_type(tree["of"])
    if t == "set":
        return _w_short(0x0022) + encode_type(tree["of"])
    if t == "map":
        return _w_short(0x0021) + encode_type(tree["k"]) + encode_type(tree["v"])
    if t == "udt":
        return (_w_short(0x0030) + _w_string(tree["ks"]) + _w_string(tree["name"]) + _w_short(len(tree["fields"])) +
                b"".join(_w_string(n) + encode_type(ft) for n, ft in tree["fields"]))
    if t == "tuple":
        return _w_short(0x0031) + _w_short(len(tree["of"])) + b"".join(encode_type(x) for x in tree["of"])
    raise ValueError("unknown type tree %r" % (tree,))


_CQL_RESERVED = frozenset("""add allow alter and apply asc authorize batch begin by columnfamily create default delete desc
describe drop entries execute from full grant if in index infinity insert into is keyspace limit materialized mbean mbeans
modify nan norecursive not null of on or order primary rename replace revoke schema select set table to token truncate
unlogged unset update use using view where with""".split())


def quote_ident(name):
    """CQL identifier as it must be written in a statement: bare iff it is [a-z][a-z0-9_]* and not a reserved
    word, otherwise double-quoted with embedded quotes doubled."""
    ok = bool(name) and name[0] in "abcdefghijklmnopqrstuvwxyz" and \
        all(ch in "abcdefghijklmnopqrstuvwxyz0123456789_" for ch in name) and name not in _CQL_RESERVED
    return name if ok else '"%s"' % name.replace('"', '""')


def type_to_cql(tree):
    """CQL notation of a type tree as a server prints it in schema tables (tuples and UDTs inside
    results are always frozen): ``list<int>``, ``map<text, int>``, ``frozen<tuple<int, text>>``,
    ``frozen<udtname>`` (the name quoted when it is not a bare lower-case identifier)."""
    t = tree["t"]
    if t in _NATIVE_IDS:
        return t
    if t in ("list", "set"):
        return "%s<%s>" % (t, type_to_cql(tree["of"]))
    if t == "map":
        return "map<%s, %s>" % (type_to_cql(tree["k"]), type_to_cql(tree["v"]))
    if t == "tuple":
        return "frozen<tuple<%s>>" % ", ".join(type_to_cql(x) for x in tree["of"])
    if t == "udt":
        return "frozen<%s>" % quote_ident(tree["name"])
    raise ValueError("no CQL notation for %r" % (tree,))


def _collection_len(n, version, nested):
    # v1/v2: [short] sizes for a top-level collection; v3+ (and anything nested, which only exists
    # from Cassandra 2.1 = v3 on): [int]
    if version in (V1, V2) and not nested:
        return _w_short(n)
    return _w_int(n)


def _collection_item(b, version, nested):
    if version in (V1, V2) and not nested:
        return _w_short(len(b)) + b
    return _w_bytes(b)


def encode_value(tree, value, version, _nested=False):
    """Cell bytes for a value of a *representative* type set (the full reference is spec/values.py).
    ``None`` -> ``None`` (null cell).  Python-side value shapes: int/bigint/smallint/tinyint/counter: int;
    text/varchar/ascii: str; blob: bytes; boolean: bool; double/float: float; uuid/timeuuid: uuid.UUID or
    16 bytes; inet: str; timestamp: int milliseconds; list/set: list; map: list of [k, v] pairs;
    tuple: list (None = null field); udt: list of field values in field order."""
    if value is None:
        return None
    t = tree["t"]
    if t == "int":
        return struct.pack(">i", value)
    if t in ("bigint", "counter", "timestamp"):
        return struct.pack(">q", value)
    if t == "smallint":
        return struct.pack(">h", value)
    if t == "tinyint":
        return struct.pack(">b", value)
    if t in ("text", "varchar", "ascii"):
        return value.encode("utf-8")
    if t == "blob":
        return bytes(value)
    if t == "boolean":
        return b"\x01" if value else b"\x00"
    if t == "double":
        return struct.pack(">d", value)
    if t == "float":
        return struct.pack(">f", value)
    if t in ("uuid", "timeuuid"):
        return value.bytes if isinstance(value, _uuid.UUID) else bytes(value)
    if t == "inet":
        return ipaddress.ip_address(value).packed
    if t in ("list", "set"):
        out = [_collection_len(len(value), version, _nested)]
        for x in value:
            out.append(_collection_item(encode_value(tree["of"], x, version, True), version, _nested))
        return b"".join(out)
    if t == "map":
        out = [_collection_len(len(value), version, _nested)]
        for k, x in value:
            out.append(_collection_item(encode_value(tree["k"], k, version, True), version, _nested))
            out.append(_collection_item(encode_value(tree["v"], x, version, True), version, _nested))
        return b"".join(out)
    if t == "tuple":
        return b"".join(_w_bytes(encode_value(ft, x, version, True)) for ft, x in zip(tree["of"], value))
    if t == "udt":
        return b"".join(_w_bytes(encode_value(ft, x, version, True)) for (_n, ft), x in zip(tree["fields"], value))
    raise ValueError("encode_value: type %r is outside the representative set" % (t,))


# ---------------------------------------------------------------------------------------------
# responses
# ---------------------------------------------------------------------------------------------

ERROR_CODES = {
    "server_error": 0x0000, "protocol_error": 0x000A, "bad_credentials": 0x0100, "unavailable": 0x1000,
    "overloaded": 0x1001, "is_bootstrapping": 0x1002, "truncate_error": 0x1003, "write_timeout": 0x1100,
    "read_timeout": 0x1200, "read_failure": 0x1300, "function_failure": 0x1400, "write_failure": 0x1500,
    "cdc_write_failure": 0x1600, "cas_write_unknown": 0x1700, "syntax_error": 0x2000, "unauthorized": 0x2100,
    "invalid": 0x2200, "config_error": 0x2300, "already_exists": 0x2400, "unprepared": 0x2500,
    "client_write_failure": 0x8000,
}
_ERROR_NAMES = dict((c, n) for n, c in ERROR_CODES.items())

WRITE_TYPES = ("SIMPLE", "BATCH", "UNLOGGED_BATCH", "COUNTER", "BATCH_LOG", "CAS", "VIEW", "CDC")

# rows metadata flags
MF_GLOBAL_TABLES_SPEC, MF_HAS_MORE_PAGES, MF_NO_METADATA, MF_METADATA_CHANGED = 0x0001, 0x0002, 0x0004, 0x0008
MF_CONTINUOUS_PAGING, MF_LAST_CONTINUOUS_PAGE = 0x40000000, 0x80000000


def _failure_part(d, version):
    """<numfailures:int> before v5, <reasonmap> = <n:int>(<inetaddr><code:short>)* from v5 on"""
    if has_reason_map(version):
        reasons = d["reasons"]
        return _w_int(len(reasons)) + b"".join(_w_inetaddr(a) + _w_short(c) for a, c in reasons)
    return _w_int(d["failures"])


def _error_body(d, version):
    code = d["code"]
    out = [_w_int(code if code < 0x80000000 else code - (1 << 32)), _w_string(d["message"])]
    kind = _ERROR_NAMES.get(code)
    if kind == "unavailable":
        out += [_w_short(d["consistency"]), _w_int(d["required"]), _w_int(d["alive"])]
    elif kind == "write_timeout":
        out += [_w_short(d["consistency"]), _w_int(d["received"]), _w_int(d["blockfor"]), _w_string(d["write_type"])]
        if d.get("contentions") is not None:
            # v5: <contentions:short>, only present when write_type is CAS
            out.append(_w_short(d["contentions"]))
    elif kind == "read_timeout":
        out += [_w_short(d["consistency"]), _w_int(d["received"]), _w_int(d["blockfor"]),
                bytes([1 if d["data_present"] else 0])]
    elif kind == "read_failure":
        out += [_w_short(d["consistency"]), _w_int(d["received"]), _w_int(d["blockfor"]), _failure_part(d, version),
                bytes([1 if d["data_present"] else 0])]
    elif kind == "write_failure":
        out += [_w_short(d["consistency"]), _w_int(d["received"]), _w_int(d["blockfor"]), _failure_part(d, version),
                _w_string(d["write_type"])]
    elif kind == "function_failure":
        out += [_w_string(d["keyspace"]), _w_string(d["function"]), _w_string_list(d["arg_types"])]
    elif kind == "cas_write_unknown":
        out += [_w_short(d["consistency"]), _w_int(d["received"]), _w_int(d["blockfor"])]
    elif kind == "already_exists":
        out += [_w_string(d["keyspace"]), _w_string(d["table"])]
    elif kind == "unprepared":
        out.append(_w_short_bytes(d["id"]))
    return b"".join(out)


def _schema_change_body(d, version):
    """v1/v2: <change><keyspace><table> (table empty for a keyspace change).
    v3+: <change><target><options>; options = <keyspace> | <keyspace><name> | <keyspace><name><[string list] args>"""
    change, target = d["change"], d.get("target", "KEYSPACE")
    if not _at_least_v3(version):
        if target not in ("KEYSPACE", "TABLE"):
            raise ValueError("protocol v1/v2 schema changes only know keyspaces and tables")
        table = (d.get("name") or "") if target == "TABLE" else ""
        return _w_string(change) + _w_string(d["keyspace"]) + _w_string(table)
    out = _w_string(change) + _w_string(target) + _w_string(d["keyspace"])
    if target == "KEYSPACE":
        return out
    out += _w_string(d["name"])
    if target in ("FUNCTION", "AGGREGATE"):
        if not _at_least_v4(version):
            raise ValueError("FUNCTION/AGGREGATE schema changes need protocol v4")
        out += _w_string_list(d.get("args") or [])
    return out


def _col_specs(columns, global_spec):
    out = []
    if global_spec:
        out += [_w_string(columns[0]["ks"]), _w_string(columns[0]["table"])]
    for c in columns:
        if not global_spec:
            out += [_w_string(c["ks"]), _w_string(c["table"])]
        out += [_w_string(c["name"]), encode_type(c["type"])]
    return b"".join(out)


def _auto_global(md):
    g = md.get("global_spec")
    cols = md.get("columns") or []
    same = bool(cols) and all((c["ks"], c["table"]) == (cols[0]["ks"], cols[0]["table"]) for c in cols)
    if g is None:
        return same
    if g and not same:
        raise ValueError("global_spec needs at least one column and one common (ks, table)")
    return bool(g)


def _rows_metadata(md, version):
    """<flags:int><columns_count:int>[<paging_state:bytes>][<new_metadata_id:short bytes>]
    [<continuous_page_no:int>][<global_table_spec>?<col_spec_1>...<col_spec_n>]"""
    cols = md.get("columns") or []
    no_md = bool(md.get("no_metadata"))
    flags = 0
    g = False if no_md else _auto_global(md)
    if g:
        flags |= MF_GLOBAL_TABLES_SPEC
    if md.get("paging_state") is not None:
        flags |= MF_HAS_MORE_PAGES
    if no_md:
        flags |= MF_NO_METADATA
    if md.get("new_metadata_id") is not None:
        if not has_result_metadata_id(version):
            raise ValueError("metadata_changed needs v5 / DSE_V2")
        if no_md:
            raise ValueError("metadata_changed excludes no_metadata (spec: No_metadata has to be unset)")
        flags |= MF_METADATA_CHANGED
    if md.get("continuous_page") is not None:
        if not has_continuous_paging(version):
            raise ValueError("continuous paging is DSE only")
        flags |= MF_CONTINUOUS_PAGING
        if md.get("last_page"):
            flags |= MF_LAST_CONTINUOUS_PAGE
    count = md["column_count"] if md.get("column_count") is not None else len(cols)
    out = [struct.pack(">I", flags), _w_int(count)]
    if flags & MF_HAS_MORE_PAGES:
        out.append(_w_bytes(md["paging_state"]))
    if flags & MF_METADATA_CHANGED:
        out.append(_w_short_bytes(md["new_metadata_id"]))
    if flags & MF_CONTINUOUS_PAGING:
        out.append(_w_int(md["continuous_page"]))
    if not no_md:
        out.append(_col_specs(cols, g))
    return b"".join(out)


def _prepared_metadata(md, version):
    """<flags:int><columns_count:int>[v4+: <pk_count:int><pk_index:short>*][<global_table_spec>?<col_spec>*]"""
    cols = md.get("columns") or []
    g = _auto_global(md)
    out = [_w_int(MF_GLOBAL_TABLES_SPEC if g else 0), _w_int(len(cols))]
    if _at_least_v4(version):
        pk = md.get("pk_indexes") or []
        out.append(_w_int(len(pk)) + b"".join(_w_short(i) for i in pk))
    out.append(_col_specs(cols, g))
    return b"".join(out)


def _result_body(d, version):
    kind = d["kind"]
    if kind == "void":
        return _w_int(1)
    if kind == "rows":
        md = d["metadata"]
        rows = d.get("rows") or []
        out = [_w_int(2), _rows_metadata(md, version), _w_int(len(rows))]
        for row in rows:
            for cell in row:
                out.append(_w_bytes(cell))
        return b"".join(out)
    if kind == "set_keyspace":
        return _w_int(3) + _w_string(d["keyspace"])
    if kind == "prepared":
        out = [_w_int(4), _w_short_bytes(d["id"])]
        if has_result_metadata_id(version):
            out.append(_w_short_bytes(d["result_metadata_id"]))
        out.append(_prepared_metadata(d["bind"], version))
        if _at_least_v2(version):
            out.append(_rows_metadata(d.get("result") or {"columns": [], "no_metadata": True, "column_count": 0},
                                      version))
        return b"".join(out)
    if kind == "schema_change":
        return _w_int(5) + _schema_change_body(d, version)
    raise ValueError("unknown RESULT kind %r" % (kind,))


def _event_body(d, version):
    t = d["type"]
    if t in ("TOPOLOGY_CHANGE", "STATUS_CHANGE"):
        addr, port = d["address"]
        return _w_string(t) + _w_string(d["change"]) + _w_inet(addr, port)
    if t == "SCHEMA_CHANGE":
        return _w_string(t) + _schema_change_body(d, version)
    raise ValueError("unknown event type %r" % (t,))


def encode_response_body(desc, version):
    """-> (opcode, message body bytes) without the header extras (trace id / warnings / payload)."""
    op = desc["op"]
    if op == "READY":
        body = b""
    elif op == "AUTHENTICATE":
        body = _w_string(desc["authenticator"])
    elif op in ("AUTH_CHALLENGE", "AUTH_SUCCESS"):
        body = _w_bytes(desc.get("token"))
    elif op == "SUPPORTED":
        pairs = _pairs(desc["options"])
        body = _w_short(len(pairs)) + b"".join(_w_string(k) + _w_string_list(v) for k, v in pairs)
    elif op == "ERROR":
        body = _error_body(desc, version)
    elif op == "RESULT":
        body = _result_body(desc, version)
    elif op == "EVENT":
        body = _event_body(desc, version)
    else:
        raise ValueError("unknown response %r" % (op,))
    return _RESPONSE_BY_NAME[op], body


def encode_response(desc, version, stream, trace_id=None, warnings=None, custom_payload=None, compress=None,
                    use_beta=None):
    """One complete response frame.

    ``desc`` (bytes fields are ``bytes``; dicts may be given as lists of pairs to control order)::

        {"op":"READY"}
        {"op":"AUTHENTICATE","authenticator":str}
        {"op":"AUTH_CHALLENGE"|"AUTH_SUCCESS","token":bytes|None}
        {"op":"SUPPORTED","options":{str:[str]}}
        {"op":"EVENT","type":"TOPOLOGY_CHANGE"|"STATUS_CHANGE","change":str,"address":[ip_str, port]}
        {"op":"EVENT","type":"SCHEMA_CHANGE","change":"CREATED"|"UPDATED"|"DROPPED",
                      "target":"KEYSPACE"|"TABLE"|"TYPE"|"FUNCTION"|"AGGREGATE","keyspace":str,"name":str,"args":[str]}
        {"op":"ERROR","code":int,"message":str, + by code:
              0x1000 consistency, required, alive
              0x1100 consistency, received, blockfor, write_type [, contentions]
              0x1200 consistency, received, blockfor, data_present
              0x1300 consistency, received, blockfor, failures (v<=4) | reasons [[ip, code]] (v5+/DSE), data_present
              0x1500 consistency, received, blockfor, failures | reasons, write_type
              0x1400 keyspace, function, arg_types     0x1700 consistency, received, blockfor
              0x2400 keyspace, table                   0x2500 id (bytes)         every other code: nothing}
        {"op":"RESULT","kind":"void"}
        {"op":"RESULT","kind":"set_keyspace","keyspace":str}
        {"op":"RESULT","kind":"schema_change", change, target, keyspace, name, args}     (as the event)
        {"op":"RESULT","kind":"rows","metadata":M,"rows":[[bytes|None, ...], ...]}
        {"op":"RESULT","kind":"prepared","id":bytes,"result_metadata_id":bytes (v5/DSE_V2),
                      "bind":{"columns":[C..],"pk_indexes":[int] (v4+),"global_spec":bool|None},"result":M (v2+)}
        M = {"columns":[C..], "global_spec":bool|None (None: automatic), "paging_state":bytes|None,
             "no_metadata":bool, "column_count":int (only with no_metadata), "new_metadata_id":bytes|None,
             "continuous_page":int|None, "last_page":bool}
        C = {"ks":str,"table":str,"name":str,"type":type_tree}

    Body layout: ``[trace_id:uuid][warnings:string list][custom_payload:bytes map]<message>``; header flags
    0x02 / 0x08 / 0x04 accordingly; ``compress`` (callable) is applied to the whole body and sets 0x01.
    ``use_beta``: None = set flag 0x10 exactly for beta versions."""
    opcode, body = encode_response_body(desc, version)
    flags = 0
    pre = []
    if trace_id is not None:
        flags |= F_TRACING
        pre.append(trace_id.bytes if isinstance(trace_id, _uuid.UUID) else bytes(trace_id))
        if len(pre[-1]) != 16:
            raise ValueError("trace id must be 16 bytes")
    if warnings is not None:
        if not has_warnings(version):
            raise ValueError("warnings need protocol v4")
        flags |= F_WARNING
        pre.append(_w_string_list(warnings))
    if custom_payload is not None:
        if not has_custom_payload(version):
            raise ValueError("custom payloads need protocol v4")
        flags |= F_CUSTOM_PAYLOAD
        pairs = _pairs(custom_payload)
        pre.append(_w_short(len(pairs)) + b"".join(_w_string(k) + _w_bytes(v) for k, v in pairs))
    body = b"".join(pre) + body
    if compress is not None:
        if not has_frame_compression(version):
            raise ValueError("v5+ compresses at the segment layer")
        body = compress(body)
        flags |= F_COMPRESSION
    if use_beta if use_beta is not None else is_beta(version):
        flags |= F_USE_BETA
    return encode_frame(version, stream, opcode, body, flags, response=True)


def encode_rows_result(columns, rows, version, **metadata):
    """Convenience for a fake server: ``columns`` = [(ks, table, name, type_tree)], ``rows`` = lists of
    pre-encoded cells (bytes|None).  Extra keyword arguments go into the metadata dict (paging_state, ...)."""
    md = {"columns": [{"ks": k, "table": t, "name": n, "type": ty} for k, t, n, ty in columns]}
    md.update(metadata)
    return {"op": "RESULT", "kind": "rows", "metadata": md, "rows": [list(r) for r in rows]}
