"""Proleptic Gregorian calendar arithmetic, independent of ``datetime`` / ``calendar`` / ``time``.

Day number 0 is 1970-01-01.  Integer arithmetic only (the era-based algorithms described by
H. Hinnant, "chrono-compatible low-level date algorithms"), cross-checked below by a second, naive
year-by-year construction (`days_before_year_naive`) that shares no formula with the first.
"""

DAYS_IN_MONTH = (31, 28, 31, 30, 31, 30, 31, 31, 30, 31, 30, 31)
MIN_YEAR, MAX_YEAR = 1, 9999


def is_leap(y):
    return y % 4 == 0 and (y % 100 != 0 or y % 400 == 0)


def days_in_month(y, m):
    if m == 2 and is_leap(y):
        return 29
    return DAYS_IN_MONTH[m - 1]


def days_from_civil(y, m, d):
    """(year, month, day) -> days since 1970-01-01 (negative before)."""
    y -= m <= 2
    era = (y if y >= 0 else y - 399) // 400
    yoe = y - era * 400                                   # [0, 399]
    doy = (153 * (m + (-3 if m > 2 else 9)) + 2) // 5 + d - 1   # [0, 365]
    doe = yoe * 365 + yoe // 4 - yoe // 100 + doy         # [0, 146096]
    return era * 146097 + doe - 719468


def civil_from_days(z):
    """days since 1970-01-01 -> (year, month, day)."""
    z += 719468
    era = (z if z >= 0 else z - 146096) // 146097
    doe = z - era * 146097                                # [0, 146096]
    yoe = (doe - doe // 1460 + doe // 36524 - doe // 146096) // 365   # [0, 399]
    y = yoe + era * 400
    doy = doe - (365 * yoe + yoe // 4 - yoe // 100)       # [0, 365]
    mp = (5 * doy + 2) // 153                             # [0, 11]
    d = doy - (153 * mp + 2) // 5 + 1
    m = mp + (3 if mp < 10 else -9)
    return (y + (m <= 2), m, d)


def days_before_year_naive(y):
    """days from 0001-01-01 to y-01-01 by counting years one at a time (slow, obviously right)."""
    n = 0
    for k in range(1, y):
        n += 366 if is_leap(k) else 365
    return n


DAY_NUMBER_OF_0001_01_01 = -719162        # 1969 years: 1969*365 + 477 leap days = 719162 days before the epoch
MIN_DAY = DAY_NUMBER_OF_0001_01_01
MAX_DAY = 2932896                         # 9999-12-31


def iso(y, m, d):
    return "%04d-%02d-%02d" % (y, m, d)


def hms_from_seconds(s):
    """seconds since the epoch (int) -> (y, m, d, hh, mm, ss)"""
    days, rem = divmod(s, 86400)
    y, m, d = civil_from_days(days)
    return (y, m, d, rem // 3600, rem % 3600 // 60, rem % 60)


def self_check():
    """consistency of the two constructions; run by the check once per process"""
    assert days_from_civil(1970, 1, 1) == 0 and civil_from_days(0) == (1970, 1, 1)
    assert days_from_civil(1, 1, 1) == MIN_DAY and days_from_civil(9999, 12, 31) == MAX_DAY
    assert days_before_year_naive(1970) == -MIN_DAY
    n = MIN_DAY
    for y in (1, 2, 4, 5, 100, 101, 400, 401, 1582, 1600, 1900, 1970, 2000, 2024, 2100, 9999):
        base = days_before_year_naive(y) + MIN_DAY
        assert days_from_civil(y, 1, 1) == base, y
        k = base
        for m in range(1, 13):
            for d in range(1, days_in_month(y, m) + 1):
                assert days_from_civil(y, m, d) == k and civil_from_days(k) == (y, m, d), (y, m, d)
                k += 1
        assert k - base == (366 if is_leap(y) else 365)
    return True
