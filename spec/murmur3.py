"""Reference partitioner token functions, transcribed from Apache Cassandra (Java semantics).

Imports nothing from ``cassandra.*``.

* ``hash3_x64_128(data, seed=0)`` -> (h1, h2) as *signed* 64-bit ints:
  org.apache.cassandra.utils.MurmurHash.hash3_x64_128.  Cassandra's variant differs from the
  canonical MurmurHash3 in one place: the tail bytes are read with ``ByteBuffer.get`` (a *signed*
  Java ``byte``) and widened with ``(long)`` -- i.e. sign-extended -- before being shifted and
  XOR-ed into k1/k2.  Body blocks are assembled from ``& 0xff`` bytes, little endian.
* ``murmur3_token(key)``: Murmur3Partitioner.getToken -> normalize(hash[0]):
  ``Long.MIN_VALUE`` is mapped to ``Long.MAX_VALUE``.
* ``random_token(key)``: RandomPartitioner: ``new BigInteger(md5(key)).abs()`` -- the digest read
  as a two's complement signed 128-bit big-endian integer, then the absolute value.
* ``byte_ordered_token(key)``: ByteOrderedPartitioner: the raw key bytes.

All arithmetic is carried out on unsigned 64-bit words (``& M64`` after every operation that can
overflow), results are converted to signed at the very end.  ``self_test()`` pins the transcription
with the vectors of tests/unit/test_metadata.py (which come from a real Cassandra).
"""
import hashlib

M64 = (1 << 64) - 1
C1 = 0x87c37b91114253d5
C2 = 0x4cf5ad432745937f
LONG_MIN = -(1 << 63)
LONG_MAX = (1 << 63) - 1


def _rotl(x, r):
    return ((x << r) | (x >> (64 - r))) & M64


def _fmix(k):
    k ^= k >> 33                       # '>>>' on an unsigned word
    k = (k * 0xff51afd7ed558ccd) & M64
    k ^= k >> 33
    k = (k * 0xc4ceb9fe1a85ec53) & M64
    k ^= k >> 33
    return k


def _signed(u):
    return u - (1 << 64) if u & (1 << 63) else u


def _sext_byte(b):
    """(long) of a Java byte: 0x80..0xff become negative; returned as an unsigned 64-bit word."""
    return (b - 256 if b >= 0x80 else b) & M64


def hash3_x64_128(data, seed=0):
    data = bytes(data)
    length = len(data)
    nblocks = length >> 4
    h1 = h2 = seed & M64
    for i in range(nblocks):
        k1 = int.from_bytes(data[16 * i: 16 * i + 8], "little")
        k2 = int.from_bytes(data[16 * i + 8: 16 * i + 16], "little")
        k1 = (k1 * C1) & M64
        k1 = _rotl(k1, 31)
        k1 = (k1 * C2) & M64
        h1 ^= k1
        h1 = _rotl(h1, 27)
        h1 = (h1 + h2) & M64
        h1 = (h1 * 5 + 0x52dce729) & M64
        k2 = (k2 * C2) & M64
        k2 = _rotl(k2, 33)
        k2 = (k2 * C1) & M64
        h2 ^= k2
        h2 = _rotl(h2, 31)
        h2 = (h2 + h1) & M64
        h2 = (h2 * 5 + 0x38495ab5) & M64

    off = nblocks * 16
    rem = length & 15
    k1 = k2 = 0
    # the Java switch falls through from case `rem` down to case 1
    if rem >= 9:
        for j in range(rem - 1, 7, -1):                 # bytes 14..8 -> shifts 48..0
            k2 ^= (_sext_byte(data[off + j]) << ((j - 8) * 8)) & M64
        k2 = (k2 * C2) & M64
        k2 = _rotl(k2, 33)
        k2 = (k2 * C1) & M64
        h2 ^= k2
    if rem >= 1:
        for j in range(min(rem, 8) - 1, -1, -1):        # bytes 7..0 -> shifts 56..0
            k1 ^= (_sext_byte(data[off + j]) << (j * 8)) & M64
        k1 = (k1 * C1) & M64
        k1 = _rotl(k1, 31)
        k1 = (k1 * C2) & M64
        h1 ^= k1

    h1 ^= length
    h2 ^= length
    h1 = (h1 + h2) & M64
    h2 = (h2 + h1) & M64
    h1 = _fmix(h1)
    h2 = _fmix(h2)
    h1 = (h1 + h2) & M64
    h2 = (h2 + h1) & M64
    return _signed(h1), _signed(h2)


def normalize(h):
    """Murmur3Partitioner.normalize"""
    return LONG_MAX if h == LONG_MIN else h


def murmur3_hash(key):
    """first 64-bit half, signed (what cassandra.murmur3.murmur3 returns)"""
    return hash3_x64_128(key, 0)[0]


def murmur3_token(key):
    return normalize(murmur3_hash(key))


def random_token(key):
    if isinstance(key, str):
        key = key.encode("utf-8")
    d = hashlib.md5(bytes(key)).digest()
    v = int.from_bytes(d, "big")
    if d[0] & 0x80:                     # BigInteger(byte[]) is two's complement
        v -= 1 << 128
    return -v if v < 0 else v


def byte_ordered_token(key):
    return bytes(key)


VECTORS_MURMUR3 = [
    (b"123", -7468325962851647638),
    (b"\x00\xff\x10\xfa\x99" * 10, 5837342703291459765),
    (b"\xfe" * 8, -8927430733708461935),
    (b"\x10" * 8, 1446172840243228796),
    (str(LONG_MAX).encode(), 7162290910810015547),
    (b"", 0),
]
VECTORS_MD5 = [
    (b"123", 42767516990368493138776584305024125808),
    (str(LONG_MAX).encode(), 28528976619278518853815276204542453639),
]


def self_test():
    for k, want in VECTORS_MURMUR3:
        got = murmur3_hash(k)
        if got != want:
            raise AssertionError("spec.murmur3 reference broken: %r -> %d, pinned %d" % (k, got, want))
    for k, want in VECTORS_MD5:
        got = random_token(k)
        if got != want:
            raise AssertionError("spec.murmur3 random_token broken: %r -> %d, pinned %d" % (k, got, want))
    assert normalize(LONG_MIN) == LONG_MAX and normalize(LONG_MIN + 1) == LONG_MIN + 1
    return True
