"""In-memory interpreter for the CQL DML subset (SELECT / INSERT / UPDATE / DELETE / BATCH) with Cassandra's cell semantics.

Imports nothing from ``cassandra.*``.  Input is the AST of spec.cqlparse; values are the tagged values of spec.values /
spec.cqlterm (literals are read with cqlterm.denote for the column's type).

What is modelled (from Cassandra's storage engine and cql3 statements package, 3.0 - 4.x):
  * a table has partition key, clustering, static and regular columns; tuples, UDTs and frozen<> collections are single cells,
    non-frozen list/set/map are multi-cell (one cell per element plus a collection tombstone), counters are sums
  * every write carries a timestamp: USING TIMESTAMP n, the batch's, or the server clock (one tick per statement / batch);
    reconciliation is last-write-wins per cell, a tombstone wins a tie, between live cells of equal timestamp the greater value wins;
    row / partition tombstones shadow everything written at or before their timestamp
  * INSERT writes the primary-key liveness marker, UPDATE does not: a row exists iff its marker is live or one of its regular
    cells is; a partition with live static cells but no row shows one row with null clustering and regular columns; null == absent;
    an empty collection == null
  * collection overwrite = collection tombstone at t-1 + elements at t; c = c + x / c = x + c (list append / prepend in order) /
    c = c - x / c[k] = v / DELETE c[k]; list index operations read before they write
  * IF NOT EXISTS / IF EXISTS / IF col op value (=, !=, <, <=, >, >=, IN) evaluated on the current row; a failed condition leaves
    the data untouched and answers [applied]=false (+ the current values of the conditioned columns / the existing row)
  * BATCH: one timestamp for all statements, conditions checked before anything is applied
  * validation (-> Invalid, Cassandra answers InvalidRequest): unknown table/column, missing or doubly restricted key parts, non-key
    columns in the WHERE of a modification, SET/DELETE of a key column, INSERT into a counter table, counter operations on
    non-counter columns and the reverse, incompatible operations on one column, custom timestamps with conditions or counters,
    both batch and statement timestamps, regular columns modified without the full clustering key, collection literals of the
    wrong kind, null key values, list index out of range, mixing counter and non-counter statements in a batch
  * TTL is parsed and ignored (no time passes inside a case)
Raises Unsupported for what the subset does not cover (token() restrictions, range deletes, functions, conditions on elements).

    db = Database(); db.create_table("ks", "t", [("k", T, "pk"), ("c", T, "ck"), ("s", T, "static"), ("v", T, "regular")])
    res = db.execute(ast)        -> Result(names, rows=[{col: tagged}], applied=None|bool)
    db.read_row("ks", "t", {key col: tagged..})  -> {col: tagged} | None        direct look at the storage
    db.rows("ks", "t") -> [ {col: tagged} ]                                       every visible row
"""
from __future__ import annotations

import fractions
import ipaddress
import itertools
import json

from spec import cqlterm
from spec import values as V

NEG = -(1 << 62)


class Invalid(ValueError):
    """Cassandra answers InvalidRequest"""


class Unsupported(ValueError):
    pass


class Result(object):
    def __init__(self, names=None, rows=None, applied=None):
        self.names, self.rows, self.applied = names or [], rows or [], applied


# ---------------------------------------------------------------------------------------------------------
# ordering of values (clustering order, set/map element order, inequalities)
# ---------------------------------------------------------------------------------------------------------
def order_key(tree, v):
    t = tree["t"]
    if t in ("frozen", "reversed"):
        return order_key(tree["of"], v)
    if v is None:
        return (0,)
    if t in ("tinyint", "smallint", "int", "bigint", "varint", "counter", "timestamp", "date", "time"):
        return (1, int(v))
    if t in ("text", "varchar", "ascii"):
        return (1, v.encode("utf-8"))
    if t == "blob":
        return (1, bytes.fromhex(v))
    if t == "boolean":
        return (1, int(bool(v)))
    if t in ("float", "double"):
        f = {"nan": float("inf"), "inf": float("inf"), "-inf": float("-inf")}.get(v, v) if isinstance(v, str) else v
        return (1, f, 1 if v == "nan" else 0)
    if t == "decimal":
        sign, digits, exp = v
        return (1, fractions.Fraction(int(digits) * (-1 if sign else 1)) * fractions.Fraction(10) ** int(exp))
    if t == "inet":
        return (1, ipaddress.ip_address(v).packed)
    if t in ("uuid", "timeuuid"):
        b = bytes.fromhex(v)
        version = b[6] >> 4
        if version == 1:
            ts = ((b[6] & 0x0F) << 56) | (b[7] << 48) | (b[4] << 40) | (b[5] << 32) | int.from_bytes(b[0:4], "big")
            return (1, version, ts, b)
        return (1, version, 0, b)
    if t == "duration":
        return (1, tuple(v))
    if t in ("list", "set", "vector"):
        return (1, tuple(order_key(tree["of"], x) for x in v))
    if t == "map":
        return (1, tuple((order_key(tree["k"], a), order_key(tree["v"], b)) for a, b in v))
    if t == "tuple":
        return (1, tuple(order_key(sub, x) for sub, x in zip(tree["of"], v)))
    if t == "udt":
        return (1, tuple(order_key(f[1], x) for f, x in zip(tree["fields"], v)))
    raise Unsupported("ordering of %s" % t)


def ident(tree, v):
    """hashable identity of a value as a key / set element"""
    return json.dumps(V.canon(tree, v), sort_keys=True)


def normalise(tree, v):
    """stored form: sets sorted and de-duplicated, maps sorted by key (last entry of a key wins), recursively"""
    if v is None:
        return None
    t = tree["t"]
    if t in ("frozen", "reversed"):
        return normalise(tree["of"], v)
    if t == "set":
        seen = {}
        for x in v:
            x = normalise(tree["of"], x)
            seen[ident(tree["of"], x)] = x
        return sorted(seen.values(), key=lambda x: order_key(tree["of"], x))
    if t == "map":
        seen = {}
        for a, b in v:
            a, b = normalise(tree["k"], a), normalise(tree["v"], b)
            seen[ident(tree["k"], a)] = [a, b]
        return sorted(seen.values(), key=lambda p: order_key(tree["k"], p[0]))
    if t in ("list", "vector"):
        return [normalise(tree["of"], x) for x in v]
    if t == "tuple":
        out = [normalise(sub, x) for sub, x in zip(tree["of"], v)]
        return out + [None] * (len(tree["of"]) - len(out))
    if t == "udt":
        return [normalise(f[1], x) for f, x in zip(tree["fields"], v)]
    return v


def _is_multicell(tree):
    return tree["t"] in ("list", "set", "map")


# ---------------------------------------------------------------------------------------------------------
# storage
# ---------------------------------------------------------------------------------------------------------
class Table(object):
    def __init__(self, ks, name, columns):
        self.ks, self.name = ks, name
        self.cols = {}
        self.order = []
        self.partition, self.clustering = [], []
        for n, tree, kind in columns:
            if kind not in ("pk", "ck", "static", "regular"):
                raise ValueError(kind)
            self.cols[n] = (tree, kind)
            self.order.append(n)
            if kind == "pk":
                self.partition.append(n)
            elif kind == "ck":
                self.clustering.append(n)
        self.counter = any(V.core(t)["t"] == "counter" for t, k in self.cols.values() if k in ("regular", "static"))

    def tree(self, col):
        return self.cols[col][0]

    def kind(self, col):
        return self.cols[col][1]


class _Complex(object):
    __slots__ = ("del_ts", "elems")

    def __init__(self):
        self.del_ts = NEG
        self.elems = {}     # ekey -> [ts, key tagged, value tagged | None (tombstone)]


class _Row(object):
    __slots__ = ("marker", "del_ts", "cells")

    def __init__(self):
        self.marker = None
        self.del_ts = NEG
        self.cells = {}     # col -> ("s", ts, value|None) | _Complex | ("c", n)


class _Partition(object):
    __slots__ = ("key", "del_ts", "static", "rows", "ckeys")

    def __init__(self, key):
        self.key = key
        self.del_ts = NEG
        self.static = _Row()
        self.rows = {}      # clustering ident tuple -> _Row
        self.ckeys = {}     # clustering ident tuple -> [tagged..]


class Database(object):
    def __init__(self, now=1600000000000000):
        self.tables = {}
        self.data = {}
        self.clock = now
        self._seq = 0

    def create_table(self, ks, name, columns):
        t = Table(ks, name, columns)
        self.tables[(ks, name)] = t
        self.data[(ks, name)] = {}
        return t

    def tick(self):
        self.clock += 1000
        return self.clock

    def _next_pos(self):
        self._seq += 1
        return self._seq

    # ------------------------------------------------------------------------------------------------
    # low level cell operations (all reconcile by timestamp)
    # ------------------------------------------------------------------------------------------------
    @staticmethod
    def _wins(tree, new_ts, new_v, old_ts, old_v):
        if new_ts != old_ts:
            return new_ts > old_ts
        if new_v is None or old_v is None:
            return new_v is None
        return order_key(tree, new_v) >= order_key(tree, old_v)

    def _put_simple(self, row, col, tree, ts, value, shadow):
        if ts <= max(shadow, row.del_ts):
            return
        cur = row.cells.get(col)
        if cur is None or self._wins(tree, ts, value, cur[1], cur[2]):
            row.cells[col] = ("s", ts, value)

    def _complex(self, row, col):
        c = row.cells.get(col)
        if c is None:
            c = row.cells[col] = _Complex()
        return c

    def _delete_complex(self, row, col, ts):
        c = self._complex(row, col)
        if ts > c.del_ts:
            c.del_ts = ts
        for k in [k for k, e in c.elems.items() if e[0] <= c.del_ts]:
            del c.elems[k]

    def _put_elem(self, row, col, vtree, ekey, ts, key, value, shadow):
        c = self._complex(row, col)
        if ts <= max(shadow, row.del_ts, c.del_ts):
            return
        cur = c.elems.get(ekey)
        if cur is None or self._wins(vtree, ts, value, cur[0], cur[2]):
            c.elems[ekey] = [ts, key, value]

    def _live_elems(self, row, col, shadow):
        c = row.cells.get(col)
        if not isinstance(c, _Complex):
            return []
        floor = max(shadow, row.del_ts, c.del_ts)
        return [(k, e) for k, e in c.elems.items() if e[0] > floor and e[2] is not None]

    def _read_cell(self, row, col, tree, shadow):
        c = row.cells.get(col)
        if c is None:
            return None
        if isinstance(c, _Complex):
            live = self._live_elems(row, col, shadow)
            if not live:
                return None
            core = V.core(tree)
            if core["t"] == "list":
                return [e[2] for _k, e in sorted(live, key=lambda p: p[0])]
            if core["t"] == "set":
                return sorted((e[1] for _k, e in live), key=lambda x: order_key(core["of"], x))
            return sorted(([e[1], e[2]] for _k, e in live), key=lambda p: order_key(core["k"], p[0]))
        if c[0] == "c":
            return c[1]
        _tag, ts, value = c
        if ts <= max(shadow, row.del_ts):
            return None
        return value

    def _row_deleted(self, row, ts):
        if ts > row.del_ts:
            row.del_ts = ts
        if row.marker is not None and row.marker <= row.del_ts:
            row.marker = None
        for col in list(row.cells):
            c = row.cells[col]
            if isinstance(c, _Complex):
                for k in [k for k, e in c.elems.items() if e[0] <= row.del_ts]:
                    del c.elems[k]
                if not c.elems and c.del_ts <= row.del_ts:
                    del row.cells[col]
            elif c[0] == "c":
                del row.cells[col]
            elif c[1] <= row.del_ts:
                del row.cells[col]

    # ------------------------------------------------------------------------------------------------
    # views
    # ------------------------------------------------------------------------------------------------
    def _row_view(self, table, part, ckey, row):
        """{col: tagged} of a row (None when the row does not exist); ckey None = the static pseudo row"""
        shadow = part.del_ts
        out = {}
        exists = False
        if row is not None:
            if row.marker is not None and row.marker > max(shadow, row.del_ts):
                exists = True
            for col in table.order:
                if table.kind(col) == "regular":
                    v = self._read_cell(row, col, table.tree(col), shadow)
                    out[col] = v
                    if v is not None:
                        exists = True
        statics = {}
        any_static = False
        for col in table.order:
            if table.kind(col) == "static":
                v = self._read_cell(part.static, col, table.tree(col), shadow)
                statics[col] = v
                if v is not None:
                    any_static = True
        if row is None:
            if not any_static:
                return None
            for col in table.order:
                if table.kind(col) in ("regular", "ck"):
                    out[col] = None
        elif not exists:
            return None
        else:
            for col, v in zip(table.clustering, part.ckeys[ckey]):
                out[col] = v
        for col, v in zip(table.partition, part.key):
            out[col] = v
        out.update(statics)
        return out

    def _partition_rows(self, table, part, with_static_only=True):
        rows = []
        for ckey in sorted(part.rows, key=lambda k: tuple(order_key(table.tree(c), v) for c, v in zip(table.clustering, part.ckeys[k]))):
            view = self._row_view(table, part, ckey, part.rows[ckey])
            if view is not None:
                rows.append(view)
        if not rows and with_static_only and table.clustering:
            view = self._row_view(table, part, None, None)
            if view is not None:
                rows.append(view)
        return rows

    def rows(self, ks, name):
        table = self.tables[(ks, name)]
        out = []
        for part in self.data[(ks, name)].values():
            out.extend(self._partition_rows(table, part))
        return out

    def read_row(self, ks, name, key):
        """key: {col: tagged} for all primary key columns (clustering values None = static pseudo row)"""
        table = self.tables[(ks, name)]
        pid = tuple(ident(table.tree(c), key[c]) for c in table.partition)
        part = self.data[(ks, name)].get(pid)
        if part is None:
            return None
        if table.clustering and all(key.get(c) is None for c in table.clustering):
            live = self._partition_rows(table, part)
            if live and all(live[0].get(c) is None for c in table.clustering):
                return live[0]
            view = self._row_view(table, part, None, None)
            return view
        cid = tuple(ident(table.tree(c), key[c]) for c in table.clustering)
        row = part.rows.get(cid)
        if row is None:
            return None
        return self._row_view(table, part, cid, row)

    # ------------------------------------------------------------------------------------------------
    # statements
    # ------------------------------------------------------------------------------------------------
    def _table(self, ast):
        t = self.tables.get((ast.get("ks"), ast["table"]))
        if t is None:
            raise Invalid("unconfigured table %s.%s" % (ast.get("ks"), ast["table"]))
        return t

    @staticmethod
    def _denote(term, tree, what):
        try:
            return normalise(tree, cqlterm.denote(term, tree))
        except cqlterm.Invalid as e:
            raise Invalid("%s: %s" % (what, e))
        except cqlterm.Unsupported as e:
            raise Unsupported("%s: %s" % (what, e))

    @staticmethod
    def _int(term, what):
        if term is None:
            return None
        if term["k"] != "integer":
            raise Invalid("%s must be an integer" % what)
        return int(term["text"])

    def execute(self, ast):
        k = ast["stmt"]
        if k == "select":
            return self._select(ast)
        if k == "batch":
            return self._batch(ast)
        plan = self._plan(ast, None)
        return self._run([plan], self._stamp([plan], None))

    # ---- timestamps
    def _stamp(self, plans, batch_ts):
        now = self.tick()
        conditional = any(p["conditional"] for p in plans)
        for p in plans:
            if p["ts"] is not None and batch_ts is not None:
                raise Invalid("Timestamp must be set either on BATCH or individual statements")
            if p["ts"] is not None and p["conditional"]:
                raise Invalid("Cannot provide custom timestamp for conditional updates")
            if p["ts"] is not None and p["table"].counter and p["kind"] != "delete":
                raise Invalid("Cannot provide custom timestamp for counter updates")
        if conditional and batch_ts is not None:
            raise Invalid("Cannot provide custom timestamp for conditional BATCH")
        return [now if conditional else (p["ts"] if p["ts"] is not None else (batch_ts if batch_ts is not None else now)) for p in plans]

    # ---- WHERE of a modification -> partition keys, clustering keys
    def _mod_where(self, table, where, need_clustering, allow_partition_only, stmt):
        eq = {}
        for r in where:
            if "token" in r["lhs"]:
                raise Invalid("The token function cannot be used in WHERE clauses for %s statements" % stmt)
            col = r["lhs"]["col"]
            if col not in table.cols:
                raise Invalid("Undefined column name %s" % col)
            if table.kind(col) not in ("pk", "ck"):
                raise Invalid("Non PRIMARY KEY columns found in where clause: %s" % col)
            if col in eq:
                raise Invalid("%s cannot be restricted by more than one relation if it includes an Equal" % col)
            if r["op"] == "=":
                vals = [self._denote(r["rhs"], table.tree(col), "WHERE " + col)]
            elif r["op"] == "IN":
                if not isinstance(r["rhs"], list):
                    raise Unsupported("IN with a marker")
                vals = [self._denote(t, table.tree(col), "WHERE " + col) for t in r["rhs"]]
            elif table.kind(col) == "ck" and stmt == "DELETE" and r["op"] in ("<", "<=", ">", ">="):
                raise Unsupported("range deletion")
            else:
                raise Invalid("Invalid operator %s for PRIMARY KEY part %s" % (r["op"], col))
            if any(v is None for v in vals):
                raise Invalid("Invalid null value in condition for column %s" % col)
            eq[col] = vals
        missing = [c for c in table.partition if c not in eq]
        if missing:
            raise Invalid("Some partition key parts are missing: %s" % ", ".join(missing))
        pkeys = [list(p) for p in itertools.product(*[eq[c] for c in table.partition])]
        given = [c for c in table.clustering if c in eq]
        if given != table.clustering[:len(given)]:
            raise Invalid("PRIMARY KEY column \"%s\" cannot be restricted as preceding column is not restricted" % given[-1])
        if len(given) == len(table.clustering):
            ckeys = [list(p) for p in itertools.product(*[eq[c] for c in table.clustering])]
        elif not given and allow_partition_only:
            ckeys = None
        elif need_clustering or not allow_partition_only:
            raise Invalid("Some clustering keys are missing: %s" % ", ".join(c for c in table.clustering if c not in eq))
        else:
            raise Unsupported("deletion of a clustering prefix")
        return pkeys, ckeys

    # ---- planning: validate a modification and turn it into operations
    def _plan(self, ast, _batch):
        table = self._table(ast)
        k = ast["stmt"]
        plan = {"kind": k, "table": table, "ts": self._int(ast.get("timestamp"), "TIMESTAMP"), "ops": [], "marker": False,
                "if": [], "if_exists": False, "if_not_exists": False}
        self._int(ast.get("ttl"), "TTL")
        if k == "insert":
            if table.counter:
                raise Invalid("INSERT statements are not allowed on counter tables, use UPDATE instead")
            cols, vals = ast["columns"], ast["values"]
            if len(cols) != len(vals):
                raise Invalid("Unmatched column names/values")
            seen = {}
            for c, t in zip(cols, vals):
                if c not in table.cols:
                    raise Invalid("Undefined column name %s" % c)
                if c in seen:
                    raise Invalid("The column names contains duplicates")
                seen[c] = self._denote(t, table.tree(c), "value of " + c)
            for c in table.partition:
                if c not in seen:
                    raise Invalid("Some partition key parts are missing: %s" % c)
                if seen[c] is None:
                    raise Invalid("Invalid null value in condition for column %s" % c)
            given_ck = [c for c in table.clustering if c in seen]
            touched = [c for c in cols if table.kind(c) in ("regular", "static")]
            static_only = bool(touched) and all(table.kind(c) == "static" for c in touched)
            if len(given_ck) != len(table.clustering):
                if given_ck or not (static_only and table.clustering):
                    raise Invalid("Some clustering keys are missing: %s" % ", ".join(c for c in table.clustering if c not in seen))
                ckeys = None
            else:
                for c in given_ck:
                    if seen[c] is None:
                        raise Invalid("Invalid null value in condition for column %s" % c)
                ckeys = [[seen[c] for c in table.clustering]]
                plan["marker"] = True
            plan["pkeys"], plan["ckeys"] = [[seen[c] for c in table.partition]], ckeys
            for c in touched:
                plan["ops"].append({"col": c, "op": "set", "value": seen[c]})
            plan["if_not_exists"] = ast["if_not_exists"]
        elif k == "update":
            by_col = {}
            for a in ast["set"]:
                c = a["col"]
                if c not in table.cols:
                    raise Invalid("Undefined column name %s" % c)
                if table.kind(c) in ("pk", "ck"):
                    raise Invalid("PRIMARY KEY part %s found in SET part" % c)
                tree = table.tree(c)
                core = V.core(tree)
                op = a["op"]
                for prev in by_col.get(c, []):
                    if prev == "set" or op == "set":
                        raise Invalid("Multiple incompatible setting of column %s" % c)
                by_col.setdefault(c, []).append(op)
                if core["t"] == "counter":
                    if op not in ("add", "sub"):
                        raise Invalid("Cannot set the value of counter column %s (counters can only be incremented/decremented, not set)" % c)
                    delta = self._denote(a["value"], {"t": "bigint"}, "counter delta")
                    if delta is None:
                        raise Invalid("Invalid null value for counter increment")
                    plan["ops"].append({"col": c, "op": "counter", "value": delta if op == "add" else -delta})
                    continue
                if table.counter:
                    raise Invalid("Cannot mix counter and non counter columns")
                if op == "set":
                    plan["ops"].append({"col": c, "op": "set", "value": self._denote(a["value"], tree, "value of " + c)})
                elif op in ("add", "prepend", "sub"):
                    if not _is_multicell(tree):
                        raise Invalid("Invalid operation (%s) for %s column %s" % (op, "frozen collection" if tree["t"] == "frozen" else "non collection", c))
                    if op == "prepend" and core["t"] != "list":
                        raise Invalid("Invalid operation (%s = <value> + %s) for non list column" % (c, c))
                    vt = tree
                    if op == "sub" and core["t"] == "map":
                        vt = {"t": "set", "of": core["k"]}
                    v = self._denote(a["value"], vt, "operand for " + c)
                    plan["ops"].append({"col": c, "op": op, "value": v})
                elif op == "setelem":
                    if not _is_multicell(tree) or core["t"] == "set":
                        raise Invalid("Invalid operation (%s[..] = ..) for column %s" % (c, c))
                    ktree = core["k"] if core["t"] == "map" else {"t": "int"}
                    vtree = core["v"] if core["t"] == "map" else core["of"]
                    key = self._denote(a["key"], ktree, "element key of " + c)
                    if key is None:
                        raise Invalid("Invalid null map key / list index for column %s" % c)
                    plan["ops"].append({"col": c, "op": "setelem", "key": key, "value": self._denote(a["value"], vtree, "element of " + c)})
            touched = [o["col"] for o in plan["ops"]]
            if table.counter and any(o["op"] != "counter" for o in plan["ops"]):
                raise Invalid("Cannot mix counter and non counter columns")
            plan["if"], plan["if_exists"] = self._conditions(table, ast["if"]), ast["if_exists"]
            cond_cols = [c["col"] for c in plan["if"]]
            static_only = all(table.kind(c) == "static" for c in touched + cond_cols) and bool(table.clustering)
            plan["pkeys"], plan["ckeys"] = self._mod_where(table, ast["where"], not static_only, static_only, "UPDATE")
            plan["static_only"] = static_only
        elif k == "delete":
            for tg in ast["targets"]:
                c = tg["col"]
                if c not in table.cols:
                    raise Invalid("Undefined column name %s" % c)
                if table.kind(c) in ("pk", "ck"):
                    raise Invalid("Invalid identifier %s for deletion (should not be a PRIMARY KEY part)" % c)
                tree = table.tree(c)
                core = V.core(tree)
                if "key" in tg:
                    if not _is_multicell(tree):
                        raise Invalid("Invalid deletion operation for non collection column %s" % c)
                    ktree = core["k"] if core["t"] == "map" else (core["of"] if core["t"] == "set" else {"t": "int"})
                    key = self._denote(tg["key"], ktree, "element key of " + c)
                    if key is None:
                        raise Invalid("Invalid null value for element deletion of %s" % c)
                    plan["ops"].append({"col": c, "op": "delelem", "key": key})
                else:
                    plan["ops"].append({"col": c, "op": "delete"})
            plan["if"], plan["if_exists"] = self._conditions(table, ast["if"]), ast["if_exists"]
            touched = [o["col"] for o in plan["ops"]]
            cond_cols = [c["col"] for c in plan["if"]]
            if touched:
                static_only = all(table.kind(c) == "static" for c in touched + cond_cols) and bool(table.clustering)
                plan["pkeys"], plan["ckeys"] = self._mod_where(table, ast["where"], not static_only, static_only, "DELETE")
                plan["static_only"] = static_only
            else:
                conditional = bool(plan["if"]) or plan["if_exists"]
                plan["pkeys"], plan["ckeys"] = self._mod_where(table, ast["where"], conditional and not (cond_cols and all(
                    table.kind(c) == "static" for c in cond_cols)), True, "DELETE")
                plan["ops"] = [{"op": "row" if plan["ckeys"] is not None else "partition"}]
                if plan["ckeys"] is None and not table.clustering:
                    plan["ckeys"] = [[]]
                    plan["ops"] = [{"op": "row"}]
        else:
            raise Unsupported(k)
        plan["conditional"] = bool(plan["if"]) or plan["if_exists"] or plan["if_not_exists"]
        if plan["conditional"] and table.counter:
            raise Invalid("Conditional updates are not supported on counter tables")
        if plan["conditional"] and (len(plan["pkeys"]) > 1 or (plan["ckeys"] is not None and len(plan["ckeys"]) > 1)):
            raise Unsupported("IN restrictions with conditions")
        return plan

    def _conditions(self, table, conds):
        out = []
        for c in conds:
            col = c["col"]
            if col not in table.cols:
                raise Invalid("Undefined column name %s" % col)
            if table.kind(col) in ("pk", "ck"):
                raise Invalid("PRIMARY KEY column '%s' cannot have IF conditions" % col)
            if "key" in c:
                raise Unsupported("condition on a collection element")
            tree = table.tree(col)
            if c["op"] == "IN":
                if not isinstance(c["rhs"], list):
                    raise Unsupported("IN with a marker")
                out.append({"col": col, "op": "IN", "value": [self._denote(t, tree, "IF " + col) for t in c["rhs"]]})
            else:
                out.append({"col": col, "op": c["op"], "value": self._denote(c["rhs"], tree, "IF " + col)})
        return out

    # ---- running plans
    def _part(self, table, pkey, create):
        store = self.data[(table.ks, table.name)]
        pid = tuple(ident(table.tree(c), v) for c, v in zip(table.partition, pkey))
        part = store.get(pid)
        if part is None and create:
            part = store[pid] = _Partition(list(pkey))
        return part

    def _current(self, table, pkey, ckey):
        part = self._part(table, pkey, False)
        if part is None:
            return None
        if ckey is None:
            view = self._row_view(table, part, None, None)
            return view
        cid = tuple(ident(table.tree(c), v) for c, v in zip(table.clustering, ckey))
        row = part.rows.get(cid)
        view = self._row_view(table, part, cid, row) if row is not None else None
        if view is None:
            # the row does not exist, but conditions on static columns still see the static row
            sview = self._row_view(table, part, None, None)
            if sview is not None:
                return dict(sview, __row_missing__=True)
        return view

    @staticmethod
    def _cond_holds(table, cond, view):
        tree = table.tree(cond["col"])
        cur = None if view is None else view.get(cond["col"])
        op, want = cond["op"], cond["value"]
        if op == "IN":
            return any((cur is None and w is None) or (cur is not None and w is not None and cqlterm.same_value(tree, cur, w)) for w in want)
        if op == "=":
            return (cur is None and want is None) or (cur is not None and want is not None and cqlterm.same_value(tree, cur, want))
        if op == "!=":
            return not ((cur is None and want is None) or (cur is not None and want is not None and cqlterm.same_value(tree, cur, want)))
        if want is None:
            raise Invalid("Invalid comparison with null for operator \"%s\"" % op)
        if cur is None:
            return False
        a, b = order_key(tree, cur), order_key(tree, want)
        return {"<": a < b, "<=": a <= b, ">": a > b, ">=": a >= b}[op]

    def _check_conditions(self, plan):
        """-> (applied, result row)"""
        table = plan["table"]
        pkey = plan["pkeys"][0]
        ckey = plan["ckeys"][0] if plan["ckeys"] is not None else None
        view = self._current(table, pkey, ckey)
        exists = view is not None and not view.get("__row_missing__")
        if ckey is None and view is not None:
            exists = True
        if plan["if_not_exists"]:
            if exists:
                row = {"[applied]": False}
                row.update((c, view.get(c)) for c in table.order)
                return False, row
            return True, {"[applied]": True}
        if plan["if_exists"]:
            return (True, {"[applied]": True}) if exists else (False, {"[applied]": False})
        ok = all(self._cond_holds(table, c, view) for c in plan["if"])
        if ok:
            return True, {"[applied]": True}
        row = {"[applied]": False}
        if view is not None:
            for c in plan["if"]:
                row[c["col"]] = view.get(c["col"])
        return False, row

    def _run(self, plans, stamps):
        conditional = [p for p in plans if p["conditional"]]
        if conditional:
            results = [self._check_conditions(p) for p in conditional]
            if not all(ok for ok, _r in results):
                row = {"[applied]": False}
                for ok, r in results:
                    if not ok:
                        row.update(r)
                row["[applied]"] = False
                return Result(list(row), [row], applied=False)
        for p, ts in zip(plans, stamps):
            self._apply(p, ts)
        if conditional:
            return Result(["[applied]"], [{"[applied]": True}], applied=True)
        return Result()

    def _apply(self, plan, ts):
        table = plan["table"]
        for pkey in plan["pkeys"]:
            part = self._part(table, pkey, True)
            shadow = part.del_ts
            if plan["ops"] and plan["ops"][0]["op"] == "partition":
                if ts > part.del_ts:
                    part.del_ts = ts
                self._row_deleted_all(part)
                continue
            ckeys = plan["ckeys"]
            targets = []
            if ckeys is None:
                targets.append((None, part.static))
            else:
                for ckey in ckeys:
                    cid = tuple(ident(table.tree(c), v) for c, v in zip(table.clustering, ckey))
                    row = part.rows.get(cid)
                    if row is None:
                        row = part.rows[cid] = _Row()
                        part.ckeys[cid] = list(ckey)
                    targets.append((cid, row))
            for cid, row in targets:
                if plan["ops"] and plan["ops"][0]["op"] == "row":
                    self._row_deleted(row, ts)
                    continue
                if plan["marker"] and cid is not None and ts > max(shadow, row.del_ts):
                    if row.marker is None or ts > row.marker:
                        row.marker = ts
                for op in plan["ops"]:
                    col = op["col"]
                    target = part.static if table.kind(col) == "static" else row
                    if table.kind(col) != "static" and cid is None:
                        raise Invalid("Some clustering keys are missing for column %s" % col)
                    self._apply_op(table, target, op, ts, shadow)

    def _row_deleted_all(self, part):
        for row in list(part.rows.values()) + [part.static]:
            self._row_deleted(row, part.del_ts)
            row.del_ts = NEG if row.del_ts <= part.del_ts else row.del_ts

    def _apply_op(self, table, row, op, ts, shadow):
        col = op["col"]
        tree = table.tree(col)
        core = V.core(tree)
        kind = op["op"]
        if kind == "counter":
            cur = row.cells.get(col)
            row.cells[col] = ("c", (cur[1] if cur else 0) + op["value"])
            return
        if not _is_multicell(tree):
            if kind == "set":
                self._put_simple(row, col, tree, ts, op["value"], shadow)
            elif kind == "delete":
                if core["t"] == "counter":
                    row.cells.pop(col, None)
                else:
                    self._put_simple(row, col, tree, ts, None, shadow)
            else:
                raise Invalid("Invalid operation %s on column %s" % (kind, col))
            return
        ct = core["t"]
        etree = core["of"] if ct in ("list", "set") else core["v"]
        if kind == "delete":
            self._delete_complex(row, col, ts)
        elif kind == "set":
            self._delete_complex(row, col, ts - 1)
            self._add_elems(row, col, core, op["value"] or [], ts, shadow, False)
        elif kind == "add":
            self._add_elems(row, col, core, op["value"] or [], ts, shadow, False)
        elif kind == "prepend":
            self._add_elems(row, col, core, op["value"] or [], ts, shadow, True)
        elif kind == "sub":
            vals = op["value"] or []
            if ct == "list":
                for k, e in self._live_elems(row, col, shadow):
                    if any(cqlterm.same_value(etree, e[2], v) for v in vals):
                        self._put_elem(row, col, etree, k, ts, None, None, shadow)
            else:
                ktree = core["of"] if ct == "set" else core["k"]
                for v in vals:
                    self._put_elem(row, col, etree if ct == "map" else ktree, ("k", ident(ktree, v)), ts, v, None, shadow)
        elif kind == "setelem":
            if ct == "map":
                self._put_elem(row, col, etree, ("k", ident(core["k"], op["key"])), ts, op["key"], op["value"], shadow)
            else:
                live = sorted(self._live_elems(row, col, shadow), key=lambda p: p[0])
                i = op["key"]
                if not 0 <= i < len(live):
                    raise Invalid("List index %d out of bound, list has size %d" % (i, len(live)))
                self._put_elem(row, col, etree, live[i][0], ts, None, op["value"], shadow)
        elif kind == "delelem":
            if ct == "list":
                live = sorted(self._live_elems(row, col, shadow), key=lambda p: p[0])
                i = op["key"]
                if not 0 <= i < len(live):
                    raise Invalid("List index %d out of bound, list has size %d" % (i, len(live)))
                self._put_elem(row, col, etree, live[i][0], ts, None, None, shadow)
            else:
                ktree = core["of"] if ct == "set" else core["k"]
                self._put_elem(row, col, etree if ct == "map" else ktree, ("k", ident(ktree, op["key"])), ts, op["key"], None, shadow)
        else:
            raise Unsupported(kind)

    def _add_elems(self, row, col, core, value, ts, shadow, front):
        ct = core["t"]
        if ct == "list":
            items = list(value)
            if front:
                # Lists.Prepender hands out decreasing time uuids from the last element backwards: order is kept
                base = self._next_pos()
                for _ in items[1:]:
                    self._next_pos()
                for i, v in enumerate(items):
                    self._put_elem(row, col, core["of"], (-1, -(base + len(items) - 1 - i)), ts, None, v, shadow)
            else:
                for v in items:
                    self._put_elem(row, col, core["of"], (1, self._next_pos()), ts, None, v, shadow)
        elif ct == "set":
            for v in value:
                self._put_elem(row, col, core["of"], ("k", ident(core["of"], v)), ts, v, True, shadow)
        else:
            for k, v in value:
                self._put_elem(row, col, core["v"], ("k", ident(core["k"], k)), ts, k, v, shadow)

    # ---- BATCH
    def _batch(self, ast):
        self._int(ast.get("ttl"), "TTL")
        batch_ts = self._int(ast.get("timestamp"), "TIMESTAMP")
        plans = [self._plan(s, ast) for s in ast["statements"]]
        counters = [p["table"].counter for p in plans]
        if ast["type"] == "COUNTER" and not all(counters):
            raise Invalid("Cannot include non-counter statement in a counter batch")
        if ast["type"] != "COUNTER" and any(counters):
            raise Invalid("Cannot include a counter statement in a %s batch" % ast["type"].lower())
        cond = [p for p in plans if p["conditional"]]
        if cond:
            keys = set((p["table"].ks, p["table"].name, json.dumps([ident(p["table"].tree(c), v) for c, v in zip(p["table"].partition, p["pkeys"][0])]))
                       for p in plans)
            if len(keys) > 1:
                raise Invalid("Batch with conditions cannot span multiple tables / partitions")
        if not plans:
            return Result()
        return self._run(plans, self._stamp(plans, batch_ts))

    # ---- SELECT
    def _select(self, ast):
        table = self._table(ast)
        if ast["json"]:
            raise Unsupported("SELECT JSON")
        rels = []
        restricted_ck = False
        for r in ast["where"]:
            if "token" in r["lhs"]:
                raise Unsupported("token() restriction")
            col = r["lhs"]["col"]
            if col not in table.cols:
                raise Invalid("Undefined column name %s" % col)
            tree = table.tree(col)
            core = V.core(tree)
            op = r["op"]
            if table.kind(col) in ("ck", "regular"):
                restricted_ck = True
            if op == "IN":
                if not isinstance(r["rhs"], list):
                    raise Unsupported("IN with a marker")
                rels.append((col, op, [self._denote(t, tree, "WHERE " + col) for t in r["rhs"]]))
            elif op in ("CONTAINS", "CONTAINS KEY"):
                if core["t"] not in ("list", "set", "map") or (op == "CONTAINS KEY" and core["t"] != "map"):
                    raise Invalid("Cannot use %s on non-collection column %s" % (op, col))
                et = core["k"] if op == "CONTAINS KEY" else (core["v"] if core["t"] == "map" else core["of"])
                rels.append((col, op, self._denote(r["rhs"], et, "WHERE " + col)))
            elif op == "IS NOT NULL":
                rels.append((col, op, None))
            elif op == "LIKE":
                raise Unsupported("LIKE")
            else:
                v = self._denote(r["rhs"], tree, "WHERE " + col)
                if v is None:
                    raise Invalid("Unsupported null value for column %s" % col)
                rels.append((col, op, v))
        out = []
        for part in self.data[(table.ks, table.name)].values():
            prow = self._partition_rows(table, part, with_static_only=not restricted_ck)
            if ast["order"]:
                for col, _d in ast["order"]:
                    if col not in table.cols or table.kind(col) != "ck":
                        raise Invalid("Order by is currently only supported on the clustered columns of the PRIMARY KEY, got %s" % col)
                if ast["order"][0][1] == "DESC":
                    prow = list(reversed(prow))
            for view in prow:
                if all(self._rel_holds(table, view, r) for r in rels):
                    out.append(view)
        sels = ast["selectors"]
        count = False
        if sels == "*":
            names = list(table.order)
        else:
            names = []
            for s in sels:
                if s["sel"] == "count" or (s["sel"] == "call" and s["name"] == "count"):
                    count = True
                    for a in s.get("args", []):
                        if a["sel"] == "col" and a["name"] not in table.cols:
                            raise Invalid("Undefined column name %s" % a["name"])
                elif s["sel"] == "col":
                    if s["name"] not in table.cols:
                        raise Invalid("Undefined column name %s" % s["name"])
                    names.append(s["name"])
                else:
                    raise Unsupported("selector %r" % (s,))
        if ast["distinct"]:
            for n in names:
                if table.kind(n) not in ("pk", "static"):
                    raise Invalid("SELECT DISTINCT queries must only request partition key columns and/or static columns (not %s)" % n)
            if not count and set(table.partition) - set(names):
                raise Invalid("SELECT DISTINCT queries must request all the partition key columns")
            seen, dedup = set(), []
            for v in out:
                k = tuple(ident(table.tree(c), v[c]) for c in table.partition)
                if k not in seen:
                    seen.add(k)
                    dedup.append(v)
            out = dedup
        limit = self._int(ast["limit"], "LIMIT")
        if limit is not None:
            if limit <= 0:
                raise Invalid("LIMIT must be strictly positive")
            out = out[:limit]
        if count:
            return Result(["count"], [{"count": len(out)}])
        return Result(names, [dict((n, v.get(n)) for n in names) for v in out])

    @staticmethod
    def _rel_holds(table, view, rel):
        col, op, want = rel
        tree = table.tree(col)
        cur = view.get(col)
        if op == "IS NOT NULL":
            return cur is not None
        if cur is None:
            return False
        if op == "=":
            return cqlterm.same_value(tree, cur, want)
        if op == "IN":
            return any(w is not None and cqlterm.same_value(tree, cur, w) for w in want)
        if op == "!=":
            return not cqlterm.same_value(tree, cur, want)
        core = V.core(tree)
        if op == "CONTAINS":
            if core["t"] == "map":
                return any(cqlterm.same_value(core["v"], b, want) for _a, b in cur)
            return any(cqlterm.same_value(core["of"], x, want) for x in cur)
        if op == "CONTAINS KEY":
            return any(cqlterm.same_value(core["k"], a, want) for a, _b in cur)
        a, b = order_key(tree, cur), order_key(tree, want)
        return {"<": a < b, "<=": a <= b, ">": a > b, ">=": a >= b}[op]


# ---------------------------------------------------------------------------------------------------------
# self test: a few histories with the outcome Cassandra gives
# ---------------------------------------------------------------------------------------------------------
def self_test():
    from spec.cqlparse import parse_statement as P
    T = lambda n: {"t": n}  # noqa: E731
    db = Database()
    db.create_table("ks", "t", [("k", T("int"), "pk"), ("c", T("int"), "ck"), ("s", T("int"), "static"), ("v", T("text"), "regular"),
                                ("l", {"t": "list", "of": T("int")}, "regular"), ("m", {"t": "map", "k": T("int"), "v": T("text")}, "regular"),
                                ("z", {"t": "set", "of": T("int")}, "regular")])
    x = lambda q: db.execute(P(q))  # noqa: E731
    x("INSERT INTO ks.t (k, c, v, l) VALUES (1, 1, 'a', [1, 2])")
    x("UPDATE ks.t SET l = [0] + l, l = l + [3], m[1] = 'x', z = z + {5, 4} WHERE k = 1 AND c = 1")
    r = db.read_row("ks", "t", {"k": 1, "c": 1})
    assert r["l"] == [0, 1, 2, 3] and r["m"] == [[1, "x"]] and r["z"] == [4, 5] and r["v"] == "a", r
    x("DELETE v, l, m, z FROM ks.t WHERE k = 1 AND c = 1")
    assert db.read_row("ks", "t", {"k": 1, "c": 1}) == {"k": 1, "c": 1, "s": None, "v": None, "l": None, "m": None, "z": None}     # marker keeps the row
    x("UPDATE ks.t SET v = 'b' WHERE k = 2 AND c = 2")
    x("DELETE v FROM ks.t WHERE k = 2 AND c = 2")
    assert db.read_row("ks", "t", {"k": 2, "c": 2}) is None                                     # no marker: the row is gone
    x("UPDATE ks.t SET s = 7 WHERE k = 3")
    assert x("SELECT * FROM ks.t WHERE k = 3").rows == [{"k": 3, "c": None, "s": 7, "v": None, "l": None, "m": None, "z": None}]
    x("INSERT INTO ks.t (k, c, v) VALUES (3, 1, 'q') USING TIMESTAMP 5")                       # older than nothing: visible
    assert [r["c"] for r in x("SELECT * FROM ks.t WHERE k = 3").rows] == [1]
    x("DELETE FROM ks.t WHERE k = 3 AND c = 1")
    x("INSERT INTO ks.t (k, c, v) VALUES (3, 1, 'old') USING TIMESTAMP 6")                     # older than the row tombstone: lost
    assert db.read_row("ks", "t", {"k": 3, "c": 1}) is None
    assert x("INSERT INTO ks.t (k, c, v) VALUES (1, 1, 'n') IF NOT EXISTS").applied is False
    assert x("UPDATE ks.t SET v = 'n' WHERE k = 1 AND c = 1 IF v = 'zz'").applied is False
    assert x("UPDATE ks.t SET v = 'n' WHERE k = 1 AND c = 1 IF v = null").applied is True
    assert x("UPDATE ks.t SET v = 'n' WHERE k = 9 AND c = 9 IF EXISTS").applied is False
    x("BEGIN BATCH INSERT INTO ks.t (k, c, v) VALUES (5, 1, 'x') DELETE FROM ks.t WHERE k = 5 AND c = 1 APPLY BATCH")
    assert db.read_row("ks", "t", {"k": 5, "c": 1}) is None                                     # same timestamp: the tombstone wins
    for bad in ("UPDATE ks.t SET v = 'x' WHERE k = 1", "DELETE m[1] FROM ks.t WHERE k = 1", "UPDATE ks.t SET k = 2 WHERE k = 1 AND c = 1",
                "DELETE nope FROM ks.t WHERE k = 1 AND c = 1", "UPDATE ks.t SET v = 'a' WHERE k = 1 AND c = 1 AND v = 'b'",
                "UPDATE ks.t USING TIMESTAMP 5 SET v = 'a' WHERE k = 1 AND c = 1 IF EXISTS", "INSERT INTO ks.t (k, v) VALUES (1, 'x')",
                "UPDATE ks.t SET l = [1], l = l + [2] WHERE k = 1 AND c = 1", "UPDATE ks.t SET v = v + 'a' WHERE k = 1 AND c = 1",
                "UPDATE ks.t SET l[5] = 1 WHERE k = 1 AND c = 1", "SELECT nope FROM ks.t"):
        try:
            x(bad)
        except Invalid:
            continue
        raise AssertionError("%r should be invalid" % bad)
    cdb = Database()
    cdb.create_table("ks", "cnt", [("k", T("int"), "pk"), ("n", T("counter"), "regular")])
    cdb.execute(P("UPDATE ks.cnt SET n = n + 5 WHERE k = 1"))
    cdb.execute(P("UPDATE ks.cnt SET n = n - 2 WHERE k = 1"))
    assert cdb.read_row("ks", "cnt", {"k": 1}) == {"k": 1, "n": 3}
    return True
