"""Reference decision tables for the built-in retry policies (property C23).

Imports nothing from ``cassandra``.  Consistency levels, write types and decisions are *names*
(strings); the check maps them onto the driver's enums.

Two layers:

* ``allowed(policy, method, t)`` -- the set of outcomes the *documentation* of the policy (class and
  method docstrings in cassandra/policies.py) permits for the failure description ``t``.  An outcome
  is ``(decision, level)`` where ``level`` is the *effective* consistency level of a retry (the level
  returned, or the requested one when ``None`` is returned: "a ConsistencyLevel to retry the operation
  at or None to keep the same consistency level") and ``None`` for RETHROW / IGNORE.  Where the prose
  is precise the set is a singleton; where it is loose the set holds every reading:

    - Downgrading, read timeout, exactly one replica answered: the bullet says "greater than one but
      lower than is required" while the other bullets, the rationale ("reading something is better
      than reading nothing") and the one shared implementation say "at least one": both RETHROW and a
      retry at a one-replica level are accepted.
    - Downgrading "retried at a lower consistency level": *which* lower level is not documented; every
      fixed-count level (ONE/LOCAL_ONE/TWO/THREE) that the known-alive replicas can satisfy and that
      is not stronger than the request is accepted.
    - Downgrading "for other write types ... the timeout is ignored": for the types the base policy
      and the bullet list do not single out (CAS, VIEW, CDC) both IGNORE and RETHROW are accepted
      (ignoring a timed-out Paxos round is not something a reader of the docstring must expect).
    - "This policy implements the same retries as RetryPolicy, but on top of that ...": where the base
      retry and a downgrading bullet both apply, either is accepted; where only the base retry would
      apply but the policy gives up (no replica alive, serial read), RETHROW is accepted as well --
      the statement of C23 is about retrying *only* as documented.

* the universal clauses of the property statement, ``universal(policy, method, t, outcome)``, judged
  on every tuple independently of the tables.
"""

RETRY, RETHROW, IGNORE, RETRY_NEXT_HOST = "RETRY", "RETHROW", "IGNORE", "RETRY_NEXT_HOST"
DECISIONS = (RETRY, RETHROW, IGNORE, RETRY_NEXT_HOST)

LEVELS = ("ANY", "ONE", "TWO", "THREE", "QUORUM", "ALL", "LOCAL_QUORUM", "EACH_QUORUM",
          "SERIAL", "LOCAL_SERIAL", "LOCAL_ONE")
SERIAL_LEVELS = ("SERIAL", "LOCAL_SERIAL")
WRITE_TYPES = ("SIMPLE", "BATCH", "UNLOGGED_BATCH", "COUNTER", "BATCH_LOG", "CAS", "VIEW", "CDC")
POLICIES = ("default", "fallthrough", "never", "downgrading")
METHODS = ("read_timeout", "write_timeout", "unavailable", "request_error")
ERRORS = ("overloaded", "bootstrapping", "truncate", "server", "connection_shutdown", "connection_error")

# replicas a fixed-count level blocks for (Cassandra ConsistencyLevel.blockFor); ANY is satisfied by
# a hint alone, i.e. by no replica at all
FIXED_NEED = {"ANY": 0, "ONE": 1, "LOCAL_ONE": 1, "TWO": 2, "THREE": 3}
# what the coordinator reports as "required" for those levels when no replica is pending
NOMINAL_REQUIRED = {"ANY": 1, "ONE": 1, "LOCAL_ONE": 1, "TWO": 2, "THREE": 3}


def is_serial(level):
    return level in SERIAL_LEVELS


def reportable(method, t):
    """Can a Cassandra coordinator report this failure description?

    * required >= 1, 0 <= received/alive.
    * write timeouts and unavailable: fewer acknowledgements / live replicas than required (that is
      what makes them a timeout / unavailable); read timeouts may have received >= required (digest
      mismatch / data not retrieved).
    * fixed-count levels report their own count as ``required``; writes (and their unavailable
      checks) add the pending replicas of a range movement (ConsistencyLevel.blockForWrite), so
      ``required`` may exceed the nominal count there, never fall below it.  Reads do not count
      pending replicas.
    * ANY is valid only for writes, is never unavailable (a hint suffices) and a timed-out plain write
      at ANY is hinted rather than reported: only write type BATCH is paired with ANY.
    * serial levels: reads, the Paxos phase of a conditional write (write type CAS) and unavailable.
    * data_retrieved implies at least one response.
    """
    if method == "request_error":
        return True
    cl, req, got = t["cl"], t["required"], t["received"]
    if req < 1 or got < 0:
        return False
    nominal = NOMINAL_REQUIRED.get(cl)
    if method == "read_timeout":
        if cl == "ANY":
            return False
        if nominal is not None and req != nominal:
            return False
        if t["data"] and got < 1:
            return False
        return True
    if nominal is not None and req < nominal:
        return False
    if got >= req:
        return False
    if method == "write_timeout":
        if is_serial(cl) and t["wt"] != "CAS":
            return False
        if cl == "ANY" and t["wt"] != "BATCH":
            # StorageProxy.mutate turns a timed-out ANY write into a hint instead of reporting it;
            # only the mutation phase of a logged batch (mutateAtomically) reports a timeout at ANY
            return False
        return True
    if method == "unavailable":
        return cl != "ANY"
    raise ValueError(method)


def need(level, requested, required):
    """Replicas `level` needs, as far as the failure description tells; None = unknown."""
    if level in FIXED_NEED:
        return FIXED_NEED[level]
    if level == requested:
        return required
    return None


def requested_strength(requested, required):
    """Upper bound on the replicas the *requested* level stands for: its fixed count, else what the
    coordinator said it needed."""
    if requested in FIXED_NEED:
        return FIXED_NEED[requested]
    return required


def downgrade_targets(requested, required, available):
    """Fixed-count levels that `available` replicas can satisfy and that are not stronger than the
    request."""
    cap = requested_strength(requested, required)
    out = set()
    for lvl in ("ONE", "LOCAL_ONE", "TWO", "THREE"):
        if FIXED_NEED[lvl] <= available and FIXED_NEED[lvl] <= cap and lvl != requested:
            out.add(lvl)
    return out


def _base(method, t):
    """RetryPolicy docstrings."""
    cl = t["cl"]
    if method == "request_error":
        # "By default, it triggers a retry on the next host in the query plan with the same
        # consistency level."  (retry_num deliberately not taken into account)
        return {(RETRY_NEXT_HOST, cl)}
    if method == "read_timeout":
        # "retried at most once, and only if a sufficient number of replicas responded (with data
        # digests)"
        if t["retry_num"] == 0 and t["received"] >= t["required"] and not t["data"]:
            return {(RETRY, cl)}
        return {(RETHROW, None)}
    if method == "write_timeout":
        # "retried at most once, and will only be retried if the write_type was BATCH_LOG"
        if t["retry_num"] == 0 and t["wt"] == "BATCH_LOG":
            return {(RETRY, cl)}
        return {(RETHROW, None)}
    if method == "unavailable":
        # "if this is the first retry, it triggers a retry on the next host in the query plan with the
        # same consistency level.  If this is not the first retry, no retries will be attempted"
        if t["retry_num"] == 0:
            return {(RETRY_NEXT_HOST, cl)}
        return {(RETHROW, None)}
    raise ValueError(method)


def _downgrading(method, t):
    cl = t["cl"]
    base = _base(method, t)
    if method == "request_error":
        return base
    if t["retry_num"] != 0:
        return {(RETHROW, None)}
    if method == "read_timeout":
        got, req = t["received"], t["required"]
        if is_serial(cl):
            # never downgraded; the base retry (enough digests, no data) or giving up
            return base | {(RETHROW, None)}
        if got < req:
            targets = downgrade_targets(cl, req, got)
            out = {(RETRY, lvl) for lvl in targets}
            if got <= 1 or not out:
                out.add((RETHROW, None))
            return out
        return base
    if method == "write_timeout":
        got, req, wt = t["received"], t["required"], t["wt"]
        if wt == "BATCH_LOG":
            return base
        if is_serial(cl):
            return {(RETHROW, None)} | ({(IGNORE, None)} if got > 0 else set())
        if wt == "UNLOGGED_BATCH":
            targets = downgrade_targets(cl, req, got) if got >= 1 else set()
            out = {(RETRY, lvl) for lvl in targets}
            if got >= 1 and cl in FIXED_NEED and FIXED_NEED[cl] <= got:
                # enough acknowledgements for the requested level itself (required was inflated by
                # pending replicas): retrying at the requested level is not a strengthening
                out.add((RETRY, cl))
            if not out:
                out.add((RETHROW, None))
            return out
        if wt in ("SIMPLE", "BATCH", "COUNTER"):
            return {(IGNORE, None)} if got > 0 else {(RETHROW, None)}
        # CAS / VIEW / CDC
        return {(RETHROW, None)} | ({(IGNORE, None)} if got > 0 else set())
    if method == "unavailable":
        alive, req = t["received"], t["required"]
        if is_serial(cl):
            return base
        out = set(base)
        if alive >= 1:
            out |= {(RETRY, lvl) for lvl in downgrade_targets(cl, req, alive)}
            if cl in FIXED_NEED and FIXED_NEED[cl] <= alive:
                out.add((RETRY, cl))
        else:
            out.add((RETHROW, None))
        return out
    raise ValueError(method)


def allowed(policy, method, t):
    """Set of documented outcomes, or None when nothing is documented for this (policy, method)."""
    if policy == "default":
        return _base(method, t)
    if policy == "fallthrough":
        # "A retry policy that never retries and always propagates failures to the application."
        return {(RETHROW, None)}
    if policy == "never":
        if method == "request_error":
            return None       # no docstring; the statement speaks of timeouts and unavailability only
        return {(RETHROW, None)}
    if policy == "downgrading":
        return _downgrading(method, t)
    raise ValueError(policy)


def normalise(decision, level, requested):
    """(decision name, returned level name or None) -> outcome comparable with allowed()."""
    if decision in (RETRY, RETRY_NEXT_HOST):
        return (decision, requested if level is None else level)
    return (decision, None)


def universal(policy, method, t, outcome):
    """Universal clauses of the statement.  Returns a list of (clause id, features, message)."""
    decision, eff = outcome
    bad = []
    retrying = decision in (RETRY, RETRY_NEXT_HOST)
    timeoutish = method in ("read_timeout", "write_timeout", "unavailable")
    if policy == "default" and timeoutish and retrying and t["retry_num"] >= 1:
        bad.append(("bounded", ["default", method], "default policy retries a second time (retry_num=%d)" % t["retry_num"]))
    if policy == "fallthrough" and decision != RETHROW:
        bad.append(("fallthrough", [method], "fall-through policy returned %s" % decision))
    if policy == "never" and timeoutish and decision != RETHROW:
        bad.append(("never", [method], "never-retry policy returned %s" % decision))
    if policy == "downgrading" and timeoutish:
        if retrying and t["retry_num"] >= 1:
            bad.append(("bounded", ["downgrading", method], "downgrading policy retries a second time (retry_num=%d)" % t["retry_num"]))
        cl = t["cl"]
        if retrying and eff != cl:
            if is_serial(cl):
                bad.append(("serial", [method], "serial level %s changed to %s" % (cl, eff)))
            else:
                n = need(eff, cl, t["required"])
                if is_serial(eff) or n is None:
                    bad.append(("target", [eff], "retry at %s: not a level whose replica need is known to be met" % eff))
                else:
                    if n > t["received"]:
                        bad.append(("replicas", [method], "retry at %s needs %d replicas, only %d responded/alive" % (
                            eff, n, t["received"])))
                    if n > requested_strength(cl, t["required"]):
                        feat = "pending-replicas" if (cl in NOMINAL_REQUIRED and t["required"] > NOMINAL_REQUIRED[cl]) else "nominal"
                        bad.append(("stronger", [feat], "requested %s, retried at the stronger level %s" % (cl, eff)))
    return bad
