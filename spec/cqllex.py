"""Independent CQL lexer: the token rules of Apache Cassandra's ``Lexer.g`` (3.11 - 5.0).

Imports nothing from ``cassandra.*``.  Written from the grammar, not from the driver.

    lex(text)            -> [Token(kind, value, text, start, end), ...]   (hidden channel dropped)
    lex(text, keep_hidden=True)  also returns WS / COMMENT tokens
    ident_value(token)   -> the identifier Cassandra reads (unquoted: lower-cased; quoted: "" unescaped)
                            or None when the token cannot stand where an identifier is expected
    is_ident(token)      -> bool (IDENT, QUOTED_NAME, EMPTY_QUOTED_NAME, or an *unreserved* keyword)
    string_value(token)  -> text of a STRING_LITERAL token
    quote_ident(name) / quote_string(s)   reference printers (always-quote identifier, '' escaping)

Token kinds
-----------
    IDENT              [a-zA-Z][a-zA-Z0-9_]*  that is not a keyword     value = text as written
    KEYWORD            any K_xxx of Lexer.g (case-insensitive)          value = UPPER-CASED keyword
                       (NaN and Infinity are the keywords NAN / INFINITY; the parser uses them as float
                       constants.  ``tok.value in RESERVED`` tells whether it may be used as a name.)
    BOOLEAN            true | false (case-insensitive)                  value = True / False
    QUOTED_NAME        "..." with "" escape, at least one character     value = unescaped, case kept
    EMPTY_QUOTED_NAME  ""                                               value = ""
    STRING_LITERAL     '...' with '' escape, or $$...$$                 value = the string
    INTEGER            -?[0-9]+                                         value = int
    FLOAT              INTEGER EXPONENT | INTEGER '.' DIGIT* EXPONENT?  value = text (exact; see cqlterm)
    HEXNUMBER          0[xX][0-9a-fA-F]*                                value = text
    UUID               8-4-4-4-12 hex                                   value = lower-cased text
    DURATION           1h30m / P1Y2M / P2W / P0001-01-01T00:00:00 ...   value = text
    QMARK              ?
    PUNCT              ; ( ) , . .. [ ] { } : = < <= > >= != + - * / % += -= @      value = text
    WS, COMMENT        only with keep_hidden=True

The lexer is longest-match with the rule order of Lexer.g breaking ties (keywords before BOOLEAN
before IDENT).  ``-`` directly followed by a digit is part of the number, exactly as in Lexer.g
(``INTEGER : '-'? DIGIT+``).  Anything that matches no rule raises LexError (unterminated string or
quoted name, stray character such as ``'`` ``"`` ``$`` ``#`` ``\\`` or any non-ASCII character outside
a quoted token).
"""
from __future__ import annotations

import re
from collections import namedtuple

Token = namedtuple("Token", "kind value text start end")


class LexError(ValueError):
    def __init__(self, msg, pos):
        ValueError.__init__(self, "%s at offset %d" % (msg, pos))
        self.pos = pos


# ---------------------------------------------------------------------------------------------
# keywords (every K_xxx of Lexer.g, 3.11 through 5.0; the token text, not the rule name)
# ---------------------------------------------------------------------------------------------
KEYWORDS = frozenset("""
SELECT FROM AS WHERE AND KEY KEYS ENTRIES FULL INSERT UPDATE WITH LIMIT PER PARTITION USING USE DISTINCT
COUNT SET BEGIN UNLOGGED BATCH APPLY TRUNCATE DELETE IN CREATE SCHEMA KEYSPACE KEYSPACES COLUMNFAMILY
TABLE TABLES MATERIALIZED VIEW INDEX CUSTOM ON TO DROP PRIMARY INTO VALUES TIMESTAMP TTL CAST ALTER
RENAME ADD TYPE TYPES COMPACT STORAGE ORDER BY ASC DESC ALLOW FILTERING IF IS CONTAINS GROUP CLUSTER
INTERNALS ONLY GRANT ALL PERMISSION PERMISSIONS OF REVOKE MODIFY AUTHORIZE DESCRIBE EXECUTE NORECURSIVE
MBEAN MBEANS USER USERS ROLE ROLES SUPERUSER NOSUPERUSER PASSWORD HASHED LOGIN NOLOGIN OPTIONS ACCESS
DATACENTERS CIDRS IDENTITY CLUSTERING ASCII BIGINT BLOB BOOLEAN COUNTER DECIMAL DOUBLE DURATION FLOAT
INET INT SMALLINT TINYINT TEXT UUID VARCHAR VARINT TIMEUUID TOKEN WRITETIME MAXWRITETIME DATE TIME NULL
NOT EXISTS MAP LIST NAN INFINITY TUPLE FROZEN VECTOR TRIGGER STATIC FUNCTION FUNCTIONS AGGREGATE
AGGREGATES SFUNC STYPE FINALFUNC INITCOND RETURNS CALLED INPUT LANGUAGE OR REPLACE JSON DEFAULT UNSET
LIKE MASKED UNMASK SELECT_MASKED BETWEEN ANN
""".split())

# org.apache.cassandra.cql3.ReservedKeywords (the words that can never be used unquoted as a name)
RESERVED = frozenset("""
SELECT FROM WHERE AND ENTRIES FULL INSERT UPDATE WITH LIMIT USING USE SET BEGIN UNLOGGED BATCH APPLY
TRUNCATE DELETE IN CREATE KEYSPACE SCHEMA COLUMNFAMILY TABLE MATERIALIZED VIEW INDEX ON TO DROP PRIMARY
INTO ALTER RENAME ADD ORDER BY ASC DESC ALLOW IF IS GRANT OF REVOKE MODIFY AUTHORIZE DESCRIBE EXECUTE
NORECURSIVE TOKEN NULL NOT NAN INFINITY OR REPLACE DEFAULT UNSET MBEAN MBEANS
""".split())

assert RESERVED <= KEYWORDS

UNRESERVED = KEYWORDS - RESERVED

# native type names (all unreserved keywords) -- used by the type parser in cqlterm
NATIVE_TYPES = frozenset("""ascii bigint blob boolean counter decimal double duration float inet int smallint
text timestamp tinyint uuid varchar varint timeuuid date time""".split())

_WS = " \t\n\r"
_DIGITS = "0123456789"
_LETTERS = "abcdefghijklmnopqrstuvwxyzABCDEFGHIJKLMNOPQRSTUVWXYZ"
_IDENT_REST = _LETTERS + _DIGITS + "_"

_RE_IDENT = re.compile(r"[a-zA-Z][a-zA-Z0-9_]*")
_RE_UUID = re.compile(r"[0-9a-fA-F]{8}-[0-9a-fA-F]{4}-[0-9a-fA-F]{4}-[0-9a-fA-F]{4}-[0-9a-fA-F]{12}")
_RE_HEX = re.compile(r"0[xX][0-9a-fA-F]*")
_RE_INTEGER = re.compile(r"-?[0-9]+")
_RE_FLOAT = re.compile(r"-?[0-9]+(?:[eE][+-]?[0-9]+|\.[0-9]*(?:[eE][+-]?[0-9]+)?)")
_UNIT = r"(?:[yY]|[mM][oO]|[wW]|[dD]|[hH]|[mM][sS]|[uU][sS]|µ[sS]|[nN][sS]|[mM]|[sS])"
_RE_DURATION = re.compile(
    r"-?[0-9]+" + _UNIT + r"(?:[0-9]+" + _UNIT + r")*"
    # the ISO 8601 forms are written with quoted (case-sensitive, upper-case) literals in Lexer.g
    r"|-?P[0-9]{4}-[0-9]{2}-[0-9]{2}T[0-9]{2}:[0-9]{2}:[0-9]{2}"
    r"|-?P[0-9]+W"
    r"|-?P(?:[0-9]+Y)?(?:[0-9]+M)?(?:[0-9]+D)?(?:T(?:[0-9]+H)?(?:[0-9]+M)?(?:[0-9]+S)?)?")
_PUNCT3 = ()
_PUNCT2 = ("<=", ">=", "!=", "+=", "-=", "..")
_PUNCT1 = ";(),.[]{}:=<>+-*/%@"


def _best(text, i):
    """longest match among the 'word-like' rules starting at i; returns (kind, end) or None"""
    cands = []
    c = text[i]
    if c in _LETTERS:
        m = _RE_IDENT.match(text, i)
        cands.append((m.end(), 1, "IDENT"))
    if c in _DIGITS or c == "-":
        m = _RE_INTEGER.match(text, i)
        if m:
            cands.append((m.end(), 4, "INTEGER"))
        m = _RE_FLOAT.match(text, i)
        if m:
            cands.append((m.end(), 3, "FLOAT"))
    if c == "0":
        m = _RE_HEX.match(text, i)
        if m:
            cands.append((m.end(), 5, "HEXNUMBER"))
    if c in "0123456789abcdefABCDEF":
        m = _RE_UUID.match(text, i)
        if m:
            cands.append((m.end(), 6, "UUID"))
    if c in _DIGITS or c in "-P":
        m = _RE_DURATION.match(text, i)
        # the ISO designator form matches a lone 'P' (all parts optional): Lexer.g has the same
        # property, and a lone P is then an IDENT by rule order -- require something after the P
        if m and m.end() > i and not re.fullmatch(r"-?PT?", m.group(0)):
            cands.append((m.end(), 2, "DURATION"))
    if not cands:
        return None
    # longest; on ties the kind listed first in Lexer.g wins: keywords/IDENT come before DURATION only
    # for pure letters, numeric kinds never tie with each other except INTEGER/DURATION prefixes
    cands.sort(key=lambda t: (-t[0], -t[1]))
    end, _prio, kind = cands[0]
    return kind, end


def lex(text, keep_hidden=False):
    if not isinstance(text, str):
        raise TypeError("lex() wants str")
    out = []
    i, n = 0, len(text)
    while i < n:
        c = text[i]
        # --- hidden channel
        if c in _WS:
            j = i
            while j < n and text[j] in _WS:
                j += 1
            if keep_hidden:
                out.append(Token("WS", None, text[i:j], i, j))
            i = j
            continue
        if text.startswith("--", i) or text.startswith("//", i):
            j = i
            while j < n and text[j] not in "\n\r":
                j += 1
            if j < n:
                j += 1
            if keep_hidden:
                out.append(Token("COMMENT", None, text[i:j], i, j))
            i = j
            continue
        if text.startswith("/*", i):
            j = text.find("*/", i + 2)
            if j < 0:
                raise LexError("unterminated /* comment", i)
            j += 2
            if keep_hidden:
                out.append(Token("COMMENT", None, text[i:j], i, j))
            i = j
            continue
        # --- strings and quoted names
        if c == "'":
            j = i + 1
            buf = []
            while True:
                if j >= n:
                    raise LexError("unterminated string literal", i)
                if text[j] == "'":
                    if j + 1 < n and text[j + 1] == "'":
                        buf.append("'")
                        j += 2
                        continue
                    j += 1
                    break
                buf.append(text[j])
                j += 1
            out.append(Token("STRING_LITERAL", "".join(buf), text[i:j], i, j))
            i = j
            continue
        if c == "$":
            if not text.startswith("$$", i):
                raise LexError("stray '$'", i)
            j = text.find("$$", i + 2)
            if j < 0:
                raise LexError("unterminated $$ string literal", i)
            out.append(Token("STRING_LITERAL", text[i + 2:j], text[i:j + 2], i, j + 2))
            i = j + 2
            continue
        if c == '"':
            if text.startswith('""', i) and not text.startswith('"""', i):
                out.append(Token("EMPTY_QUOTED_NAME", "", '""', i, i + 2))
                i += 2
                continue
            j = i + 1
            buf = []
            while True:
                if j >= n:
                    raise LexError("unterminated quoted name", i)
                if text[j] == '"':
                    if j + 1 < n and text[j + 1] == '"':
                        buf.append('"')
                        j += 2
                        continue
                    j += 1
                    break
                buf.append(text[j])
                j += 1
            if not buf:
                raise LexError("malformed quoted name", i)
            out.append(Token("QUOTED_NAME", "".join(buf), text[i:j], i, j))
            i = j
            continue
        if c == "?":
            out.append(Token("QMARK", "?", "?", i, i + 1))
            i += 1
            continue
        # --- words and numbers
        best = _best(text, i)
        if best is not None:
            kind, j = best
            raw = text[i:j]
            if kind == "IDENT":
                up = raw.upper()
                if up in KEYWORDS:
                    out.append(Token("KEYWORD", up, raw, i, j))
                elif up in ("TRUE", "FALSE"):
                    out.append(Token("BOOLEAN", up == "TRUE", raw, i, j))
                else:
                    out.append(Token("IDENT", raw, raw, i, j))
            elif kind == "INTEGER":
                out.append(Token("INTEGER", int(raw), raw, i, j))
            elif kind == "UUID":
                out.append(Token("UUID", raw.lower(), raw, i, j))
            else:
                out.append(Token(kind, raw, raw, i, j))
            i = j
            continue
        # --- punctuation
        two = text[i:i + 2]
        if two in _PUNCT2:
            out.append(Token("PUNCT", two, two, i, i + 2))
            i += 2
            continue
        if c in _PUNCT1:
            out.append(Token("PUNCT", c, c, i, i + 1))
            i += 1
            continue
        raise LexError("no viable token at %r" % text[i:i + 12], i)
    return out


def is_ident(tok):
    """may this token stand where the grammar wants an identifier (ident / cident / noncol_ident)?"""
    if tok.kind in ("IDENT", "QUOTED_NAME", "EMPTY_QUOTED_NAME"):
        return True
    return tok.kind == "KEYWORD" and tok.value not in RESERVED


def ident_value(tok):
    """the name Cassandra reads from an identifier token: unquoted names are lower-cased, quoted
    names keep their case with "" unescaped.  None if the token is not usable as an identifier
    (reserved keyword, BOOLEAN, number, ...)."""
    if tok.kind == "IDENT":
        return tok.text.lower()
    if tok.kind in ("QUOTED_NAME", "EMPTY_QUOTED_NAME"):
        return tok.value
    if tok.kind == "KEYWORD" and tok.value not in RESERVED:
        return tok.text.lower()
    return None


def is_quoted(tok):
    return tok.kind in ("QUOTED_NAME", "EMPTY_QUOTED_NAME")


def string_value(tok):
    if tok.kind != "STRING_LITERAL":
        return None
    return tok.value


def quote_ident(name):
    """reference printer: always quoted"""
    return '"' + name.replace('"', '""') + '"'


def quote_string(s):
    return "'" + s.replace("'", "''") + "'"


def needs_quotes(name):
    """True unless Cassandra reads the bare word ``name`` back as the identifier ``name``"""
    try:
        toks = lex(name)
    except LexError:
        return True
    return not (len(toks) == 1 and toks[0].start == 0 and toks[0].end == len(name)
                and not is_quoted(toks[0]) and ident_value(toks[0]) == name)
