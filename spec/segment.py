"""Reference implementation of the native-protocol v5 "framing" layer (segments).

Written from the protocol text (native_protocol_v5.spec, section 2 "Frame/segment
format" / 2.1 / 2.2) and deliberately importing nothing from ``cassandra.*``.

Wire format (all header integers little-endian):

  uncompressed segment (no compression negotiated)
      header   3 bytes = 24 bits:  bits 0..16 payload length, bit 17 self-contained flag,
                                   bits 18..23 zero padding
      CRC24    3 bytes over the 3 header bytes
      payload  <payload length> bytes
      CRC32    4 bytes over the payload

  compressed segment (compression negotiated in STARTUP)
      header   5 bytes = 40 bits:  bits 0..16 compressed length, bits 17..33 uncompressed
                                   length, bit 34 self-contained flag, bits 35..39 padding
      CRC24    3 bytes over the 5 header bytes
      payload  <compressed length> bytes
      CRC32    4 bytes over the (compressed) payload
    uncompressed length == 0  <=>  the sender chose not to compress this payload; the
    payload is then <compressed length> bytes of plain data.

  * maximum payload length (before compression) of one segment: 131071 = 2**17 - 1
  * CRC24: polynomial 0x1974F0B, initial value 0x875060, bytes taken in wire order, most
    significant bit of each byte first
  * CRC32: the ordinary (zlib / IEEE 802.3) CRC-32 computed over the four bytes
    FA 2D 55 CA followed by the payload
  * a self-contained segment carries one or more *whole* frames (envelopes); a frame larger
    than the maximum payload is cut into consecutive segments that are all marked not
    self-contained and carry nothing else.

The compression algorithm itself is a parameter: ``block_compress(data) -> block`` and
``block_decompress(block, uncompressed_length) -> data``.
"""
import struct
import zlib

MAX_PAYLOAD = 131071            # 2**17 - 1
LEN_BITS = 17
CRC24_POLY = 0x1974F0B
CRC24_INIT = 0x875060
CRC32_PREFIX = bytes([0xFA, 0x2D, 0x55, 0xCA])
HEADER_PLAIN = 3
HEADER_COMPRESSED = 5
TRAILER = 4
FRAME_HEADER_V5 = 9             # version, flags, stream(2), opcode, length(4)


class SegmentError(Exception):
    """The byte stream is not a valid sequence of segments (kind says why)."""

    def __init__(self, kind, msg=""):
        Exception.__init__(self, "%s: %s" % (kind, msg))
        self.kind = kind


# ---------------------------------------------------------------------------------------
# checksums
# ---------------------------------------------------------------------------------------

def crc24(data):
    """CRC-24 of `data` (bytes in wire order), MSB-first polynomial division."""
    reg = CRC24_INIT
    for byte in bytearray(data):
        for bit in range(7, -1, -1):
            top = (reg >> 23) & 1
            reg = (reg << 1) & 0xFFFFFF
            if top ^ ((byte >> bit) & 1):
                reg ^= CRC24_POLY & 0xFFFFFF
    return reg


def crc32(payload):
    return zlib.crc32(CRC32_PREFIX + bytes(payload)) & 0xFFFFFFFF


# ---------------------------------------------------------------------------------------
# one segment
# ---------------------------------------------------------------------------------------

def _le(value, size):
    return bytes((value >> (8 * i)) & 0xFF for i in range(size))


def _from_le(data):
    v = 0
    for i, b in enumerate(bytearray(data)):
        v |= b << (8 * i)
    return v


def header_size(compression):
    return (HEADER_COMPRESSED if compression else HEADER_PLAIN) + 3


def encode_header(payload_length, self_contained, compression=False, uncompressed_length=0):
    if not 0 <= payload_length <= MAX_PAYLOAD or not 0 <= uncompressed_length <= MAX_PAYLOAD:
        raise ValueError("length does not fit in 17 bits")
    if compression:
        word = payload_length | (uncompressed_length << LEN_BITS) | ((1 if self_contained else 0) << (2 * LEN_BITS))
        raw = _le(word, HEADER_COMPRESSED)
    else:
        word = payload_length | ((1 if self_contained else 0) << LEN_BITS)
        raw = _le(word, HEADER_PLAIN)
    return raw + _le(crc24(raw), 3)


def encode_segment(payload, self_contained, compression=False, wire_payload=None):
    """One segment.  Without compression `payload` goes on the wire as is.  With compression
    negotiated, `wire_payload` is the compressed block, or None when the sender leaves this
    segment uncompressed (uncompressed-length field 0)."""
    payload = bytes(payload)
    if len(payload) > MAX_PAYLOAD:
        raise ValueError("payload longer than one segment")
    if not compression:
        body = payload
        head = encode_header(len(body), self_contained)
    elif wire_payload is None:
        body = payload
        head = encode_header(len(body), self_contained, True, 0)
    else:
        body = bytes(wire_payload)
        if len(payload) == 0:
            raise ValueError("an empty payload cannot be sent compressed (length 0 means 'not compressed')")
        head = encode_header(len(body), self_contained, True, len(payload))
    return head + body + _le(crc32(body), 4)


# ---------------------------------------------------------------------------------------
# message list -> segment stream
# ---------------------------------------------------------------------------------------

def plan_segments(messages, group=None):
    """Split/pack `messages` (whole v5 frames as bytes) into segment payloads.

    Returns a list of (payload, self_contained, [message indices]).  A message longer than
    MAX_PAYLOAD is cut into non-self-contained pieces of MAX_PAYLOAD bytes (last one
    shorter).  Shorter messages go into self-contained segments; `group` is a tape of ints
    saying how many consecutive small messages the sender packs together (as long as they
    fit); default 1 each."""
    group = list(group or [])
    out = []
    i = 0
    gi = 0
    n = len(messages)
    while i < n:
        m = bytes(messages[i])
        if len(m) > MAX_PAYLOAD:
            for off in range(0, len(m), MAX_PAYLOAD):
                out.append((m[off:off + MAX_PAYLOAD], False, [i]))
            i += 1
            continue
        want = group[gi % len(group)] if group else 1
        gi += 1
        want = max(1, want)
        buf = m
        idx = [i]
        i += 1
        while len(idx) < want and i < n and len(messages[i]) <= MAX_PAYLOAD and len(buf) + len(messages[i]) <= MAX_PAYLOAD:
            buf += bytes(messages[i])
            idx.append(i)
            i += 1
        out.append((buf, True, idx))
    return out


def encode_segments(messages, compression=False, choose_uncompressed=None, compressor=None, group=None):
    """Encode whole frames into a segment stream.

    messages            list of bytes (each a complete v5 frame)
    compression         whether compression was negotiated (5-byte headers)
    choose_uncompressed tape of bools, one per segment (cycled): True = the sender leaves that
                        segment uncompressed.  A segment whose compressed block is not smaller
                        than the plain payload is always left uncompressed.
    compressor          block_compress(data) -> block      (required when compression)
    group               packing tape, see plan_segments

    Returns (stream_bytes, layout); layout is a list of dicts
        {start, header_end, payload_end, end, self_contained, compressed, messages, payload_len}
    with absolute byte offsets into the stream."""
    tape = list(choose_uncompressed or [])
    plan = plan_segments(messages, group)
    chunks = []
    layout = []
    pos = 0
    for k, (payload, sc, idx) in enumerate(plan):
        wire = None
        if compression:
            leave = tape[k % len(tape)] if tape else False
            if not leave and len(payload) > 0:
                block = compressor(payload)
                if len(block) < len(payload):
                    wire = block
        seg = encode_segment(payload, sc, compression, wire)
        hs = header_size(compression)
        chunks.append(seg)
        layout.append({"start": pos, "header_end": pos + hs, "payload_end": pos + len(seg) - TRAILER,
                       "end": pos + len(seg), "self_contained": sc, "compressed": wire is not None,
                       "messages": idx, "payload_len": len(payload)})
        pos += len(seg)
    return b"".join(chunks), layout


# ---------------------------------------------------------------------------------------
# segment stream -> segments -> messages
# ---------------------------------------------------------------------------------------

def decode_stream(data, compression=False, decompressor=None):
    """Strictly decode a complete segment stream.  Returns a list of dicts
    {payload, self_contained, compressed, start, end}.  Raises SegmentError on a bad CRC, a
    truncated segment, non-zero padding bits or a decompressed size that differs from the
    header."""
    data = bytes(data)
    out = []
    pos = 0
    hl = HEADER_COMPRESSED if compression else HEADER_PLAIN
    while pos < len(data):
        if len(data) - pos < hl + 3:
            raise SegmentError("truncated-header", "at %d" % pos)
        raw = data[pos:pos + hl]
        got = _from_le(data[pos + hl:pos + hl + 3])
        if got != crc24(raw):
            raise SegmentError("header-crc", "at %d: stored %06x computed %06x" % (pos, got, crc24(raw)))
        word = _from_le(raw)
        plen = word & MAX_PAYLOAD
        word >>= LEN_BITS
        if compression:
            ulen = word & MAX_PAYLOAD
            word >>= LEN_BITS
        else:
            ulen = 0
        sc = bool(word & 1)
        if word >> 1:
            raise SegmentError("padding", "non-zero padding bits in header at %d" % pos)
        p0 = pos + hl + 3
        if len(data) - p0 < plen + TRAILER:
            raise SegmentError("truncated-payload", "at %d" % pos)
        body = data[p0:p0 + plen]
        stored = _from_le(data[p0 + plen:p0 + plen + 4])
        if stored != crc32(body):
            raise SegmentError("payload-crc", "at %d" % pos)
        compressed = compression and ulen > 0
        if compressed:
            payload = decompressor(body, ulen)
            if len(payload) != ulen:
                raise SegmentError("uncompressed-length", "header says %d, block inflates to %d" % (ulen, len(payload)))
        else:
            payload = body
        out.append({"payload": payload, "self_contained": sc, "compressed": bool(compressed),
                    "start": pos, "end": p0 + plen + TRAILER})
        pos = p0 + plen + TRAILER
    return out


def frame_length(header9):
    """total length of the v5 frame whose first 9 bytes are given"""
    (blen,) = struct.unpack(">i", bytes(header9[5:9]))
    if blen < 0:
        raise SegmentError("frame-length", "negative body length")
    return FRAME_HEADER_V5 + blen


def reassemble(segments):
    """Segments (as returned by decode_stream) -> list of whole frames (bytes).  Strict about the
    self-contained rules: a self-contained payload is a whole number of frames; a run of
    non-self-contained payloads is exactly one frame."""
    out = []
    pending = None      # bytearray of a large frame being accumulated
    need = 0
    for seg in segments:
        p = seg["payload"]
        if seg["self_contained"]:
            if pending is not None:
                raise SegmentError("interleaved", "self-contained segment inside a multi-segment frame")
            off = 0
            while off < len(p):
                if len(p) - off < FRAME_HEADER_V5:
                    raise SegmentError("partial-frame", "self-contained segment ends inside a frame header")
                n = frame_length(p[off:off + FRAME_HEADER_V5])
                if off + n > len(p):
                    raise SegmentError("partial-frame", "self-contained segment ends inside a frame")
                out.append(bytes(p[off:off + n]))
                off += n
        else:
            if pending is None:
                if len(p) < FRAME_HEADER_V5:
                    raise SegmentError("partial-frame", "first piece shorter than a frame header")
                need = frame_length(p[:FRAME_HEADER_V5])
                pending = bytearray()
            pending += p
            if len(pending) > need:
                raise SegmentError("overrun", "multi-segment frame longer than its header says")
            if len(pending) == need:
                out.append(bytes(pending))
                pending = None
    if pending is not None:
        raise SegmentError("partial-frame", "stream ends inside a multi-segment frame")
    return out


def decode_messages(data, compression=False, decompressor=None):
    return reassemble(decode_stream(data, compression, decompressor))
