"""Independent reference for CQL *value* (de)serialisation -- imports nothing from cassandra.*.

Written from the native protocol specification (section 6 "Data type serialization formats" of
native_protocol_v3/v4/v5.spec) and from Cassandra's own serializers:

    IntegerSerializer     BigInteger.toByteArray(): minimal big-endian two's complement
    DecimalSerializer     int32 scale, then the unscaled value as a varint (above)
    VIntCoding            unsigned vint: (size-1) leading 1 bits in the first byte, big endian;
                          signed vint = unsigned vint of the 64-bit zig-zag of the value
    DurationSerializer    vint months (int32), vint days (int32), vint nanoseconds (int64)
    SimpleDateSerializer  uint32 = days since 1970-01-01 + 2**31
    TimeSerializer        int64 nanoseconds since midnight, 0 <= t <= 86399999999999
    TimestampSerializer   int64 milliseconds since the epoch
    CollectionSerializer  int32 n, then n (2n for maps) [bytes] elements: int32 length + bytes, length -1 = null.
                          Protocol v1/v2: *top-level* collections use uint16 counts/lengths (no nulls);
                          anything nested is always written in the v3 format.
    TupleType / UserType  the fields in order, each int32 length + bytes, -1 = null; trailing fields may be
                          missing (they read as null)
    VectorType            `dim` elements; fixed-width element types (valueLengthIfFixed) are concatenated raw,
                          variable-width ones are each prefixed by an *unsigned* vint size; no null elements
    frozen / reversed     transparent

======================================================================================================
PUBLIC API (stable; other checks import it)
======================================================================================================
Type trees (JSON-able dicts)
    {"t": <scalar>}                      scalar in SCALARS
    {"t":"list","of":T}  {"t":"set","of":T}  {"t":"map","k":T,"v":T}  {"t":"tuple","of":[T,...]}
    {"t":"udt","ks":str,"name":str,"fields":[[name,T],...]}   {"t":"vector","of":T,"dim":n}
    {"t":"frozen","of":T}  {"t":"reversed","of":T}
  constructors  T(name) t_list t_set t_map t_tuple t_udt t_vector t_frozen t_reversed
  core(tree)            strip frozen/reversed wrappers at the head
  depth(tree)           container nesting depth (scalars 0; frozen/reversed do not count)
  leaves(tree)          list of scalar names in the tree (with repetitions)
  contains(tree, name)  does a node with "t"==name occur;  contains_value(tree, value, name): ... with a non-null value
  fixed_width(tree)     Cassandra's valueLengthIfFixed (int) or None
  orderable(tree)       may be a set element (driver can sort + hash it);  keyable(tree): may be a map key
  cql_name(tree)        'map<int, frozen<list<text>>>'
  cass_name(tree)       'org.apache.cassandra.db.marshal.MapType(...)' (UDT names/fields hex encoded)

Tagged values (JSON-able), by type
    ascii text varchar   str                      blob            hex str
    tinyint smallint int bigint counter varint    int             boolean  bool
    float double         python float, or "nan" / "inf" / "-inf"  (float: float32 representable)
    decimal              [sign(0|1), "digits", exponent]          (value = (-1)**sign * int(digits) * 10**exponent)
    timestamp            int milliseconds since epoch             date   int days since epoch (signed)
    time                 int nanoseconds since midnight           duration [months, days, nanoseconds]
    inet                 canonical str(ipaddress.ip_address)      uuid timeuuid  32 hex digits
    list set vector      list            map  list of [k, v]      tuple udt      list (may be shorter than the type)
    null                 None            zero-length non-string cell (decode only):  EMPTY == {"empty": true}

Codec
    encode(tree, value, pv) -> bytes            (None for a top-level null; SpecError when not representable)
    decode(tree, data, pv, validate=True) -> tagged value in wire order (sets/short tuples kept as sent)
         validate=True  raises SpecError for everything Cassandra's serializer.validate() rejects
         validate=False mimics serializer.deserialize(): duration months/days are cast to int32, no range checks
    in_range(tree, value) -> bool               value is representable / valid for the type (recursive)
    uvint_encode/uvint_decode/vint_encode/vint_decode/zigzag/varint_encode/varint_decode   primitives

Comparison
    canon(tree, value)            canonical comparable form (sets sorted, tuples padded, floats by bits,
                                  decimal negative zero folded, EMPTY kept distinct from None)
    same(tree, a, b)              canon equality
    diffs(tree, a, b) -> [ {"path","leaf","kind","a","b","parent"} ]   kinds: value | null | null-as-empty | empty-as-null |
                                  length | sub-ms-drift   (a = expected, b = observed)

Python objects
    to_python(tree, value, style=0, factory=None, hashable=False)   object to hand to a driver
         style 0 canonical (set/dict/list/tuple, datetime, str inet, factory Date/Time)
         style 1 stdlib alternates (datetime.date/time when exact, ipaddress, frozenset, tuple for list, UDT namedtuple)
         style 2 driver containers / raw ints (factory.sorted_set / ordered_map, UDT attribute object, int ms,
                 int wire date, int nanos, exploded IPv6 text)
         style 3 as style 0, but timestamps are timezone-AWARE datetimes with a fixed non-trivial UTC offset
                 (aware_datetime(ms); offsets TZ_OFFSETS_MIN) -- the documented normalisation is aware -> naive UTC,
                 so the tagged millisecond instant must survive
         style 4 as style 0, but alternate accepted spellings: date as 'yyyy-mm-dd' string or as datetime.datetime
                 with a non-midnight time of day (date_as_datetime / derived_time_of_day_us), time as
                 'HH:MM:SS.nnnnnnnnn', timestamp as datetime.date (midnights) or float ms, decimal as int / numeric str;
                 spelling_features(tree, value, style) names the spellings a value actually gets
         factory supplies date(days) time(nanos) duration(m,d,n) ordered_map(pairs) sorted_set(items)
                 udt_tuple(tree, values) udt_object(tree, values)   (see checks/_drv.py for the cassandra one)
    normalise(tree, obj) -> tagged value  (NormaliseError when obj has the wrong Python type for the tree)

Hypothesis strategies
    type_trees(max_depth=3, top_level=True, vectors=True, udts=True, wrappers=True, scalars=SCALARS)
    value_for(tree, nulls=True, short_tuples=True, max_len=4, key_position=False, short_udts=False)
    typed_values(max_depth=3, nulls=True, short_tuples=True, max_len=4, short_udts=False, **type_trees_kw) -> (tree, value)
    ukey(tree, value)                  hashable identity under Python equality of the built objects
    features(tree, value, pv=None)     set of boundary-class labels ("int-boundary", "null-inside", ...)
    PROTOCOL_VERSIONS, protocol_versions()

self_test() pins the reference against the fixed vectors of /repo/tests/unit/test_marshalling.py and
test_types.py (transcribed below); a disagreement raises AssertionError (harness error, exit 2).
"""
from __future__ import annotations

import datetime
import decimal
import ipaddress
import json
import struct
import uuid as _uuid

from hypothesis import strategies as st

# ---------------------------------------------------------------------------------------------------
# type trees
# ---------------------------------------------------------------------------------------------------

SCALARS = ("ascii", "bigint", "blob", "boolean", "counter", "date", "decimal", "double", "duration",
           "float", "inet", "int", "smallint", "text", "varchar", "time", "timestamp", "timeuuid",
           "tinyint", "uuid", "varint")
_SCALAR_SET = frozenset(SCALARS)
_STRINGY = frozenset(("ascii", "text", "varchar", "blob"))
_INT_WIDTH = {"tinyint": 1, "smallint": 2, "int": 4, "bigint": 8, "counter": 8}

PROTOCOL_VERSIONS = (1, 2, 3, 4, 5, 6, 0x41, 0x42)

EMPTY = {"empty": True}

_CASS = {"ascii": "AsciiType", "bigint": "LongType", "blob": "BytesType", "boolean": "BooleanType",
         "counter": "CounterColumnType", "date": "SimpleDateType", "decimal": "DecimalType",
         "double": "DoubleType", "duration": "DurationType", "float": "FloatType",
         "inet": "InetAddressType", "int": "Int32Type", "smallint": "ShortType", "text": "UTF8Type",
         "varchar": "UTF8Type", "time": "TimeType", "timestamp": "TimestampType",
         "timeuuid": "TimeUUIDType", "tinyint": "ByteType", "uuid": "UUIDType", "varint": "IntegerType"}
_CASS_PREFIX = "org.apache.cassandra.db.marshal."

# Cassandra 4.x/5.0 AbstractType.valueLengthIfFixed(): everything else is VARIABLE_LENGTH (notably
# tinyint, smallint, date and time are *variable* there)
_FIXED = {"boolean": 1, "float": 4, "double": 8, "bigint": 8, "counter": 8, "int": 4, "timestamp": 8,
          "uuid": 16, "timeuuid": 16}


class SpecError(Exception):
    """the reference refuses: not representable (encode) / rejected by Cassandra's validate (decode)"""


class NormaliseError(Exception):
    """object handed to normalise() does not have the Python shape the type tree calls for"""


def T(name):
    if name not in _SCALAR_SET:
        raise ValueError("not a scalar CQL type: %r" % (name,))
    return {"t": name}


def t_list(of):
    return {"t": "list", "of": of}


def t_set(of):
    return {"t": "set", "of": of}


def t_map(k, v):
    return {"t": "map", "k": k, "v": v}


def t_tuple(of):
    return {"t": "tuple", "of": list(of)}


def t_udt(ks, name, fields):
    return {"t": "udt", "ks": ks, "name": name, "fields": [[n, t] for n, t in fields]}


def t_vector(of, dim):
    return {"t": "vector", "of": of, "dim": int(dim)}


def t_frozen(of):
    return {"t": "frozen", "of": of}


def t_reversed(of):
    return {"t": "reversed", "of": of}


def core(tree):
    while tree["t"] in ("frozen", "reversed"):
        tree = tree["of"]
    return tree


def children(tree):
    t = tree["t"]
    if t in ("list", "set", "vector", "frozen", "reversed"):
        return [tree["of"]]
    if t == "map":
        return [tree["k"], tree["v"]]
    if t == "tuple":
        return list(tree["of"])
    if t == "udt":
        return [f[1] for f in tree["fields"]]
    return []


def depth(tree):
    t = tree["t"]
    if t in ("frozen", "reversed"):
        return depth(tree["of"])
    ch = children(tree)
    if not ch and t in _SCALAR_SET:
        return 0
    return 1 + max([depth(c) for c in ch] or [0])


def leaves(tree):
    if tree["t"] in _SCALAR_SET:
        return [tree["t"]]
    out = []
    for c in children(tree):
        out.extend(leaves(c))
    return out


def contains(tree, name):
    if tree["t"] == name:
        return True
    return any(contains(c, name) for c in children(tree))


def contains_value(tree, v, name):
    """does the tagged value v hold at least one non-null value of scalar type `name`"""
    if v is None or _is_empty(v):
        return False
    t = tree["t"]
    if t == name:
        return True
    if t in _SCALAR_SET:
        return False
    if t in ("frozen", "reversed"):
        return contains_value(tree["of"], v, name)
    if t in ("list", "set", "vector"):
        return any(contains_value(tree["of"], x, name) for x in v)
    if t == "map":
        return any(contains_value(tree["k"], k, name) or contains_value(tree["v"], x, name) for k, x in v)
    subs = tree["of"] if t == "tuple" else [f[1] for f in tree["fields"]]
    return any(contains_value(sub, x, name) for sub, x in zip(subs, v))


def fixed_width(tree):
    tree = core(tree)
    t = tree["t"]
    if t in _SCALAR_SET:
        return _FIXED.get(t)
    if t == "vector":
        w = fixed_width(tree["of"])
        return None if w is None else w * tree["dim"]
    return None


def orderable(tree):
    """may be a set element: the driver's SortedSet can order it and a Python set can hash it"""
    tree = core(tree)
    t = tree["t"]
    if t in _SCALAR_SET:
        return t not in ("duration", "counter")
    if t == "map":
        return False
    return all(orderable(c) for c in children(tree))


def keyable(tree):
    """may be a map key (OrderedMap also takes unhashable keys such as maps)"""
    tree = core(tree)
    if tree["t"] == "map":
        return keyable(tree["k"]) and keyable(tree["v"])
    if tree["t"] in _SCALAR_SET:
        return tree["t"] not in ("duration", "counter")
    return all(keyable(c) for c in children(tree))


def cql_name(tree):
    t = tree["t"]
    if t in _SCALAR_SET:
        return t
    if t in ("list", "set"):
        return "%s<%s>" % (t, cql_name(tree["of"]))
    if t == "map":
        return "map<%s, %s>" % (cql_name(tree["k"]), cql_name(tree["v"]))
    if t == "tuple":
        return "tuple<%s>" % ", ".join(cql_name(c) for c in tree["of"])
    if t == "udt":
        return tree["name"]
    if t == "vector":
        return "vector<%s, %d>" % (cql_name(tree["of"]), tree["dim"])
    if t == "frozen":
        return "frozen<%s>" % cql_name(tree["of"])
    if t == "reversed":
        return cql_name(tree["of"])
    raise ValueError(t)


def _hex(s):
    return s.encode("utf-8").hex()


def cass_name(tree, full=True):
    p = _CASS_PREFIX if full else ""
    t = tree["t"]
    if t in _SCALAR_SET:
        return p + _CASS[t]
    if t == "list":
        return "%sListType(%s)" % (p, cass_name(tree["of"], full))
    if t == "set":
        return "%sSetType(%s)" % (p, cass_name(tree["of"], full))
    if t == "map":
        return "%sMapType(%s,%s)" % (p, cass_name(tree["k"], full), cass_name(tree["v"], full))
    if t == "tuple":
        return "%sTupleType(%s)" % (p, ",".join(cass_name(c, full) for c in tree["of"]))
    if t == "udt":
        parts = [tree["ks"], _hex(tree["name"])] + ["%s:%s" % (_hex(n), cass_name(c, full)) for n, c in tree["fields"]]
        return "%sUserType(%s)" % (p, ",".join(parts))
    if t == "vector":
        return "%sVectorType(%s, %d)" % (p, cass_name(tree["of"], full), tree["dim"])
    if t == "frozen":
        return "%sFrozenType(%s)" % (p, cass_name(tree["of"], full))
    if t == "reversed":
        return "%sReversedType(%s)" % (p, cass_name(tree["of"], full))
    raise ValueError(t)


# ---------------------------------------------------------------------------------------------------
# primitives
# ---------------------------------------------------------------------------------------------------

_M64 = (1 << 64) - 1


def varint_encode(n):
    """java.math.BigInteger.toByteArray()"""
    bits = n.bit_length() if n >= 0 else (~n).bit_length()
    return n.to_bytes(bits // 8 + 1, "big", signed=True)


def varint_decode(b):
    if len(b) == 0:
        raise SpecError("zero-length varint")
    return int.from_bytes(b, "big", signed=True)


def uvint_encode(v):
    """VIntCoding.writeUnsignedVInt"""
    if not 0 <= v <= _M64:
        raise SpecError("unsigned vint out of 64-bit range: %d" % v)
    size = 9
    for s in range(1, 9):
        if v < (1 << (7 * s)):
            size = s
            break
    if size == 9:
        return b"\xff" + v.to_bytes(8, "big")
    raw = bytearray(v.to_bytes(size, "big"))
    extra = size - 1
    raw[0] |= (0xFF << (8 - extra)) & 0xFF
    return bytes(raw)


def uvint_decode(b, pos=0):
    """-> (value, new position)"""
    if pos >= len(b):
        raise SpecError("vint: no bytes left")
    first = b[pos]
    if first < 0x80:
        return first, pos + 1
    extra = 0
    while extra < 8 and first & (0x80 >> extra):
        extra += 1
    if pos + 1 + extra > len(b):
        raise SpecError("vint: truncated")
    v = first & (0xFF >> extra) if extra < 8 else 0
    for i in range(extra):
        v = (v << 8) | b[pos + 1 + i]
    return v, pos + 1 + extra


def zigzag(n):
    if not -(1 << 63) <= n < (1 << 63):
        raise SpecError("signed vint out of int64 range: %d" % n)
    return ((n << 1) ^ (n >> 63)) & _M64


def unzigzag(u):
    return (u >> 1) ^ -(u & 1)


def vint_encode(n):
    return uvint_encode(zigzag(n))


def vint_decode(b, pos=0):
    u, pos = uvint_decode(b, pos)
    return unzigzag(u), pos


def _i32(n):
    return ((n + (1 << 31)) & 0xFFFFFFFF) - (1 << 31)


def _float_from_tag(v):
    if isinstance(v, str):
        return {"nan": float("nan"), "inf": float("inf"), "-inf": float("-inf")}[v]
    return float(v)


def _float_to_tag(f):
    if f != f:
        return "nan"
    if f == float("inf"):
        return "inf"
    if f == float("-inf"):
        return "-inf"
    return f


_DAY_NANOS = 86400 * 10 ** 9
MIN_TIMESTAMP_MS = -62135596800000      # 0001-01-01T00:00:00.000
MAX_TIMESTAMP_MS = 253402300799999      # 9999-12-31T23:59:59.999
_EPOCH = datetime.datetime(1970, 1, 1)
_EPOCH_DATE = datetime.date(1970, 1, 1)
MIN_PYDATE_DAYS = (datetime.date.min - _EPOCH_DATE).days   # -719162
MAX_PYDATE_DAYS = (datetime.date.max - _EPOCH_DATE).days   # 2932896


# ---------------------------------------------------------------------------------------------------
# encode
# ---------------------------------------------------------------------------------------------------

def encode(tree, value, pv):
    """bytes Cassandra's serializer produces for `value` of type `tree` on protocol version pv
    (None for a top-level null)."""
    if value is None:
        return None
    return _enc(tree, value, pv, True)


def _enc_scalar(t, v):
    if t in ("text", "varchar"):
        return v.encode("utf-8")
    if t == "ascii":
        try:
            return v.encode("ascii")
        except UnicodeEncodeError:
            raise SpecError("non-ASCII character in ascii value")
    if t == "blob":
        return bytes.fromhex(v)
    if t == "boolean":
        if not isinstance(v, bool):
            raise SpecError("boolean expects bool")
        return b"\x01" if v else b"\x00"
    if t in _INT_WIDTH:
        try:
            return int(v).to_bytes(_INT_WIDTH[t], "big", signed=True)
        except OverflowError:
            raise SpecError("%s out of range: %d" % (t, v))
    if t == "varint":
        return varint_encode(int(v))
    if t == "float":
        f = _float_from_tag(v)
        try:
            return struct.pack(">f", f)
        except OverflowError:
            raise SpecError("float32 overflow")
    if t == "double":
        return struct.pack(">d", _float_from_tag(v))
    if t == "decimal":
        sign, digits, exp = v
        unscaled = int(digits) * (-1 if sign else 1)
        scale = -exp
        if not -(1 << 31) <= scale < (1 << 31):
            raise SpecError("decimal scale out of int32 range")
        return scale.to_bytes(4, "big", signed=True) + varint_encode(unscaled)
    if t == "timestamp":
        try:
            return int(v).to_bytes(8, "big", signed=True)
        except OverflowError:
            raise SpecError("timestamp out of int64 range")
    if t == "date":
        u = v + (1 << 31)
        if not 0 <= u < (1 << 32):
            raise SpecError("date out of range")
        return u.to_bytes(4, "big")
    if t == "time":
        if not 0 <= v < _DAY_NANOS:
            raise SpecError("time out of range")
        return v.to_bytes(8, "big", signed=True)
    if t == "duration":
        m, d, n = v
        if not (-(1 << 31) <= m < (1 << 31) and -(1 << 31) <= d < (1 << 31)):
            raise SpecError("duration months/days out of int32 range")
        if not ((m >= 0 and d >= 0 and n >= 0) or (m <= 0 and d <= 0 and n <= 0)):
            raise SpecError("duration components of mixed sign")
        return vint_encode(m) + vint_encode(d) + vint_encode(n)
    if t == "inet":
        return ipaddress.ip_address(v).packed
    if t in ("uuid", "timeuuid"):
        b = bytes.fromhex(v)
        if len(b) != 16:
            raise SpecError("uuid needs 16 bytes")
        return b
    raise ValueError("unknown scalar %r" % (t,))


def _pack_len(n, width):
    if width == 2:
        if not 0 <= n <= 0xFFFF:
            raise SpecError("length %d does not fit the 16-bit width of protocol v1/v2 collections" % n)
        return n.to_bytes(2, "big")
    if not -(1 << 31) <= n < (1 << 31):
        raise SpecError("length out of int32")
    return n.to_bytes(4, "big", signed=True)


def _enc_bytes(tree, el, width):
    """[bytes] of a nested element"""
    if el is None:
        if width == 2:
            raise SpecError("null element not representable in a protocol v1/v2 top-level collection")
        return _pack_len(-1, width)
    b = _enc(tree, el, 3, False)
    return _pack_len(len(b), width) + b


def _enc(tree, v, pv, top):
    t = tree["t"]
    if t in _SCALAR_SET:
        return _enc_scalar(t, v)
    if t in ("frozen", "reversed"):
        return _enc(tree["of"], v, pv, top)
    if t in ("list", "set"):
        width = 2 if (top and pv < 3) else 4
        out = [_pack_len(len(v), width)]
        for el in v:
            out.append(_enc_bytes(tree["of"], el, width))
        return b"".join(out)
    if t == "map":
        width = 2 if (top and pv < 3) else 4
        out = [_pack_len(len(v), width)]
        for k, val in v:
            out.append(_enc_bytes(tree["k"], k, width))
            out.append(_enc_bytes(tree["v"], val, width))
        return b"".join(out)
    if t in ("tuple", "udt"):
        subs = tree["of"] if t == "tuple" else [f[1] for f in tree["fields"]]
        if len(v) > len(subs):
            raise SpecError("%d values for a %s of %d fields" % (len(v), t, len(subs)))
        return b"".join(_enc_bytes(sub, el, 4) for sub, el in zip(subs, v))
    if t == "vector":
        if len(v) != tree["dim"]:
            raise SpecError("vector of dimension %d given %d elements" % (tree["dim"], len(v)))
        w = fixed_width(tree["of"])
        out = []
        for el in v:
            if el is None:
                raise SpecError("null vector element")
            b = _enc(tree["of"], el, 3, False)
            if w is None:
                out.append(uvint_encode(len(b)))
            elif len(b) != w:
                raise SpecError("fixed-width element of %d bytes, expected %d" % (len(b), w))
            out.append(b)
        return b"".join(out)
    raise ValueError("unknown type node %r" % (t,))


def in_range(tree, value):
    try:
        encode(tree, value, 4)
        return True
    except SpecError:
        return False


# ---------------------------------------------------------------------------------------------------
# decode
# ---------------------------------------------------------------------------------------------------

def decode(tree, data, pv, validate=True):
    if data is None:
        return None
    return _dec(tree, bytes(data), pv, True, validate)


def _need(b, n, what):
    if len(b) != n:
        raise SpecError("%s expects %d bytes, got %d" % (what, n, len(b)))


def _dec_scalar(t, b, validate):
    if t in ("text", "varchar"):
        try:
            return b.decode("utf-8")
        except UnicodeDecodeError:
            raise SpecError("invalid UTF-8")
    if t == "ascii":
        if any(x > 127 for x in b):
            raise SpecError("non-ASCII byte")
        return b.decode("ascii")
    if t == "blob":
        return b.hex()
    if len(b) == 0:
        return dict(EMPTY)
    if t == "boolean":
        _need(b, 1, t)
        return b[0] != 0
    if t in _INT_WIDTH:
        _need(b, _INT_WIDTH[t], t)
        return int.from_bytes(b, "big", signed=True)
    if t == "varint":
        return varint_decode(b)
    if t == "float":
        _need(b, 4, t)
        return _float_to_tag(struct.unpack(">f", b)[0])
    if t == "double":
        _need(b, 8, t)
        return _float_to_tag(struct.unpack(">d", b)[0])
    if t == "decimal":
        if len(b) < 5:
            raise SpecError("decimal needs at least 5 bytes")
        scale = int.from_bytes(b[:4], "big", signed=True)
        unscaled = int.from_bytes(b[4:], "big", signed=True)
        return [1 if unscaled < 0 else 0, str(abs(unscaled)), -scale]
    if t == "timestamp":
        _need(b, 8, t)
        return int.from_bytes(b, "big", signed=True)
    if t == "date":
        _need(b, 4, t)
        return int.from_bytes(b, "big") - (1 << 31)
    if t == "time":
        _need(b, 8, t)
        n = int.from_bytes(b, "big", signed=True)
        if validate and not 0 <= n < _DAY_NANOS:
            raise SpecError("time out of range: %d" % n)
        return n
    if t == "duration":
        m, p = vint_decode(b, 0)
        d, p = vint_decode(b, p)
        n, p = vint_decode(b, p)
        if p != len(b):
            raise SpecError("trailing bytes after duration")
        if validate:
            if m != _i32(m) or d != _i32(d):
                raise SpecError("duration months/days beyond int32")
            if not ((m >= 0 and d >= 0 and n >= 0) or (m <= 0 and d <= 0 and n <= 0)):
                raise SpecError("duration components of mixed sign")
        return [_i32(m), _i32(d), n]
    if t == "inet":
        if len(b) not in (4, 16):
            raise SpecError("inet needs 4 or 16 bytes")
        return str(ipaddress.ip_address(b))
    if t in ("uuid", "timeuuid"):
        _need(b, 16, t)
        if validate and t == "timeuuid" and (b[6] & 0xF0) != 0x10:
            raise SpecError("timeuuid is not version 1")
        return b.hex()
    raise ValueError("unknown scalar %r" % (t,))


def _read_len(b, p, width):
    if p + width > len(b):
        raise SpecError("truncated length")
    if width == 2:
        return int.from_bytes(b[p:p + 2], "big"), p + 2
    return int.from_bytes(b[p:p + 4], "big", signed=True), p + 4


def _read_bytes(tree, b, p, width, validate):
    n, p = _read_len(b, p, width)
    if n < 0:
        return None, p
    if p + n > len(b):
        raise SpecError("element of %d bytes overruns the buffer" % n)
    return _dec(tree, b[p:p + n], 3, False, validate), p + n


def _dec(tree, b, pv, top, validate):
    t = tree["t"]
    if t in _SCALAR_SET:
        return _dec_scalar(t, b, validate)
    if t in ("frozen", "reversed"):
        return _dec(tree["of"], b, pv, top, validate)
    if len(b) == 0 and not (t == "vector" and tree["dim"] == 0):
        return dict(EMPTY)
    if t in ("list", "set", "map"):
        width = 2 if (top and pv < 3) else 4
        n, p = _read_len(b, 0, width)
        if n < 0:
            raise SpecError("negative element count")
        out = []
        for _ in range(n):
            if t == "map":
                k, p = _read_bytes(tree["k"], b, p, width, validate)
                v, p = _read_bytes(tree["v"], b, p, width, validate)
                out.append([k, v])
            else:
                el, p = _read_bytes(tree["of"], b, p, width, validate)
                out.append(el)
        if p != len(b):
            raise SpecError("extraneous bytes after %s" % t)
        return out
    if t in ("tuple", "udt"):
        subs = tree["of"] if t == "tuple" else [f[1] for f in tree["fields"]]
        out, p = [], 0
        for sub in subs:
            if p == len(b):
                break
            el, p = _read_bytes(sub, b, p, 4, validate)
            out.append(el)
        if p != len(b):
            raise SpecError("extraneous bytes after %s" % t)
        return out
    if t == "vector":
        w = fixed_width(tree["of"])
        out, p = [], 0
        if w is not None:
            if len(b) != w * tree["dim"]:
                raise SpecError("fixed-width vector of %d bytes, expected %d" % (len(b), w * tree["dim"]))
            for i in range(tree["dim"]):
                out.append(_dec(tree["of"], b[i * w:(i + 1) * w], 3, False, validate))
            return out
        for _ in range(tree["dim"]):
            n, p = uvint_decode(b, p)
            if p + n > len(b):
                raise SpecError("vector element overruns the buffer")
            out.append(_dec(tree["of"], b[p:p + n], 3, False, validate))
            p += n
        if p != len(b):
            raise SpecError("extraneous bytes after vector")
        return out
    raise ValueError("unknown type node %r" % (t,))


# ---------------------------------------------------------------------------------------------------
# canonical comparison
# ---------------------------------------------------------------------------------------------------

def _is_empty(v):
    return isinstance(v, dict) and v.get("empty") is True


def _canon_scalar(t, v):
    if t == "float":
        return "f32:" + struct.pack(">f", _float_from_tag(v)).hex() if not isinstance(v, dict) else v
    if t == "double":
        return "f64:" + struct.pack(">d", _float_from_tag(v)).hex() if not isinstance(v, dict) else v
    if t == "decimal" and isinstance(v, (list, tuple)):
        sign, digits, exp = v
        digits = str(int(digits))
        if digits == "0":
            sign = 0
        return ["dec", int(sign), digits, int(exp)]
    if t == "inet" and isinstance(v, str):
        return str(ipaddress.ip_address(v))
    if t in ("uuid", "timeuuid", "blob") and isinstance(v, str):
        return v.lower()
    if t == "duration" and isinstance(v, (list, tuple)):
        return [int(x) for x in v]
    return v


def canon(tree, v):
    if v is None or _is_empty(v):
        return v
    t = tree["t"]
    if t in _SCALAR_SET:
        return _canon_scalar(t, v)
    if t in ("frozen", "reversed"):
        return canon(tree["of"], v)
    if t in ("list", "vector"):
        return [canon(tree["of"], x) for x in v]
    if t == "set":
        els = [canon(tree["of"], x) for x in v]
        els.sort(key=_sort_key)
        return els
    if t == "map":
        return [[canon(tree["k"], k), canon(tree["v"], x)] for k, x in v]
    if t in ("tuple", "udt"):
        subs = tree["of"] if t == "tuple" else [f[1] for f in tree["fields"]]
        out = [canon(sub, x) for sub, x in zip(subs, v)]
        out += [None] * (len(subs) - len(out))
        if len(v) > len(subs):
            out += ["<extra>"] * (len(v) - len(subs))
        return out
    raise ValueError(t)


def _sort_key(c):
    return json.dumps(c, sort_keys=True)


def same(tree, a, b):
    return canon(tree, a) == canon(tree, b)


def diffs(tree, a, b, limit=8):
    """structural differences between expected a and observed b (tagged values); every record carries the
    kind of container the differing position lives in ("parent": list|set|map|tuple|udt|vector|None)"""
    out = []
    _diff(tree, canon(tree, a), canon(tree, b), [], out, limit, None)
    return out


def _leafname(tree):
    return core(tree)["t"]


def _diff(tree, a, b, path, out, limit, parent):
    if len(out) >= limit or a == b:
        return
    t = tree["t"]
    if t in ("frozen", "reversed"):
        return _diff(tree["of"], a, b, path, out, limit, parent)

    def rec(leaf, kind, x, y):
        out.append({"path": list(path), "leaf": leaf, "kind": kind, "a": x, "b": y, "parent": parent})

    if a is None or b is None or _is_empty(a) or _is_empty(b):
        kind = "null"
        if a is None and (_is_empty(b) or (t in _STRINGY and b == "")):
            kind = "null-as-empty"
        elif b is None and t in _STRINGY and a == "":
            kind = "empty-as-null"
        rec(_leafname(tree), kind, a, b)
        return
    if t in _SCALAR_SET:
        kind = "value"
        if t == "timestamp" and isinstance(b, dict) and "micros" in b and isinstance(a, int):
            if abs(b["micros"] - a * 1000) < 1000:
                kind = "sub-ms-drift"
        rec(t, kind, a, b)
        return
    if not isinstance(a, list) or not isinstance(b, list):
        rec(t, "value", a, b)
        return
    if len(a) != len(b):
        rec(t, "length", len(a), len(b))
        return
    if t == "set":
        # compare as multisets: drop the common elements, pair what is left over in canonical order
        kb = [_sort_key(y) for y in b]
        rest_a = []
        for x in a:
            k = _sort_key(x)
            if k in kb:
                kb.remove(k)
            else:
                rest_a.append(x)
        rest_b = sorted((json.loads(k) for k in kb), key=_sort_key)
        for x, y in zip(rest_a, rest_b):
            _diff(tree["of"], x, y, path + ["*"], out, limit, "set")
    elif t in ("list", "vector"):
        for i, (x, y) in enumerate(zip(a, b)):
            _diff(tree["of"], x, y, path + [i], out, limit, t)
    elif t == "map":
        for i, (x, y) in enumerate(zip(a, b)):
            _diff(tree["k"], x[0], y[0], path + [i, "k"], out, limit, "map")
            _diff(tree["v"], x[1], y[1], path + [i, "v"], out, limit, "map")
    else:
        subs = tree["of"] if t == "tuple" else [f[1] for f in tree["fields"]]
        for i, (sub, x, y) in enumerate(zip(subs, a, b)):
            _diff(sub, x, y, path + [i], out, limit, t)
        if len(a) > len(subs):
            rec(t, "length", len(a), len(b))


# ---------------------------------------------------------------------------------------------------
# python objects
# ---------------------------------------------------------------------------------------------------

class PlainFactory(object):
    """stdlib-only factory: what can be expressed without driver classes; the rest raises"""

    def date(self, days):
        return _EPOCH_DATE + datetime.timedelta(days=days)

    def time(self, nanos):
        if nanos % 1000:
            return nanos
        return _pytime(nanos)

    def duration(self, m, d, n):
        raise NotImplementedError("duration needs a driver class; pass a factory")

    def ordered_map(self, pairs):
        return dict(pairs)

    def sorted_set(self, items):
        return list(items)

    def udt_tuple(self, tree, values):
        return tuple(values)

    def udt_object(self, tree, values):
        return tuple(values)


def _pytime(nanos):
    micro = nanos // 1000
    return datetime.time(micro // 3600000000, micro // 60000000 % 60, micro // 1000000 % 60, micro % 1000000)


def pydatetime(ms):
    """naive UTC datetime of a millisecond timestamp (exact integer arithmetic)"""
    return _EPOCH + datetime.timedelta(milliseconds=ms)


# fixed UTC offsets (minutes) for the timezone-aware input style; which one a value gets is a pure
# function of the value so that cases stay plain data
TZ_OFFSETS_MIN = (330, -330, 840, -720, 0, 60, -1, 765, -210)


def tz_offset_minutes(ms):
    return TZ_OFFSETS_MIN[(abs(ms) // 1000 + abs(ms)) % len(TZ_OFFSETS_MIN)]


def aware_datetime(ms):
    """timezone-aware datetime (fixed-offset datetime.timezone) denoting the instant `ms`; falls back to
    the naive UTC datetime when the local wall time would leave datetime's range"""
    off = datetime.timedelta(minutes=tz_offset_minutes(ms))
    try:
        return (pydatetime(ms) + off).replace(tzinfo=datetime.timezone(off))
    except OverflowError:
        return pydatetime(ms)


def derived_time_of_day_us(days):
    """a non-midnight time of day (microseconds) that is a pure function of the day number"""
    return (abs(days) * 2654435761 + 12345) % 86399999999 + 1


def date_as_datetime(days, tod_us):
    """datetime.datetime on day `days` (since epoch) at tod_us microseconds after midnight"""
    d = _EPOCH_DATE + datetime.timedelta(days=days)
    return datetime.datetime(d.year, d.month, d.day) + datetime.timedelta(microseconds=tod_us)


def date_as_string(days):
    d = _EPOCH_DATE + datetime.timedelta(days=days)
    return "%04d-%02d-%02d" % (d.year, d.month, d.day)


def time_as_string(nanos):
    s = nanos // 10 ** 9
    return "%02d:%02d:%02d.%09d" % (s // 3600, s // 60 % 60, s % 60, nanos % 10 ** 9)


def spelling_features(tree, v, style):
    """labels of the alternate input spellings style 4 actually produces for this value"""
    out = set()
    if style != 4 or v is None or _is_empty(v):
        return out
    t = tree["t"]
    if t in ("frozen", "reversed"):
        return spelling_features(tree["of"], v, style)
    if t == "date" and MIN_PYDATE_DAYS <= v <= MAX_PYDATE_DAYS:
        if v % 3 == 0:
            out.add("date-from-string")
        else:
            out.add("date-from-datetime")
            if v < 0:
                out.add("date-from-datetime-pre-epoch")
    elif t == "time" and 0 <= v < _DAY_NANOS:
        out.add("time-from-string")
    elif t == "timestamp" and MIN_TIMESTAMP_MS <= v <= MAX_TIMESTAMP_MS:
        out.add("timestamp-from-date" if v % 86400000 == 0 else "timestamp-from-float")
    elif t == "decimal":
        out.add("decimal-from-int" if v[2] == 0 else "decimal-from-str")
    elif t in ("list", "set", "vector"):
        for x in v:
            out |= spelling_features(tree["of"], x, style)
    elif t == "map":
        for k, x in v:
            out |= spelling_features(tree["k"], k, style) | spelling_features(tree["v"], x, style)
    elif t in ("tuple", "udt"):
        subs = tree["of"] if t == "tuple" else [f[1] for f in tree["fields"]]
        for sub, x in zip(subs, v):
            out |= spelling_features(sub, x, style)
    return out


def _has_map(tree):
    return contains(tree, "map")


def to_python(tree, v, style=0, factory=None, hashable=False):
    """Python object for tagged value v; see module docstring for styles"""
    if v is None:
        return None
    f = factory or PlainFactory()
    t = tree["t"]
    if t in ("frozen", "reversed"):
        return to_python(tree["of"], v, style, f, hashable)
    if t in ("ascii", "text", "varchar"):
        return v
    if t == "blob":
        b = bytes.fromhex(v)
        return bytearray(b) if (style == 1 and not hashable) else b
    if t == "boolean":
        return bool(v)
    if t in _INT_WIDTH or t == "varint":
        return int(v)
    if t in ("float", "double"):
        return _float_from_tag(v)
    if t == "decimal":
        sign, digits, exp = v
        d = decimal.Decimal((int(sign), tuple(int(c) for c in str(digits)), int(exp)))
        if style == 4:
            # "implicit numeric conversion": ints and numeric strings are accepted for decimal columns
            return (-int(digits) if sign else int(digits)) if exp == 0 else str(d)
        return d
    if t == "timestamp":
        if style == 4 and MIN_TIMESTAMP_MS <= v <= MAX_TIMESTAMP_MS:
            # a datetime.date means its midnight; floats are "valid timestamps too"
            return (_EPOCH_DATE + datetime.timedelta(days=v // 86400000)) if v % 86400000 == 0 else float(v)
        if style == 2 or not MIN_TIMESTAMP_MS <= v <= MAX_TIMESTAMP_MS:
            return int(v)
        if style == 3:
            return aware_datetime(v)
        return pydatetime(v)
    if t == "date":
        if style == 4 and MIN_PYDATE_DAYS <= v <= MAX_PYDATE_DAYS:
            # a date column also takes 'yyyy-mm-dd' strings and datetime.datetime objects (any time of day)
            if v % 3 == 0:
                return date_as_string(v)
            return date_as_datetime(v, derived_time_of_day_us(v))
        if style == 1 and MIN_PYDATE_DAYS <= v <= MAX_PYDATE_DAYS:
            return _EPOCH_DATE + datetime.timedelta(days=v)
        if style == 2:
            return v + (1 << 31)
        return f.date(v)
    if t == "time":
        if style == 4 and 0 <= v < _DAY_NANOS:
            return time_as_string(v)
        if style == 1 and v % 1000 == 0 and 0 <= v < _DAY_NANOS:
            return _pytime(v)
        if style == 2:
            return int(v)
        return f.time(v)
    if t == "duration":
        return f.duration(*v)
    if t == "inet":
        ip = ipaddress.ip_address(v)
        if style == 1:
            return ip
        if style == 2:
            return ip.exploded.upper() if ip.version == 6 else str(ip)
        return str(ip)
    if t in ("uuid", "timeuuid"):
        return _uuid.UUID(hex=v)
    if t in ("list", "vector"):
        els = [to_python(tree["of"], x, style, f, hashable) for x in v]
        return tuple(els) if (hashable or style == 1) else els
    if t == "set":
        els = [to_python(tree["of"], x, style, f, True) for x in v]
        if hashable or style == 1:
            return frozenset(els)
        if style == 2:
            return f.sorted_set(els)
        return set(els)
    if t == "map":
        key_hashable = not _has_map(tree["k"])
        pairs = [(to_python(tree["k"], k, style, f, key_hashable), to_python(tree["v"], x, style, f, False)) for k, x in v]
        if style == 2 or not key_hashable:
            return f.ordered_map(pairs)
        return dict(pairs)
    if t in ("tuple", "udt"):
        subs = tree["of"] if t == "tuple" else [fl[1] for fl in tree["fields"]]
        els = [to_python(sub, x, style, f, hashable) for sub, x in zip(subs, v)]
        els += [x for x in v[len(subs):]]       # over-long probes: raw extras
        if t == "tuple" or hashable or style == 0 or len(els) != len(subs):
            return tuple(els)
        return f.udt_tuple(tree, els) if style == 1 else f.udt_object(tree, els)
    raise ValueError(t)


def _exact_type(obj, types, what):
    if type(obj) not in types:
        raise NormaliseError("%s: expected %s, got %s (%r)" % (what, "/".join(x.__name__ for x in types),
                                                               type(obj).__name__, obj))


def normalise(tree, obj):
    """tagged value of what a driver returned (duck-typed for the driver's util classes)"""
    if obj is None:
        return None
    t = tree["t"]
    if t in ("frozen", "reversed"):
        return normalise(tree["of"], obj)
    if t in ("ascii", "text", "varchar"):
        _exact_type(obj, (str,), t)
        return obj
    if t == "blob":
        _exact_type(obj, (bytes,), t)
        return obj.hex()
    if t == "boolean":
        _exact_type(obj, (bool,), t)
        return obj
    if t in _INT_WIDTH or t == "varint":
        _exact_type(obj, (int,), t)
        return obj
    if t in ("float", "double"):
        _exact_type(obj, (float,), t)
        return _float_to_tag(obj)
    if t == "decimal":
        _exact_type(obj, (decimal.Decimal,), t)
        sign, digits, exp = obj.as_tuple()
        if not isinstance(exp, int):
            raise NormaliseError("decimal: special value %r" % (obj,))
        return [int(sign), "".join(str(d) for d in digits) or "0", exp]
    if t == "timestamp":
        _exact_type(obj, (datetime.datetime,), t)
        if obj.tzinfo is not None:
            raise NormaliseError("timestamp: aware datetime %r" % (obj,))
        micros = (obj - _EPOCH) // datetime.timedelta(microseconds=1)
        if micros % 1000:
            return {"micros": micros}
        return micros // 1000
    if t == "date":
        if isinstance(obj, (datetime.date, int)) or not hasattr(obj, "days_from_epoch"):
            raise NormaliseError("date: expected a Date-like object, got %r" % (obj,))
        _exact_type(obj.days_from_epoch, (int,), "date.days_from_epoch")
        return obj.days_from_epoch
    if t == "time":
        if isinstance(obj, (datetime.time, int)) or not hasattr(obj, "nanosecond_time"):
            raise NormaliseError("time: expected a Time-like object, got %r" % (obj,))
        _exact_type(obj.nanosecond_time, (int,), "time.nanosecond_time")
        return obj.nanosecond_time
    if t == "duration":
        if not all(hasattr(obj, a) for a in ("months", "days", "nanoseconds")):
            raise NormaliseError("duration: expected a Duration-like object, got %r" % (obj,))
        for a in ("months", "days", "nanoseconds"):
            _exact_type(getattr(obj, a), (int,), "duration." + a)
        return [obj.months, obj.days, obj.nanoseconds]
    if t == "inet":
        if isinstance(obj, (ipaddress.IPv4Address, ipaddress.IPv6Address)):
            return str(obj)
        _exact_type(obj, (str,), t)
        try:
            return str(ipaddress.ip_address(obj))
        except ValueError:
            raise NormaliseError("inet: unparsable %r" % (obj,))
    if t in ("uuid", "timeuuid"):
        _exact_type(obj, (_uuid.UUID,), t)
        return obj.hex
    if t in ("list", "vector", "set"):
        if isinstance(obj, (str, bytes, dict)):
            raise NormaliseError("%s: got %r" % (t, obj))
        return [normalise(tree["of"], x) for x in obj]
    if t == "map":
        if not hasattr(obj, "items"):
            raise NormaliseError("map: got %r" % (obj,))
        # the driver's OrderedMap keeps its pairs in `_items`; reading them directly does not depend on key lookups
        pairs = obj._items if isinstance(getattr(obj, "_items", None), list) else obj.items()
        return [[normalise(tree["k"], k), normalise(tree["v"], x)] for k, x in pairs]
    if t in ("tuple", "udt"):
        subs = tree["of"] if t == "tuple" else [fl[1] for fl in tree["fields"]]
        if isinstance(obj, tuple):
            vals = list(obj)
        elif t == "udt":
            vals = [getattr(obj, fl[0], None) for fl in tree["fields"]]
        else:
            raise NormaliseError("tuple: got %r" % (obj,))
        if len(vals) > len(subs):
            raise NormaliseError("%s: %d values for %d fields" % (t, len(vals), len(subs)))
        return [normalise(sub, x) for sub, x in zip(subs, vals)]
    raise ValueError(t)


# ---------------------------------------------------------------------------------------------------
# hypothesis strategies
# ---------------------------------------------------------------------------------------------------

def protocol_versions():
    return st.sampled_from(PROTOCOL_VERSIONS)


_COLLECTIONS = ("list", "set", "map", "tuple", "udt")
_UDT_NAMES = ["t", "udt1", "address", "Type_2", "class", "x-y"]
_FIELD_NAMES = ["a", "b", "f0", "zip_code", "_x", "class", "1st", "a b", "Name", "v"]


def _uniquify_udts(tree):
    seen = {}

    def walk(t):
        t = dict(t)
        k = t["t"]
        if k in ("list", "set", "vector", "frozen", "reversed"):
            t["of"] = walk(t["of"])
        elif k == "map":
            t["k"], t["v"] = walk(t["k"]), walk(t["v"])
        elif k == "tuple":
            t["of"] = [walk(c) for c in t["of"]]
        elif k == "udt":
            t["fields"] = [[n, walk(c)] for n, c in t["fields"]]
            n = seen.get((t["ks"], t["name"]), 0)
            seen[(t["ks"], t["name"])] = n + 1
            if n:
                t["name"] = "%s_%d" % (t["name"], n)
        return t
    return walk(tree)


_IDX = st.integers(0, 2 ** 16 - 1)


def _pick(draw, seq):
    """uniform choice (hypothesis' own sampled_from/one_of favour early branches); shrinks to seq[0]"""
    return seq[draw(_IDX) % len(seq)]


def _draw_tree(draw, d, mode, cfg):
    """scalar or container of depth <= d; mode: "any" | "set" (orderable) | "key" (keyable)"""
    if d <= 0 or _pick(draw, (0, 1, 1)) == 0:
        return T(_pick(draw, cfg["nested"] if mode == "any" else cfg["keys"]))
    return _draw_container(draw, d, mode, cfg)


def _draw_fields(draw, d, mode, cfg):
    """1-4 field types: one of full remaining depth, the others scalars or depth-1 containers"""
    n_rest = _pick(draw, (0, 1, 1, 2, 3))
    rest = [_draw_tree(draw, min(d - 1, 1), mode, cfg) for _ in range(n_rest)]
    pos = draw(_IDX) % (len(rest) + 1)
    return rest[:pos] + [_draw_tree(draw, d - 1, mode, cfg)] + rest[pos:]


def _draw_container(draw, d, mode, cfg):
    kinds = ["list", "set", "tuple"]
    if mode != "set":
        kinds.append("map")
    if cfg["udts"]:
        kinds.append("udt")
    if cfg["vectors"]:
        kinds.append("vector")
    k = _pick(draw, kinds)
    if k == "list":
        t = t_list(_draw_tree(draw, d - 1, mode, cfg))
    elif k == "set":
        t = t_set(_draw_tree(draw, d - 1, "set", cfg))
    elif k == "tuple":
        t = t_tuple(_draw_fields(draw, d, mode, cfg))
    elif k == "map":
        if _pick(draw, (0, 0, 1)) == 0:
            t = t_map(_draw_tree(draw, min(d - 1, 1), "key", cfg), _draw_tree(draw, d - 1, mode, cfg))
        else:
            t = t_map(_draw_tree(draw, d - 1, "key", cfg), _draw_tree(draw, min(d - 1, 1), mode, cfg))
    elif k == "udt":
        subs = _draw_fields(draw, d, mode, cfg)
        start = draw(_IDX) % len(_FIELD_NAMES)
        names = [_FIELD_NAMES[(start + 3 * i) % len(_FIELD_NAMES)] for i in range(len(subs))]
        t = t_udt(_pick(draw, ("ks", "ks1")), _pick(draw, _UDT_NAMES), list(zip(names, subs)))
    else:
        return t_vector(_draw_tree(draw, d - 1, mode, cfg), _pick(draw, (1, 1, 2, 2, 3, 4, 5)))
    if cfg["wrappers"] and _pick(draw, (0, 1)):
        t = t_frozen(t)
    return t


@st.composite
def type_trees(draw, max_depth=3, top_level=True, vectors=True, udts=True, wrappers=True, scalars=SCALARS):
    """Type trees of container depth <= max_depth (the depth itself is drawn first, so every depth is well
    populated).  Set elements are orderable(), map keys keyable(), counters only at top level, vectors have
    dimension >= 1, collections are wrapped in frozen<> about half of the time, `reversed` only at top
    level.  Trees stay lean: a container has one child of full remaining depth, its other children are
    scalars or depth-1 containers."""
    scalars = tuple(scalars)
    nested = tuple(s for s in scalars if s != "counter") or scalars
    cfg = {"nested": nested, "keys": tuple(s for s in nested if s != "duration") or nested,
           "vectors": vectors, "udts": udts, "wrappers": wrappers}
    weighted = [d for d in range(0, max_depth + 1) for _ in range((1, 2, 3, 3, 3, 3, 3)[min(d, 6)])]
    d = _pick(draw, weighted)
    top = _pick(draw, (0, 0, 0, 0, 0, 0, 1, 2)) if top_level else 0
    if top == 1 and "counter" in scalars:
        return T("counter")
    tree = T(_pick(draw, nested)) if d == 0 else _draw_container(draw, d, "any", cfg)
    if top == 2 and wrappers:
        tree = t_reversed(tree)
    return _uniquify_udts(tree)


def _int_bounds(lo, hi, bits):
    s = {0, 1, -1, lo, hi, lo + 1, hi - 1}
    for k in range(0, bits + 1):
        for x in (2 ** k, 2 ** k - 1, 2 ** k + 1, -(2 ** k), -(2 ** k) - 1, -(2 ** k) + 1):
            if lo <= x <= hi:
                s.add(x)
    return sorted(x for x in s if lo <= x <= hi)


def _ints(lo, hi, bits):
    return st.one_of(st.sampled_from(_int_bounds(lo, hi, bits)), st.integers(lo, hi),
                     st.integers(max(lo, -130), min(hi, 130)))


_F32_MAX = struct.unpack(">f", bytes.fromhex("7f7fffff"))[0]
_F32_TINY = struct.unpack(">f", bytes.fromhex("00000001"))[0]
_TEXTS = ["", "\x00", "a", "é", "\U0001F600", "a" * 127, "b" * 128, "まして", "'", "￿",
          "\U0010FFFF", "x\x00y", "é" * 70]
_S = {}


def _scalar_strategy(t):
    if t in _S:
        return _S[t]
    if t in ("text", "varchar"):
        s = st.one_of(st.sampled_from(_TEXTS), st.text(max_size=12), st.text(max_size=6),
                      st.text(alphabet=st.characters(min_codepoint=0x10000, max_codepoint=0x10FFFF), max_size=4),
                      st.text(alphabet=st.characters(max_codepoint=0x7ff), max_size=8),
                      st.integers(120, 135).map(lambda n: "q" * n))
    elif t == "ascii":
        s = st.one_of(st.sampled_from(["", "\x00", "a", "\x7f", "lorem ipsum", "z" * 128]),
                      st.text(alphabet=st.characters(max_codepoint=127), max_size=12))
    elif t == "blob":
        s = st.one_of(st.sampled_from([b"", b"\x00", b"\xff", b"\xff" * 127, b"\x00" * 128, b"\x80" * 300]),
                      st.binary(max_size=16)).map(lambda b: b.hex())
    elif t == "boolean":
        s = st.booleans()
    elif t in _INT_WIDTH:
        bits = 8 * _INT_WIDTH[t]
        s = _ints(-(1 << (bits - 1)), (1 << (bits - 1)) - 1, bits - 1)
    elif t == "varint":
        s = st.one_of(st.sampled_from(_int_bounds(-(1 << 300), 1 << 300, 300)), st.integers(-(1 << 320), 1 << 320),
                      st.integers(-300, 300), st.integers(-(1 << 70), 1 << 70))
    elif t == "float":
        s = st.one_of(st.sampled_from([0.0, -0.0, 1.0, -1.0, 19432.125, _F32_MAX, -_F32_MAX, _F32_TINY, -_F32_TINY,
                                       "nan", "inf", "-inf"]),
                      st.floats(width=32, allow_nan=False, allow_infinity=False))
    elif t == "double":
        s = st.one_of(st.sampled_from([0.0, -0.0, 1.0, -1.0, 2.2, 5e-324, -5e-324, 1.7976931348623157e308,
                                       -1.7976931348623157e308, "nan", "inf", "-inf"]),
                      st.floats(allow_nan=False, allow_infinity=False))
    elif t == "decimal":
        digits = st.one_of(st.sampled_from(_int_bounds(0, 1 << 130, 130)), st.integers(0, 10 ** 40),
                           st.integers(0, 1000)).map(str)
        exps = st.one_of(st.sampled_from([0, 1, -1, 2, -2, 20, -20, 100, -100, 400, -400, 127, 128, -128, -129,
                                          (1 << 31), -(1 << 31) + 1]),
                         st.integers(-400, 400), st.integers(-30, 30))
        s = st.builds(lambda sg, dg, ex: [sg, dg, ex], st.sampled_from([0, 0, 1]), digits, exps)
    elif t == "timestamp":
        b = {0, 1, -1, 999, 1000, -1000, MIN_TIMESTAMP_MS, MAX_TIMESTAMP_MS, MIN_TIMESTAMP_MS + 1,
             MAX_TIMESTAMP_MS - 1, 1320692149881, 1446422400000}
        for k in (31, 32, 33, 34, 35, 37):
            for d in (-1, 0, 1, 999):
                b.add((1 << k) * 1000 + d)
                b.add(-(1 << k) * 1000 - d)
        b = sorted(x for x in b if MIN_TIMESTAMP_MS <= x <= MAX_TIMESTAMP_MS)
        s = st.one_of(st.sampled_from(b), st.integers(MIN_TIMESTAMP_MS, MAX_TIMESTAMP_MS),
                      st.integers(0, (1 << 31) * 1000), st.integers(-(1 << 33) * 1000, (1 << 33) * 1000))
    elif t == "date":
        b = sorted(set(_int_bounds(-(1 << 31), (1 << 31) - 1, 31)) |
                   {MIN_PYDATE_DAYS, MIN_PYDATE_DAYS - 1, MAX_PYDATE_DAYS, MAX_PYDATE_DAYS + 1, 16741})
        s = st.one_of(st.sampled_from(b), st.integers(-(1 << 31), (1 << 31) - 1),
                      st.integers(MIN_PYDATE_DAYS, MAX_PYDATE_DAYS))
    elif t == "time":
        b = sorted(set(_int_bounds(0, _DAY_NANOS - 1, 47)) | {999, 1000, 1001, 10 ** 9, 3600 * 10 ** 9,
                                                              _DAY_NANOS - 1000, 3661 * 10 ** 9})
        s = st.one_of(st.sampled_from(b), st.integers(0, _DAY_NANOS - 1),
                      st.integers(0, 86399999).map(lambda ms: ms * 10 ** 6))
    elif t == "duration":
        m32 = _ints(0, (1 << 31) - 1, 31)
        n64 = _ints(0, (1 << 63) - 1, 63)
        pos = st.tuples(m32, m32, n64)
        s = st.one_of(
            pos.map(list),
            pos.map(lambda p: [-p[0], -p[1], -p[2]]),
            st.sampled_from([[0, 0, 0], [-(1 << 31), -(1 << 31), -(1 << 63)], [(1 << 31) - 1, (1 << 31) - 1, (1 << 63) - 1],
                             [1, 2, 3], [0, 0, 1], [0, 0, -1], [12, 0, 100], [-10, -21, -1000]]))
    elif t == "inet":
        v4 = st.one_of(st.sampled_from([b"\x00" * 4, b"\xff" * 4, b"\x7f\x00\x00\x01", b"A46\xa9"]), st.binary(min_size=4, max_size=4))
        v6 = st.one_of(st.sampled_from([b"\x00" * 16, b"\x00" * 15 + b"\x01", b"\xff" * 16,
                                        b"\x00" * 10 + b"\xff\xff\x01\x02\x03\x04",
                                        bytes.fromhex("2a001328e102ccc00000000000000122")]),
                       st.binary(min_size=16, max_size=16))
        s = st.one_of(v4, v6).map(lambda b: str(ipaddress.ip_address(b)))
    elif t == "uuid":
        s = st.one_of(st.sampled_from([b"\x00" * 16, b"\xff" * 16]), st.binary(min_size=16, max_size=16)).map(lambda b: b.hex())
    elif t == "timeuuid":
        def v1(b):
            b = bytearray(b)
            b[6] = (b[6] & 0x0F) | 0x10
            b[8] = (b[8] & 0x3F) | 0x80
            return bytes(b).hex()
        s = st.one_of(st.sampled_from([b"\x00" * 16, b"\xff" * 16]), st.binary(min_size=16, max_size=16)).map(v1)
    else:
        raise ValueError(t)
    _S[t] = s
    return s


def ukey(tree, v):
    """hashable key that is equal for two tagged values exactly when the Python objects built from
    them compare equal (used to keep set elements / map keys distinct)"""
    if v is None:
        return None
    t = tree["t"]
    if t in ("frozen", "reversed"):
        return ukey(tree["of"], v)
    if t in ("float", "double"):
        return v if isinstance(v, str) else float(v) + 0.0
    if t == "decimal":
        sign, digits, exp = v
        d = int(digits)
        if d == 0:
            return ("dec", 0)
        # value-equality: strip trailing zeros
        while d % 10 == 0:
            d //= 10
            exp += 1
        return ("dec", -d if sign else d, exp)
    if t in ("uuid", "timeuuid", "blob"):
        return v.lower()
    if t in _SCALAR_SET:
        if t == "duration":
            return tuple(v)
        return v
    if t in ("list", "vector"):
        return tuple(ukey(tree["of"], x) for x in v)
    if t == "set":
        return frozenset(ukey(tree["of"], x) for x in v)
    if t == "map":
        return tuple((ukey(tree["k"], k), ukey(tree["v"], x)) for k, x in v)
    subs = tree["of"] if t == "tuple" else [f[1] for f in tree["fields"]]
    return tuple(ukey(sub, x) for sub, x in zip(subs, v))


_SIZES = ((0, 1, 1, 2, 2, 3, None), (0, 1, 1, 2, 3), (0, 1, 1, 2))


def _draw_value(draw, tree, o, key, lvl):
    t = tree["t"]
    if t in ("frozen", "reversed"):
        return _draw_value(draw, tree["of"], o, key, lvl)
    if t in _SCALAR_SET:
        v = draw(_scalar_strategy(t))
        if key and t in ("float", "double") and v == "nan":
            v = 0.0
        return v

    def element(sub, as_key=False):
        if o["nulls"] and not key and not as_key and draw(_IDX) % 8 == 7:
            return None
        return _draw_value(draw, sub, o, key or as_key, lvl + 1)

    # element counts shrink with the nesting level so that deep values stay small
    n = _pick(draw, _SIZES[min(lvl, 2)])
    if n is None:
        n = o["max_len"]
    if t == "list":
        return [element(tree["of"]) for _ in range(n)]
    if t == "set":
        out, seen = [], set()
        for _ in range(n):
            x = element(tree["of"], True)
            k = ukey(tree["of"], x)
            if k not in seen:
                seen.add(k)
                out.append(x)
        return out
    if t == "map":
        out, seen = [], set()
        for _ in range(n):
            kx = element(tree["k"], True)
            vx = element(tree["v"])
            k = ukey(tree["k"], kx)
            if k not in seen:
                seen.add(k)
                out.append([kx, vx])
        return out
    if t == "vector":
        return [_draw_value(draw, tree["of"], o, key, lvl + 1) for _ in range(tree["dim"])]
    if t in ("tuple", "udt"):
        subs = tree["of"] if t == "tuple" else [f[1] for f in tree["fields"]]
        m = len(subs)
        if ((t == "tuple" and o["short_tuples"]) or (t == "udt" and o["short_udts"])) and not key and m > 1:
            if draw(_IDX) % 5 == 4:
                m = 1 + draw(_IDX) % (m - 1)
        return [element(sub) for sub in subs[:m]]
    raise ValueError(t)


@st.composite
def value_for(draw, tree, nulls=True, short_tuples=True, max_len=4, key_position=False, short_udts=False):
    """Strategy of tagged values of `tree` (never a top-level None), built by construction.  In key
    positions (set elements, map keys, and everything below them) there are no nulls, no short tuples and
    no NaN; set elements / map keys are distinct under ukey().  short_udts=True also produces UDT values
    with trailing fields missing (what Cassandra sends for rows written before an ALTER TYPE ... ADD; a
    driver cannot *send* those)."""
    o = {"nulls": nulls, "short_tuples": short_tuples, "short_udts": short_udts, "max_len": max_len}
    return _draw_value(draw, tree, o, key_position, 0)


@st.composite
def typed_values(draw, max_depth=3, nulls=True, short_tuples=True, max_len=4, short_udts=False, **tree_kw):
    """strategy of (tree, value) pairs"""
    tree = draw(type_trees(max_depth, **tree_kw))
    o = {"nulls": nulls, "short_tuples": short_tuples, "short_udts": short_udts, "max_len": max_len}
    return (tree, _draw_value(draw, tree, o, False, 0))


# ---------------------------------------------------------------------------------------------------
# value classification helpers (used by checks for their non-trivial rules)
# ---------------------------------------------------------------------------------------------------

def _near_pow2(n):
    n = abs(n)
    if n < 127:
        return False
    for m in (n - 1, n, n + 1):
        if m > 0 and m & (m - 1) == 0:
            return True
    return False


def features(tree, v, pv=None, _top=True, _in_container=False):
    """set of boundary-class labels of a tagged value"""
    out = set()
    t = tree["t"]
    if t in ("frozen", "reversed"):
        return features(tree["of"], v, pv, _top, _in_container)
    if v is None:
        if _in_container:
            out.add("null-inside")
        return out
    if t in _SCALAR_SET:
        if t in _INT_WIDTH or t == "varint":
            if _near_pow2(v):
                out.add("int-boundary")
            if t == "varint" and (v >= (1 << 63) or v < -(1 << 63)):
                out.add("varint>=64bit")
        elif t in ("text", "varchar"):
            if any(ord(c) > 0xFFFF for c in v):
                out.add("non-bmp")
            if "\x00" in v:
                out.add("nul-char")
            if len(v.encode("utf-8")) >= 128:
                out.add("long>=128B")
        elif t == "timestamp":
            if not 0 <= v < (1 << 31) * 1000:
                out.add("ts-outside-1970-2038")
            if abs(v) >= (1 << 33) * 1000:
                out.add("ts-far")
        elif t in ("float", "double"):
            if isinstance(v, str) or v == 0:
                out.add("float-special")
        elif t == "decimal":
            if abs(v[2]) >= 100:
                out.add("decimal-big-exp")
            if v[0] and int(v[1]) == 0:
                out.add("decimal-neg-zero")
        elif t == "date":
            if not MIN_PYDATE_DAYS <= v <= MAX_PYDATE_DAYS:
                out.add("date-beyond-pydate")
        elif t == "duration":
            if any(_near_pow2(x) for x in v):
                out.add("duration-boundary")
        elif t == "blob":
            if len(v) >= 256:
                out.add("long>=128B")
        return out
    if t in ("list", "set", "map"):
        if len(v) == 0:
            out.add("empty-collection")
        if _top and pv is not None and pv < 3:
            out.add("v2-toplevel-collection")
    if t in ("list", "set", "vector"):
        for x in v:
            out |= features(tree["of"], x, pv, False, t != "vector" or True)
    elif t == "map":
        for k, x in v:
            out |= features(tree["k"], k, pv, False, True)
            out |= features(tree["v"], x, pv, False, True)
    else:
        subs = tree["of"] if t == "tuple" else [f[1] for f in tree["fields"]]
        if len(v) < len(subs):
            out.add("short-tuple")
        for sub, x in zip(subs, v):
            out |= features(sub, x, pv, False, True)
    return out


# ---------------------------------------------------------------------------------------------------
# self test: fixed vectors transcribed from tests/unit/test_marshalling.py (protocol version 1 there,
# i.e. uint16 collection widths) and tests/unit/test_types.py
# ---------------------------------------------------------------------------------------------------

_VECTORS = [
    # (hex, tree, tagged value, pv)
    (b"lorem ipsum dolor sit amet".hex(), T("ascii"), "lorem ipsum dolor sit amet", 1),
    ("01", T("boolean"), True, 1),
    ("00", T("boolean"), False, 1),
    ("fffefdfcfb", T("blob"), "fffefdfcfb", 1),
    ("7fffffffffffffff", T("counter"), 9223372036854775807, 1),
    ("8000000000000000", T("counter"), -9223372036854775808, 1),
    (b"\x00\x00\x013\x7fb\xeey".hex(), T("timestamp"), 1320692149881, 1),          # 2011-11-07 18:55:49.881
    (b"\x00\x00\x01P\xc5~L\x00".hex(), T("timestamp"), 1446422400000, 1),           # 2015-11-02
    (b"\x00\x00\x00\r\nJ\x04\"^\x91\x04\x8a\xb1\x18\xfe".hex(), T("decimal"), [0, "12438789579431234124191998", -13], 1),
    (b"\x00\x00\x00\x06\xe5\xde]\x98Y".hex(), T("decimal"), [1, "112233441191", -6], 1),
    ("0000001400face", T("decimal"), [0, "64206", -20], 1),
    ("00000014ff0532", T("decimal"), [1, "64206", -20], 1),
    ("ffffff9c00face", T("decimal"), [0, "64206", 100], 1),
    ("40d2fa0800000000", T("double"), 19432.125, 1),
    ("c0d2fa0800000000", T("double"), -19432.125, 1),
    ("7fef000000000000", T("double"), 1.7415152243978685e+308, 1),
    ("4697d040", T("float"), 19432.125, 1),
    ("c697d040", T("float"), -19432.125, 1),
    ("7f7f0000", T("float"), 338953138925153547590470800371487866880.0, 1),
    ("7f500000", T("int"), 2135949312, 1),
    ("fffdcb91", T("int"), -144495, 1),
    (b"f\x1e\xfd\xf2\xe3\xb1\x9f|\x04_\x15".hex(), T("varint"), 123456789123456789123456789, 1),
    ("00", T("varint"), 0, 1),
    ("7fffffffffffffff", T("bigint"), 9223372036854775807, 1),
    ("8000000000000000", T("bigint"), -9223372036854775808, 1),
    (b"A46\xa9".hex(), T("inet"), "65.52.54.169", 1),
    ("2a001328e102ccc00000000000000122", T("inet"), "2a00:1328:e102:ccc0::122", 1),
    ("e381bee38197e381a6", T("text"), "まして", 1),
    ("ff" * 16, T("uuid"), "ff" * 16, 1),
    ("49157efcef3c9de31698af801fb40b2a", T("uuid"), "49157efcef3c9de31698af801fb40b2a", 1),
    ("0000", t_map(T("decimal"), T("boolean")), [], 1),
    ("0000", t_list(T("float")), [], 1),
    ("0000", t_set(T("varint")), [], 1),
    ("00010010af5943a3ea3c11e1ab63c42c032279f0", t_list(T("timeuuid")), ["af5943a3ea3c11e1ab63c42c032279f0"], 1),
    ("80000001", T("date"), 1, 1),
    ("7fffffff", T("date"), -1, 1),
    ("0000000000000001", T("time"), 1, 1),
    ("7f", T("tinyint"), 127, 1),
    ("80", T("tinyint"), -128, 1),
    ("7fff", T("smallint"), 32767, 1),
    ("8000", T("smallint"), -32768, 1),
    (b"\x00\x03\x00\x06\xe3\x81\xbfbob\x00\x04\x00\x00\x00\xc7\x00\x00\x00\x04\xff\xff\xff\xff\x00\x01\\\x00\x04\x00\x00\x00\x00".hex(),
     t_map(T("text"), T("int")), [["みbob", 199], ["", -1], ["\\", 0]], 1),
    (b"\x00\x02\x00\x08@\x01\x99\x99\x99\x99\x99\x9a\x00\x08@\x14\x00\x00\x00\x00\x00\x00".hex(), t_set(T("double")), [2.2, 5.0], 1),
    # test_types.test_collection_null_support (protocol v3 widths, -1 = null)
    ("00000002" "ffffffff" "00000004" "0000002a", t_list(T("int")), [None, 42], 3),
    ("00000002" "00000004" "0000002a" "ffffffff" "ffffffff" "00000004" "0000002a", t_map(T("int"), T("int")), [[42, None], [None, 42]], 3),
    # test_types DateType vectors
    ((1000 * 2 ** 33).to_bytes(8, "big").hex(), T("timestamp"), 1000 * 2 ** 33, 3),
    # vints / vectors: from the definitions in VIntCoding and the protocol spec
    ("020406", T("duration"), [1, 2, 3], 4),
    ("010305", T("duration"), [-1, -2, -3], 4),
    ("c04000" "00" "00", T("duration"), [8192, 0, 0], 4),
    ("3f800000" "40000000", t_vector(T("float"), 2), [1.0, 2.0], 4),
    ("03616263" "00", t_vector(T("text"), 2), ["abc", ""], 4),
    ("01" "7f" "02" "0080", t_vector(T("varint"), 2), [127, 128], 4),
    ("00000004" "00000001" "ffffffff", t_tuple([T("int"), T("text")]), [1, None], 4),
]

_UVINTS = [(0, "00"), (1, "01"), (127, "7f"), (128, "8080"), (16383, "bfff"), (16384, "c04000"),
           ((1 << 21) - 1, "dfffff"), (1 << 21, "e0200000"), ((1 << 56) - 1, "fe" + "ff" * 7),
           (1 << 56, "ff01" + "00" * 7), ((1 << 64) - 1, "ff" * 9)]

_tested = []


def self_test():
    if _tested:
        return
    for v, hx in _UVINTS:
        assert uvint_encode(v).hex() == hx, ("uvint", v, uvint_encode(v).hex(), hx)
        assert uvint_decode(bytes.fromhex(hx)) == (v, len(hx) // 2), ("uvint decode", hx)
    for n in (0, 1, -1, 63, -64, 64, -65, (1 << 63) - 1, -(1 << 63)):
        assert vint_decode(vint_encode(n))[0] == n
    assert vint_encode(-1).hex() == "01" and vint_encode(1).hex() == "02" and vint_encode(-(1 << 63)).hex() == "ff" * 9
    for n, hx in ((0, "00"), (127, "7f"), (128, "0080"), (-128, "80"), (-129, "ff7f"), (255, "00ff"), (-1, "ff"), (-256, "ff00")):
        assert varint_encode(n).hex() == hx, ("varint", n, varint_encode(n).hex())
    for hx, tree, val, pv in _VECTORS:
        got = encode(tree, val, pv).hex()
        assert got == hx, "reference encode disagrees with pinned vector %s %r: %s != %s" % (cql_name(tree), val, got, hx)
        back = decode(tree, bytes.fromhex(hx), pv)
        assert same(tree, back, val), "reference decode disagrees with pinned vector %s %s: %r != %r" % (cql_name(tree), hx, back, val)
    # v1/v2 widths are for the top level only
    nested = t_list(t_list(T("int")))
    assert encode(nested, [[1]], 2).hex() == "0001" "000c" "00000001" "00000004" "00000001"
    assert encode(nested, [[1]], 3).hex() == "00000001" "0000000c" "00000001" "00000004" "00000001"
    assert encode(t_tuple([t_list(T("int"))]), [[1]], 1).hex() == "0000000c" "00000001" "00000004" "00000001"
    _tested.append(True)
