"""Cassandra's ordering of version-1 UUIDs (org.apache.cassandra.db.marshal.TimeUUIDType.compareCustom).

Works on the 16 raw bytes (network order), independent of the ``uuid`` module's field arithmetic and of
``cassandra.*``.

    msb: the 60-bit timestamp is reassembled as time_hi(12) | time_mid(16) | time_low(32) (with the
         version nibble on top) and compared as a number;
    lsb: on a timestamp tie the 8 low bytes (clock_seq_hi_and_variant, clock_seq_low, node[0..5]) are
         compared lexicographically as SIGNED bytes ("this has to be a signed per-byte comparison for
         compatibility").
"""

UUID_EPOCH_OFFSET = 0x01B21DD213814000      # 100-ns intervals between 1582-10-15 and 1970-01-01


def _signed(b):
    return b - 256 if b >= 128 else b


def timestamp(b16):
    """60-bit count of 100-ns intervals since 1582-10-15 from the raw bytes"""
    time_low = int.from_bytes(b16[0:4], "big")
    time_mid = int.from_bytes(b16[4:6], "big")
    time_hi = int.from_bytes(b16[6:8], "big") & 0x0FFF
    return (time_hi << 48) | (time_mid << 32) | time_low


def version(b16):
    return b16[6] >> 4


def variant_rfc4122(b16):
    return (b16[8] & 0xC0) == 0x80


def sort_key(b16):
    if len(b16) != 16:
        raise ValueError("a UUID has 16 bytes")
    return ((version(b16) << 60) | timestamp(b16), tuple(_signed(x) for x in b16[8:16]))


def compare(a16, b16):
    ka, kb = sort_key(a16), sort_key(b16)
    return (ka > kb) - (ka < kb)


def make(ts, clock_seq, node, version_nibble=1):
    """raw bytes of a version-1 UUID with the given 60-bit timestamp, 14-bit clock sequence, 48-bit node"""
    if not (0 <= ts < 1 << 60 and 0 <= clock_seq < 1 << 14 and 0 <= node < 1 << 48):
        raise ValueError("field out of range")
    time_low = ts & 0xFFFFFFFF
    time_mid = (ts >> 32) & 0xFFFF
    time_hi = (ts >> 48) & 0x0FFF
    return (time_low.to_bytes(4, "big") + time_mid.to_bytes(2, "big") +
            ((version_nibble << 12) | time_hi).to_bytes(2, "big") +
            bytes([0x80 | (clock_seq >> 8), clock_seq & 0xFF]) + node.to_bytes(6, "big"))


def intervals_from_unix_us(us):
    """100-ns intervals since the UUID epoch for an instant given in whole microseconds since 1970"""
    return us * 10 + UUID_EPOCH_OFFSET


MIN_UNIX_US = -(UUID_EPOCH_OFFSET // 10)                    # 1582-10-15T00:00:00
MAX_UNIX_US = ((1 << 60) - 1 - UUID_EPOCH_OFFSET) // 10     # last microsecond whose tick fits 60 bits (year 5236)
