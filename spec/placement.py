"""Reference replica placement, transcribed from Apache Cassandra.  Imports nothing from ``cassandra.*``.

Vocabulary
----------
ring      list of ``(token, endpoint)`` pairs sorted by token, tokens distinct (TokenMetadata.sortedTokens +
          getEndpoint).  Tokens are any totally ordered values (ints for Murmur3/Random, bytes for ByteOrdered);
          endpoints are hashable labels (host indexes).
topology  dict ``endpoint -> (datacenter, rack)`` for every endpoint owning a token (TokenMetadata.Topology /
          the snitch).
options   the keyspace's replication options as the server reports them, values are *strings*
          (``{"replication_factor": "3"}``, ``{"dc1": "3", "dc2": "3/1"}``).  ``"N/T"`` is transient replication:
          N replicas in total of which T are transient (ReplicationFactor.fromString) -- all N are natural
          replicas of the range.

API
---
first_token_index(tokens, token)            TokenMetadata.firstTokenIndex(insertMin=False): first ring token >= token,
                                            wrapping to index 0
ring_iterator(n, start)                     TokenMetadata.ringIterator(includeMin=False): every index once from start
simple_4x / simple_2x(ring, rf, start)      SimpleStrategy.calculateNaturalReplicas / calculateNaturalEndpoints
nts_4x / nts_2x(ring, topology, dc_rf, start)   NetworkTopologyStrategy, the 3.x/4.x ``DatacenterEndpoints``
                                            formulation and the 2.x ``skippedDcEndpoints`` formulation
natural_endpoints_at(ring, topology, strategy_class, options, start_index)
                                            same for the range ending at ring index start_index
natural_replicas_at(...) -> [(endpoint, is_full)]   Cassandra 4 placement order with the full/transient mark
full_endpoints_at(...) / full_endpoints(..., token)   only the FULL replicas: per DC (NTS) / overall (Simple) the last
                                            `transient` replicas chosen are the transient ones
natural_endpoints(ring, topology, strategy_class, options, token)
                                            ordered list of endpoints for the range containing `token`; runs both
                                            formulations and raises ReferenceDisagreement when they differ as sets
parse_rf("3/1") -> (all_replicas, transient_replicas)
"""


class ReferenceDisagreement(Exception):
    """the two transcriptions of Cassandra's algorithm disagree: the reference (not the driver) is broken"""


def parse_rf(s):
    s = str(s)
    if "/" in s:
        a, t = s.split("/")
        a, t = int(a), int(t)
    else:
        a, t = int(s), 0
    if a < 0 or t < 0 or (t and t >= a):
        raise ValueError("bad replication factor %r" % (s,))
    return a, t


def first_token_index(tokens, token):
    """Collections.binarySearch + the insertion-point arithmetic of TokenMetadata.firstTokenIndex"""
    lo, hi = 0, len(tokens) - 1
    while lo <= hi:
        mid = (lo + hi) >> 1
        if tokens[mid] < token:
            lo = mid + 1
        elif token < tokens[mid]:
            hi = mid - 1
        else:
            return mid
    i = lo                      # insertion point
    if i >= len(tokens):
        i = 0
    return i


def ring_iterator(n, start):
    for k in range(n):
        yield (start + k) % n


# ---------------------------------------------------------------------------------------------
# SimpleStrategy
# ---------------------------------------------------------------------------------------------

def simple_4x(ring, rf_all, start, rf_full=None, full=None):
    """full: optional dict filled with endpoint -> isFull (new Replica(ep, range, replicas.size() < rf.fullReplicas))"""
    replicas = []
    rf_full = rf_all if rf_full is None else rf_full
    it = ring_iterator(len(ring), start)
    for idx in it:
        if not len(replicas) < rf_all:
            break
        ep = ring[idx][1]
        if ep not in replicas:
            if full is not None:
                full[ep] = len(replicas) < rf_full
            replicas.append(ep)
    return replicas


def simple_2x(ring, rf, start):
    endpoints = []
    if not ring:
        return endpoints
    idxs = list(ring_iterator(len(ring), start))
    k = 0
    while len(endpoints) < rf and k < len(idxs):
        ep = ring[idxs[k]][1]
        k += 1
        if ep not in endpoints:
            endpoints.append(ep)
    return endpoints


# ---------------------------------------------------------------------------------------------
# NetworkTopologyStrategy
# ---------------------------------------------------------------------------------------------

def _dc_endpoints(ring, topology):
    """Topology.getDatacenterEndpoints / getDatacenterRacks restricted to token owners"""
    all_eps, racks = {}, {}
    for _tok, ep in ring:
        dc, rack = topology[ep]
        all_eps.setdefault(dc, set()).add(ep)
        racks.setdefault(dc, {}).setdefault(rack, set()).add(ep)
    return all_eps, racks


class _DatacenterEndpoints(object):
    def __init__(self, rf_all, rack_count, node_count, replicas, racks, rf_transient=0, full=None):
        self.replicas = replicas        # shared, ordered
        self.racks = racks              # shared set of (dc, rack)
        self.full = full if full is not None else {}        # shared: endpoint -> isFull
        self.rf_left = min(rf_all, node_count)
        self.acceptable_rack_repeats = rf_all - rack_count
        # if we have fewer replicas than rf calls for, reduce transients accordingly
        reduce_transients = rf_all - self.rf_left
        self.transients = max(rf_transient - reduce_transients, 0)

    def add_endpoint_and_check_if_done(self, ep, location):
        if self.done():
            return False
        if ep in self.replicas:
            return False                # cannot repeat a node
        is_full = self.rf_left > self.transients     # new Replica(ep, range, rfLeft > transients)
        if location not in self.racks:
            self.racks.add(location)    # new rack
            self.rf_left -= 1
            self.replicas.append(ep)
            self.full[ep] = is_full
            return self.done()
        if self.acceptable_rack_repeats <= 0:
            return False                # there must be rf_left distinct racks left
        self.replicas.append(ep)
        self.full[ep] = is_full
        self.acceptable_rack_repeats -= 1
        self.rf_left -= 1
        return self.done()

    def done(self):
        assert self.rf_left >= 0
        return self.rf_left == 0


def nts_4x(ring, topology, dc_rf, start, pre=None, dc_transient=None, full=None):
    """dc_rf: dict dc -> total replicas (allReplicas); dc_transient: dict dc -> transient replicas; pre: cached
    _dc_endpoints(ring, topology); full: optional dict filled with endpoint -> isFull"""
    replicas = []
    seen_racks = set()
    dc_transient = dc_transient or {}
    full = full if full is not None else {}
    all_eps, racks = pre or _dc_endpoints(ring, topology)
    dcs = {}
    dcs_to_fill = 0
    for dc, rf in dc_rf.items():
        node_count = len(all_eps.get(dc, ()))
        if rf <= 0 or node_count <= 0:
            continue
        dcs[dc] = _DatacenterEndpoints(rf, len(racks.get(dc, ())), node_count, replicas, seen_racks,
                                       dc_transient.get(dc, 0), full)
        dcs_to_fill += 1
    for idx in ring_iterator(len(ring), start):
        if not dcs_to_fill > 0:
            break
        ep = ring[idx][1]
        location = topology[ep]
        d = dcs.get(location[0])
        if d is not None and d.add_endpoint_and_check_if_done(ep, location):
            dcs_to_fill -= 1
    return replicas


def nts_2x(ring, topology, dc_rf, start, pre=None):
    replicas = []                                   # LinkedHashSet
    dc_replicas = dict((dc, set()) for dc in dc_rf)
    all_eps, racks = pre or _dc_endpoints(ring, topology)
    seen_racks = dict((dc, set()) for dc in dc_rf)
    skipped = dict((dc, []) for dc in dc_rf)        # LinkedHashSet per dc

    def sufficient_dc(dc):
        return len(dc_replicas[dc]) >= min(len(all_eps.get(dc, ())), dc_rf[dc])

    def sufficient():
        return all(sufficient_dc(dc) for dc in dc_rf)

    def add(dc, ep):
        dc_replicas[dc].add(ep)
        if ep not in replicas:
            replicas.append(ep)

    for idx in ring_iterator(len(ring), start):
        if sufficient():
            break
        ep = ring[idx][1]
        dc, rack = topology[ep]
        if dc not in dc_rf or sufficient_dc(dc):
            continue
        if len(seen_racks[dc]) == len(racks[dc]):
            add(dc, ep)
        elif rack in seen_racks[dc]:
            if ep not in skipped[dc]:
                skipped[dc].append(ep)
        else:
            add(dc, ep)
            seen_racks[dc].add(rack)
            if len(seen_racks[dc]) == len(racks[dc]):
                for nxt in skipped[dc]:
                    if sufficient_dc(dc):
                        break
                    add(dc, nxt)
    return replicas


# ---------------------------------------------------------------------------------------------
# entry point
# ---------------------------------------------------------------------------------------------

def _short(strategy_class):
    return strategy_class.rsplit(".", 1)[-1]


def natural_replicas_at(ring, topology, strategy_class, options, start, pre=None):
    """[(endpoint, is_full)] in Cassandra 4 placement order for the range ending at ring index `start`.
    The set of all endpoints is cross-checked against the 2.x formulation (which knows no transient replicas)."""
    name = _short(strategy_class)
    if not ring:
        return []
    full = {}
    if name == "SimpleStrategy":
        rf_all, rf_t = parse_rf(options["replication_factor"])
        a = simple_4x(ring, rf_all, start, rf_all - rf_t, full)
        b = simple_2x(ring, rf_all, start)
    elif name == "NetworkTopologyStrategy":
        parsed = dict((str(dc), parse_rf(v)) for dc, v in options.items() if dc != "class")
        dc_rf = dict((dc, p[0]) for dc, p in parsed.items())
        dc_t = dict((dc, p[1]) for dc, p in parsed.items())
        a = nts_4x(ring, topology, dc_rf, start, pre, dc_t, full)
        b = nts_2x(ring, topology, dc_rf, start, pre)
    else:
        raise ValueError("no reference for strategy %r" % (strategy_class,))
    if set(a) != set(b) or len(set(a)) != len(a) or len(set(b)) != len(b):
        raise ReferenceDisagreement("4.x formulation %r vs 2.x formulation %r for ring=%r topology=%r %s %r start=%d" % (
            a, b, ring, topology, name, options, start))
    return [(ep, full[ep]) for ep in a]


def natural_endpoints_at(ring, topology, strategy_class, options, start, pre=None):
    """all natural replicas (full and transient) for the range ending at ring index `start`
    (pre: optional cached _dc_endpoints(ring, topology))"""
    return [ep for ep, _f in natural_replicas_at(ring, topology, strategy_class, options, start, pre)]


def full_endpoints_at(ring, topology, strategy_class, options, start, pre=None):
    """the FULL replicas only (what a token-aware client routes to); equals natural_endpoints_at without transient replication"""
    return [ep for ep, f in natural_replicas_at(ring, topology, strategy_class, options, start, pre) if f]


def natural_endpoints(ring, topology, strategy_class, options, token):
    tokens = [t for t, _ep in ring]
    if not ring:
        return []
    return natural_endpoints_at(ring, topology, strategy_class, options, first_token_index(tokens, token))


def full_endpoints(ring, topology, strategy_class, options, token):
    tokens = [t for t, _ep in ring]
    if not ring:
        return []
    return full_endpoints_at(ring, topology, strategy_class, options, first_token_index(tokens, token))
