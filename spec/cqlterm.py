"""Independent parser for CQL *terms* and CQL type strings, and Cassandra's reading of a literal.

Imports nothing from ``cassandra.*``.  Built on spec.cqllex; written from Cassandra's Parser.g
(rules term / simpleTerm / value / constant / collectionLiteral / usertypeLiteral / tupleLiteral /
function / comparatorType) and from the ``fromString`` methods of the marshal types
(Constants.Literal.testAssignment decides which literal kind is assignable to which type).

PUBLIC API (stable; the cqlengine checks import it)
====================================================================================================
    parse_term(text, arithmetic=False) -> AST      the whole text must be exactly ONE term (ParseError)
    parse_type(text) -> type tree                  'map<text, frozen<list<int>>>' -> spec.values type tree
    Parser(text_or_tokens, pos=0, arithmetic=False)   recursive-descent building block for statement parsers:
        .pos .tokens  .peek(k=0) .at_end() .accept(p) .expect(p) .accept_kw(K) .expect_kw(K) .is_kw(K)
        .ident() -> name (as Cassandra reads it)   .term() -> AST   .cql_type() -> type tree
    literal_only(ast) -> bool                      only constants / null / collection / tuple / udt literals
    render(ast) -> str                             canonical CQL text of an AST (parse_term(render(a)) == a)
    denote(ast, tree, binds=None, functions=None) -> tagged value     Cassandra's reading of the term for a column of
                                                   type `tree`; raises Invalid when Cassandra would reject it
    infer_type(ast) -> type tree                   the natural type of a literal when nothing else is known
    same_value(tree, a, b) -> bool                 equality of tagged values as *Cassandra compares them*
                                                   (sets/maps unordered, decimals numerically, floats by bits with
                                                   all NaNs equal, -0.0 == 0.0 distinct by bits)
    ParseError, Invalid, Unsupported               (all ValueError; cqllex.LexError is also a ValueError)

AST (plain JSON-able dicts)
----------------------------------------------------------------------------------------------------
    {"k":"string","v":str}             STRING_LITERAL ('..' or $$..$$)
    {"k":"integer","text":"-12"}       INTEGER, exactly as written
    {"k":"float","text":"1.5e3"}       FLOAT; also "NaN" "Infinity" "-NaN" "-Infinity" (text in the case written)
    {"k":"boolean","v":bool}  {"k":"uuid","text":lower-case}  {"k":"hex","text":"0xAB"}  {"k":"duration","text":..}
    {"k":"null"}
    {"k":"bind","name":None | str}     ?  and  :name
    {"k":"list","items":[T..]}  {"k":"set","items":[T..]} ({} is an empty set node with "braces":true)
    {"k":"map","items":[[K,V]..]}  {"k":"tuple","items":[T..]}  {"k":"udt","fields":[[name,T]..]}
    {"k":"call","ks":None|str,"name":str,"args":[T..]}      function call (name as Cassandra reads it)
    {"k":"hint","type":tree,"term":T}                       (type) term
    {"k":"neg","term":T}                                    '-' simpleTerm that is not a numeric constant
    {"k":"op","op":"+-*/%","l":T,"r":T}                     only with arithmetic=True (Cassandra >= 4.0)

Type trees are those of spec/values.py:
    {"t":"int"} {"t":"list","of":T} {"t":"set","of":T} {"t":"map","k":T,"v":T} {"t":"tuple","of":[T..]}
    {"t":"udt","ks":str|None,"name":str,"fields":[[name,T]..] | None} {"t":"vector","of":T,"dim":n}
    {"t":"frozen","of":T} {"t":"reversed","of":T}   and, from parse_type only, {"t":"custom","cls":str}

Tagged values are those of spec/values.py:
    ascii/text/varchar str; blob hex str; tinyint..varint/counter int; boolean bool;
    float/double python float or "nan"/"inf"/"-inf"; decimal [sign, "digits", exponent] (exactly as written:
    '1.50' -> [0,"150",-2]); timestamp int ms; date int days since epoch; time int ns; duration [months,days,ns];
    inet canonical str; uuid/timeuuid 32 hex digits; list/set/vector list (literal order; duplicates kept);
    map list of [k,v]; tuple/udt list (udt in type order, missing fields None); null None;
    '' for a non-string type -> {"empty": true} (Cassandra stores an empty value).

Time zone: a timestamp string without zone is read in the server's default zone; UTC is assumed.
"""
from __future__ import annotations

import ipaddress
import re
import struct

from spec import cqllex
from spec.cqllex import LexError, Token, lex  # noqa: F401  (re-exported)


class ParseError(ValueError):
    pass


class Invalid(ValueError):
    """Cassandra would answer InvalidRequest for this literal/type combination"""


class Unsupported(ValueError):
    """the term needs something the model does not evaluate (unbound marker, unknown function, arithmetic)"""


SCALARS = frozenset(cqllex.NATIVE_TYPES)
_INT_RANGE = {"tinyint": 8, "smallint": 16, "int": 32, "bigint": 64, "counter": 64}
EMPTY = {"empty": True}


# =================================================================================================
# parser
# =================================================================================================
class Parser(object):
    def __init__(self, src, pos=0, arithmetic=False):
        self.tokens = lex(src) if isinstance(src, str) else list(src)
        self.pos = pos
        self.arithmetic = arithmetic

    # ---- token helpers
    def peek(self, k=0):
        i = self.pos + k
        return self.tokens[i] if i < len(self.tokens) else None

    def at_end(self):
        return self.pos >= len(self.tokens)

    def _err(self, what):
        t = self.peek()
        raise ParseError("%s at token %d (%s)" % (what, self.pos, "end of input" if t is None else "%s %r" % (t.kind, t.text)))

    def is_punct(self, p, k=0):
        t = self.peek(k)
        return t is not None and t.kind == "PUNCT" and t.value == p

    def accept(self, p):
        if self.is_punct(p):
            self.pos += 1
            return True
        return False

    def expect(self, p):
        if not self.accept(p):
            self._err("expected %r" % p)

    def is_kw(self, kw, k=0):
        t = self.peek(k)
        return t is not None and t.kind == "KEYWORD" and t.value == kw

    def accept_kw(self, kw):
        if self.is_kw(kw):
            self.pos += 1
            return True
        return False

    def expect_kw(self, kw):
        if not self.accept_kw(kw):
            self._err("expected %s" % kw)

    def is_ident(self, k=0):
        t = self.peek(k)
        return t is not None and cqllex.is_ident(t)

    def ident(self):
        t = self.peek()
        if t is None or not cqllex.is_ident(t):
            self._err("expected an identifier")
        self.pos += 1
        return cqllex.ident_value(t)

    # ---- types (comparatorType)
    def cql_type(self):
        t = self.peek()
        if t is None:
            self._err("expected a type")
        if t.kind == "STRING_LITERAL":
            self.pos += 1
            return {"t": "custom", "cls": t.value}
        if t.kind == "KEYWORD":
            low = t.value.lower()
            if low in SCALARS:
                self.pos += 1
                return {"t": low}
            if t.value in ("LIST", "SET") and self.is_punct("<", 1):
                self.pos += 1
                self.expect("<")
                of = self.cql_type()
                self.expect(">")
                return {"t": low, "of": of}
            if t.value == "MAP" and self.is_punct("<", 1):
                self.pos += 1
                self.expect("<")
                k = self.cql_type()
                self.expect(",")
                v = self.cql_type()
                self.expect(">")
                return {"t": "map", "k": k, "v": v}
            if t.value == "TUPLE" and self.is_punct("<", 1):
                self.pos += 1
                self.expect("<")
                subs = [self.cql_type()]
                while self.accept(","):
                    subs.append(self.cql_type())
                self.expect(">")
                return {"t": "tuple", "of": subs}
            if t.value == "FROZEN" and self.is_punct("<", 1):
                self.pos += 1
                self.expect("<")
                of = self.cql_type()
                self.expect(">")
                return {"t": "frozen", "of": of}
            if t.value == "VECTOR" and self.is_punct("<", 1):
                self.pos += 1
                self.expect("<")
                of = self.cql_type()
                self.expect(",")
                d = self.peek()
                if d is None or d.kind != "INTEGER" or d.value < 0:
                    self._err("expected a vector dimension")
                self.pos += 1
                self.expect(">")
                return {"t": "vector", "of": of, "dim": d.value}
        if cqllex.is_ident(t):
            # user type name, optionally keyspace-qualified
            name = self.ident()
            ks = None
            if self.is_punct(".") and self.is_ident(1):
                self.pos += 1
                ks, name = name, self.ident()
            return {"t": "udt", "ks": ks, "name": name, "fields": None}
        self._err("expected a type")

    # ---- terms
    def term(self):
        if self.arithmetic:
            return self._addition()
        return self._group()

    def _addition(self):
        left = self._multiplication()
        while self.is_punct("+") or self.is_punct("-"):
            op = self.peek().value
            self.pos += 1
            left = {"k": "op", "op": op, "l": left, "r": self._multiplication()}
        return left

    def _multiplication(self):
        left = self._group()
        while self.is_punct("*") or self.is_punct("/") or self.is_punct("%"):
            op = self.peek().value
            self.pos += 1
            left = {"k": "op", "op": op, "l": left, "r": self._group()}
        return left

    def _group(self):
        if self.is_punct("-"):
            nxt = self.peek(1)
            if nxt is not None and nxt.kind == "KEYWORD" and nxt.value in ("NAN", "INFINITY"):
                self.pos += 2
                return {"k": "float", "text": "-" + nxt.text}
            self.pos += 1
            return {"k": "neg", "term": self._simple()}
        return self._simple()

    def _starts_term(self, k):
        t = self.peek(k)
        if t is None:
            return False
        if t.kind in ("STRING_LITERAL", "INTEGER", "FLOAT", "BOOLEAN", "DURATION", "UUID", "HEXNUMBER", "QMARK",
                      "IDENT", "QUOTED_NAME"):
            return True
        if t.kind == "KEYWORD":
            return True      # NULL, NAN, INFINITY, TOKEN, or a function named by an unreserved keyword
        return t.kind == "PUNCT" and t.value in ("[", "{", "(", ":", "-")

    def _simple(self):
        t = self.peek()
        if t is None:
            self._err("expected a term")
        k = t.kind
        if k == "STRING_LITERAL":
            self.pos += 1
            return {"k": "string", "v": t.value}
        if k == "INTEGER":
            self.pos += 1
            return {"k": "integer", "text": t.text}
        if k == "FLOAT":
            self.pos += 1
            return {"k": "float", "text": t.text}
        if k == "BOOLEAN":
            self.pos += 1
            return {"k": "boolean", "v": bool(t.value)}
        if k == "DURATION":
            self.pos += 1
            return {"k": "duration", "text": t.text}
        if k == "UUID":
            self.pos += 1
            return {"k": "uuid", "text": t.value}
        if k == "HEXNUMBER":
            self.pos += 1
            return {"k": "hex", "text": t.text}
        if k == "QMARK":
            self.pos += 1
            return {"k": "bind", "name": None}
        if k == "KEYWORD":
            if t.value == "NULL":
                self.pos += 1
                return {"k": "null"}
            if t.value in ("NAN", "INFINITY") and not self.is_punct("(", 1):
                self.pos += 1
                return {"k": "float", "text": t.text}
        if k == "PUNCT":
            if t.value == ":":
                self.pos += 1
                return {"k": "bind", "name": self.ident()}
            if t.value == "[":
                self.pos += 1
                items = []
                if not self.accept("]"):
                    items.append(self.term())
                    while self.accept(","):
                        items.append(self.term())
                    self.expect("]")
                return {"k": "list", "items": items}
            if t.value == "{":
                return self._braces()
            if t.value == "(":
                return self._paren()
        # function call: [ks .] name ( args )
        if self._is_function_name(0) and self.is_punct("(", 1):
            return self._call(None)
        if self.is_ident(0) and self.is_punct(".", 1) and self._is_function_name(2) and self.is_punct("(", 3):
            ks = self.ident()
            self.pos += 1
            return self._call(ks)
        self._err("expected a term")

    def _is_function_name(self, k):
        t = self.peek(k)
        if t is None:
            return False
        if t.kind in ("IDENT", "QUOTED_NAME"):
            return True
        return t.kind == "KEYWORD" and (t.value not in cqllex.RESERVED or t.value == "TOKEN")

    def _call(self, ks):
        t = self.peek()
        self.pos += 1
        name = t.value if t.kind == "QUOTED_NAME" else t.text.lower()
        self.expect("(")
        args = []
        if not self.accept(")"):
            args.append(self.term())
            while self.accept(","):
                args.append(self.term())
            self.expect(")")
        return {"k": "call", "ks": ks, "name": name, "args": args}

    def _braces(self):
        self.expect("{")
        if self.accept("}"):
            return {"k": "set", "items": [], "braces": True}
        if self.is_ident(0) and self.is_punct(":", 1):
            fields = []
            while True:
                name = self.ident()
                self.expect(":")
                fields.append([name, self.term()])
                if not self.accept(","):
                    break
            self.expect("}")
            return {"k": "udt", "fields": fields}
        first = self.term()
        if self.accept(":"):
            items = [[first, self.term()]]
            while self.accept(","):
                kk = self.term()
                self.expect(":")
                items.append([kk, self.term()])
            self.expect("}")
            return {"k": "map", "items": items}
        items = [first]
        while self.accept(","):
            items.append(self.term())
        self.expect("}")
        return {"k": "set", "items": items}

    def _paren(self):
        # '(' comparatorType ')' simpleTerm   |   tuple literal
        save = self.pos
        self.expect("(")
        try:
            ty = self.cql_type()
            if self.accept(")") and self._starts_term(0):
                inner = self._group() if self.is_punct("-") else self._simple()
                return {"k": "hint", "type": ty, "term": inner}
        except ParseError:
            pass
        self.pos = save
        self.expect("(")
        items = [self.term()]
        while self.accept(","):
            items.append(self.term())
        self.expect(")")
        return {"k": "tuple", "items": items}


def parse_term(text, arithmetic=False):
    p = Parser(text, arithmetic=arithmetic)
    ast = p.term()
    if not p.at_end():
        p._err("unexpected input after the term")
    return ast


def parse_type(text):
    p = Parser(text)
    ty = p.cql_type()
    if not p.at_end():
        p._err("unexpected input after the type")
    return ty


_LITERAL_KINDS = frozenset(("string", "integer", "float", "boolean", "uuid", "hex", "duration", "null"))


def literal_only(ast):
    k = ast["k"]
    if k in _LITERAL_KINDS:
        return True
    if k in ("list", "set", "tuple"):
        return all(literal_only(x) for x in ast["items"])
    if k == "map":
        return all(literal_only(a) and literal_only(b) for a, b in ast["items"])
    if k == "udt":
        return all(literal_only(v) for _n, v in ast["fields"])
    return False


def type_name(tree):
    """CQL text of a type tree (UDT names always quoted when needed)"""
    t = tree["t"]
    if t in SCALARS:
        return t
    if t in ("list", "set", "frozen"):
        return "%s<%s>" % (t, type_name(tree["of"]))
    if t == "map":
        return "map<%s, %s>" % (type_name(tree["k"]), type_name(tree["v"]))
    if t == "tuple":
        return "tuple<%s>" % ", ".join(type_name(c) for c in tree["of"])
    if t == "vector":
        return "vector<%s, %d>" % (type_name(tree["of"]), tree["dim"])
    if t == "reversed":
        return type_name(tree["of"])
    if t == "custom":
        return cqllex.quote_string(tree["cls"])
    if t == "udt":
        n = tree["name"] if not cqllex.needs_quotes(tree["name"]) else cqllex.quote_ident(tree["name"])
        if tree.get("ks"):
            k = tree["ks"] if not cqllex.needs_quotes(tree["ks"]) else cqllex.quote_ident(tree["ks"])
            return k + "." + n
        return n
    raise ValueError(t)


def _rid(name):
    return name if not cqllex.needs_quotes(name) else cqllex.quote_ident(name)


def render(ast):
    k = ast["k"]
    if k == "string":
        return cqllex.quote_string(ast["v"])
    if k in ("integer", "float", "hex", "duration", "uuid"):
        return ast["text"]
    if k == "boolean":
        return "true" if ast["v"] else "false"
    if k == "null":
        return "NULL"
    if k == "bind":
        return "?" if ast["name"] is None else ":" + _rid(ast["name"])
    if k == "list":
        return "[%s]" % ", ".join(render(x) for x in ast["items"])
    if k == "set":
        return "{%s}" % ", ".join(render(x) for x in ast["items"])
    if k == "map":
        return "{%s}" % ", ".join("%s: %s" % (render(a), render(b)) for a, b in ast["items"])
    if k == "tuple":
        return "(%s)" % ", ".join(render(x) for x in ast["items"])
    if k == "udt":
        return "{%s}" % ", ".join("%s: %s" % (_rid(n), render(v)) for n, v in ast["fields"])
    if k == "call":
        return "%s%s(%s)" % ((_rid(ast["ks"]) + ".") if ast["ks"] else "", _rid(ast["name"]) if ast["name"] != "token" else "token",
                             ", ".join(render(x) for x in ast["args"]))
    if k == "hint":
        return "(%s)%s" % (type_name(ast["type"]), render(ast["term"]))
    if k == "neg":
        return "- %s" % render(ast["term"])
    if k == "op":
        return "%s %s %s" % (render(ast["l"]), ast["op"], render(ast["r"]))
    raise ValueError(k)


# =================================================================================================
# denotation
# =================================================================================================
def _days_from_civil(y, m, d):
    """proleptic Gregorian days since 1970-01-01 (any year), independent of datetime"""
    y -= m <= 2
    era = y // 400
    yoe = y - era * 400
    doy = (153 * (m + (-3 if m > 2 else 9)) + 2) // 5 + d - 1
    doe = yoe * 365 + yoe // 4 - yoe // 100 + doy
    return era * 146097 + doe - 719468


def _valid_date(y, m, d):
    if not 1 <= m <= 12 or d < 1:
        return False
    leap = (y % 4 == 0 and y % 100 != 0) or y % 400 == 0
    return d <= (31, 29 if leap else 28, 31, 30, 31, 30, 31, 31, 30, 31, 30, 31)[m - 1]


_RE_DATE = re.compile(r"([+-]?)(\d{4,9})-(\d{2})-(\d{2})\Z")
_RE_RAW = re.compile(r"-?\d+\Z")
_RE_TS = re.compile(r"(\d{4})-(\d{2})-(\d{2})"
                    r"(?:[ T](\d{2}):(\d{2})(?::(\d{2})(?:\.(\d{1,9}))?)?)?"
                    r"\s?(Z|UTC|GMT|[+-]\d{2}(?::?\d{2})?)?\Z")


def parse_date_string(s):
    """SimpleDateSerializer.dateStringToDays: raw unsigned day number (epoch at 2**31) or yyyy-mm-dd -> days since epoch"""
    if _RE_RAW.match(s):
        raw = int(s)
        if not 0 <= raw <= 2 ** 32 - 1:
            raise Invalid("date %r out of range" % s)
        return raw - 2 ** 31
    m = _RE_DATE.match(s)
    if not m:
        raise Invalid("unable to coerce %r to a date" % s)
    y = int(m.group(2)) * (-1 if m.group(1) == "-" else 1)
    mo, d = int(m.group(3)), int(m.group(4))
    if not _valid_date(y, mo, d):
        raise Invalid("invalid calendar date %r" % s)
    days = _days_from_civil(y, mo, d)
    if not -2 ** 31 <= days <= 2 ** 31 - 1:
        raise Invalid("date %r out of range" % s)
    return days


def parse_time_string(s):
    """TimeSerializer.timeStringToLong: raw nanoseconds or hh:mm:ss[.fffffffff]"""
    if _RE_RAW.match(s):
        n = int(s)
        if not 0 <= n <= 86399999999999:
            raise Invalid("time %r out of range" % s)
        return n
    m = re.match(r"(\d+):(\d+):(\d+)(?:\.(\d{1,9}))?\Z", s)
    if not m:
        raise Invalid("time %r is not hh:mm:ss[.fffffffff]" % s)
    h, mi, sec = int(m.group(1)), int(m.group(2)), int(m.group(3))
    if h > 23 or mi > 59 or sec > 59:
        raise Invalid("time %r out of range" % s)
    frac = (m.group(4) or "").ljust(9, "0")
    return ((h * 60 + mi) * 60 + sec) * 10 ** 9 + int(frac)


def parse_timestamp_string(s):
    """TimestampSerializer.dateStringToTimestamp (UTC when no zone is given) -> milliseconds"""
    if _RE_RAW.match(s):
        v = int(s)
        if not -2 ** 63 <= v < 2 ** 63:
            raise Invalid("timestamp %r out of range" % s)
        return v
    m = _RE_TS.match(s)
    if not m:
        raise Invalid("unable to parse %r as a timestamp" % s)
    y, mo, d = int(m.group(1)), int(m.group(2)), int(m.group(3))
    if not _valid_date(y, mo, d):
        raise Invalid("invalid calendar date in %r" % s)
    h, mi, sec = int(m.group(4) or 0), int(m.group(5) or 0), int(m.group(6) or 0)
    if h > 23 or mi > 59 or sec > 59:
        raise Invalid("time of day out of range in %r" % s)
    frac = m.group(7)
    if frac is not None and len(frac) != 3:
        # SSS with another digit count is read differently by different Cassandra versions
        raise Invalid("fraction of %r is not exactly 3 digits (millisecond) -- reading is version dependent" % s)
    ms = int(frac or 0)
    off = 0
    z = m.group(8)
    if z and z not in ("Z", "UTC", "GMT"):
        sign = -1 if z[0] == "-" else 1
        digits = z[1:].replace(":", "")
        off = sign * (int(digits[:2]) * 60 + int(digits[2:4] or 0))
    return ((_days_from_civil(y, mo, d) * 24 + h) * 60 + mi - off) * 60000 + sec * 1000 + ms


_UNITS = {"y": ("m", 12), "mo": ("m", 1), "w": ("d", 7), "d": ("d", 1), "h": ("n", 3600 * 10 ** 9), "m": ("n", 60 * 10 ** 9),
          "s": ("n", 10 ** 9), "ms": ("n", 10 ** 6), "us": ("n", 1000), "µs": ("n", 1000), "ns": ("n", 1)}


def parse_duration(text):
    """Duration.from: [months, days, nanoseconds]"""
    s = text
    neg = s.startswith("-")
    if neg:
        s = s[1:]
    months = days = nanos = 0
    if s.startswith("P"):
        m = re.match(r"P(\d{4})-(\d{2})-(\d{2})T(\d{2}):(\d{2}):(\d{2})\Z", s)
        if m:
            g = [int(x) for x in m.groups()]
            months, days = g[0] * 12 + g[1], g[2]
            nanos = ((g[3] * 60 + g[4]) * 60 + g[5]) * 10 ** 9
        else:
            m = re.match(r"P(\d+)W\Z", s)
            if m:
                days = int(m.group(1)) * 7
            else:
                m = re.match(r"P(?:(\d+)Y)?(?:(\d+)M)?(?:(\d+)D)?(?:T(?:(\d+)H)?(?:(\d+)M)?(?:(\d+)S)?)?\Z", s)
                if not m or s in ("P", "PT"):
                    raise Invalid("unable to convert %r to a duration" % text)
                g = [int(x or 0) for x in m.groups()]
                months, days = g[0] * 12 + g[1], g[2]
                nanos = ((g[3] * 60 + g[4]) * 60 + g[5]) * 10 ** 9
    else:
        pos = 0
        for m in re.finditer(r"(\d+)(mo|ms|us|µs|ns|y|w|d|h|m|s)", s.lower()):
            if m.start() != pos:
                raise Invalid("unable to convert %r to a duration" % text)
            pos = m.end()
            which, mult = _UNITS[m.group(2)]
            v = int(m.group(1)) * mult
            if which == "m":
                months += v
            elif which == "d":
                days += v
            else:
                nanos += v
        if pos != len(s) or pos == 0:
            raise Invalid("unable to convert %r to a duration" % text)
    if months > 2 ** 31 - 1 or days > 2 ** 31 - 1 or nanos > 2 ** 63 - 1:
        raise Invalid("duration %r out of range" % text)
    if neg:
        months, days, nanos = -months, -days, -nanos
    return [months, days, nanos]


def _decimal_from_text(text):
    """new BigDecimal(text): exact [sign, digits, exponent]"""
    m = re.match(r"([+-]?)(\d*)(?:\.(\d*))?(?:[eE]([+-]?\d+))?\Z", text)
    if not m or not (m.group(2) or m.group(3)):
        raise Invalid("unable to make a decimal from %r" % text)
    ip, fp = m.group(2) or "", m.group(3) or ""
    exp = int(m.group(4) or 0) - len(fp)
    # BigDecimal keeps the scale as written: 1.50 -> unscaled 150, scale 2
    digits = (ip + fp).lstrip("0") or "0"
    return [1 if m.group(1) == "-" else 0, digits, exp]


def _float_tag(f):
    if f != f:
        return "nan"
    if f == float("inf"):
        return "inf"
    if f == float("-inf"):
        return "-inf"
    return f


def _to_float(text, width):
    """Double.valueOf / Float.valueOf of the literal text"""
    body = text[1:] if text[:1] in "+-" else text
    if body[:1].isalpha():
        # Java accepts exactly "NaN" and "Infinity" (case-sensitive)
        if body == "NaN":
            return "nan"
        if body == "Infinity":
            return "-inf" if text[0] == "-" else "inf"
        raise Invalid("unable to make a float from %r (Java accepts only NaN / Infinity in this spelling)" % text)
    try:
        f = float(text)
    except ValueError:
        raise Invalid("unable to make a float from %r" % text)
    if width == 32:
        try:
            f = struct.unpack(">f", struct.pack(">f", f))[0]
        except OverflowError:
            f = float("inf") if f > 0 else float("-inf")
    return _float_tag(f)


def _scalar(ast, t):
    k = ast["k"]
    if k == "string":
        s = ast["v"]
        if t in ("text", "varchar"):
            return s
        if t == "ascii":
            if not s.isascii():
                raise Invalid("non-ASCII character in an ascii literal")
            return s
        if t not in ("inet", "timestamp", "date", "time"):
            raise Invalid("a string literal is not assignable to %s" % t)
        if s == "":
            return dict(EMPTY)
        if t == "inet":
            try:
                return str(ipaddress.ip_address(s))
            except ValueError:
                raise Invalid("unable to make an inet address from %r" % s)
        if t == "timestamp":
            return parse_timestamp_string(s)
        if t == "date":
            return parse_date_string(s)
        return parse_time_string(s)
    if k == "integer":
        text = ast["text"]
        n = int(text)
        if t in _INT_RANGE:
            bits = _INT_RANGE[t]
            if not -(1 << (bits - 1)) <= n < (1 << (bits - 1)):
                raise Invalid("%s out of range for %s" % (text, t))
            return n
        if t == "varint":
            return n
        if t == "decimal":
            return _decimal_from_text(text)
        if t == "double":
            return _to_float(text, 64)
        if t == "float":
            return _to_float(text, 32)
        if t == "timestamp":
            return parse_timestamp_string(text)
        if t == "date":
            return parse_date_string(text)
        if t == "time":
            return parse_time_string(text)
        raise Invalid("an integer literal is not assignable to %s" % t)
    if k == "float":
        text = ast["text"]
        if t == "double":
            return _to_float(text, 64)
        if t == "float":
            return _to_float(text, 32)
        if t == "decimal":
            if text.lstrip("-")[:1].isalpha():
                raise Invalid("%s is not a decimal" % text)
            return _decimal_from_text(text)
        raise Invalid("a float literal is not assignable to %s" % t)
    if k == "boolean":
        if t != "boolean":
            raise Invalid("a boolean literal is not assignable to %s" % t)
        return ast["v"]
    if k == "uuid":
        if t == "uuid":
            return ast["text"].replace("-", "").lower()
        if t == "timeuuid":
            h = ast["text"].replace("-", "").lower()
            if h[12] != "1":
                raise Invalid("%s is not a version 1 UUID" % ast["text"])
            return h
        raise Invalid("a uuid literal is not assignable to %s" % t)
    if k == "hex":
        if t != "blob":
            raise Invalid("a blob literal is not assignable to %s" % t)
        h = ast["text"][2:]
        if len(h) % 2:
            raise Invalid("blob literal %s has an odd number of digits" % ast["text"])
        return h.lower()
    if k == "duration":
        if t != "duration":
            raise Invalid("a duration literal is not assignable to %s" % t)
        return parse_duration(ast["text"])
    raise Invalid("%s is not assignable to %s" % (k, t))


def denote(ast, tree, binds=None, functions=None):
    """Cassandra's reading of `ast` for a column of type `tree`.

    binds: list (positional, consumed left to right through a private cursor) or dict (named) of tagged values.
    functions: {name: fn(args_asts, tree, denote_fn) -> tagged value}."""
    cursor = [0]

    def go(a, ty):
        t = ty["t"]
        if t in ("frozen", "reversed"):
            return go(a, ty["of"])
        k = a["k"]
        if k == "null":
            return None
        if k == "bind":
            if a["name"] is None:
                if not isinstance(binds, (list, tuple)) or cursor[0] >= len(binds):
                    raise Unsupported("unbound positional marker")
                v = binds[cursor[0]]
                cursor[0] += 1
                return v
            if not isinstance(binds, dict) or a["name"] not in binds:
                raise Unsupported("unbound marker :%s" % a["name"])
            return binds[a["name"]]
        if k == "call":
            fn = (functions or {}).get(a["name"])
            if fn is None:
                raise Unsupported("function %s()" % a["name"])
            return fn(a["args"], ty, go)
        if k == "hint":
            if _core_name(a["type"]) != _core_name(ty):
                raise Invalid("type hint %s on a %s column" % (type_name(a["type"]), type_name(ty)))
            return go(a["term"], ty)
        if k in ("neg", "op"):
            raise Unsupported("arithmetic")
        if t in SCALARS:
            if k in ("list", "set", "map", "tuple", "udt"):
                raise Invalid("a %s literal is not assignable to %s" % (k, t))
            return _scalar(a, t)
        if t == "custom":
            raise Unsupported("custom type")
        if t in ("list", "vector"):
            if k != "list":
                raise Invalid("a %s literal is not assignable to %s" % (k, type_name(ty)))
            if t == "vector" and len(a["items"]) != ty["dim"]:
                raise Invalid("vector literal has %d elements, the type wants %d" % (len(a["items"]), ty["dim"]))
            return [_no_null(go(x, ty["of"]), x, t) for x in a["items"]]
        if t == "set":
            if k != "set":
                raise Invalid("a %s literal is not assignable to %s" % (k, type_name(ty)))
            return [_no_null(go(x, ty["of"]), x, t) for x in a["items"]]
        if t == "map":
            if k == "set" and not a["items"]:
                return []
            if k != "map":
                raise Invalid("a %s literal is not assignable to %s" % (k, type_name(ty)))
            return [[_no_null(go(kk, ty["k"]), kk, t), _no_null(go(vv, ty["v"]), vv, t)] for kk, vv in a["items"]]
        if t == "tuple":
            if k != "tuple":
                raise Invalid("a %s literal is not assignable to %s" % (k, type_name(ty)))
            if len(a["items"]) > len(ty["of"]):
                raise Invalid("tuple literal has too many elements")
            return [go(x, sub) for x, sub in zip(a["items"], ty["of"])]
        if t == "udt":
            if k != "udt" and not (k == "set" and not a["items"]):
                raise Invalid("a %s literal is not assignable to user type %s" % (k, ty["name"]))
            if ty.get("fields") is None:
                raise Unsupported("user type %s without field definitions" % ty["name"])
            given = {}
            for n, v in (a.get("fields") or []):
                if n in given:
                    raise Invalid("duplicate field %s in user type literal" % n)
                given[n] = v
            names = [f[0] for f in ty["fields"]]
            for n in given:
                if n not in names:
                    raise Invalid("unknown field %s in literal of user type %s" % (n, ty["name"]))
            return [go(given[n], sub) if n in given else None for n, sub in ty["fields"]]
        raise ValueError("unknown type node %r" % (t,))

    return go(ast, tree)


def _no_null(v, a, where):
    if v is None and a["k"] == "null":
        raise Invalid("null is not supported inside a %s" % where)
    return v


def _core_name(ty):
    while ty["t"] in ("frozen", "reversed"):
        ty = ty["of"]
    return type_name(ty)


def infer_type(ast):
    """the natural type of a literal when nothing else is known (None for null / markers / calls)"""
    k = ast["k"]
    simple = {"string": "text", "integer": "varint", "float": "double", "boolean": "boolean", "uuid": "uuid",
              "hex": "blob", "duration": "duration"}
    if k in simple:
        return {"t": simple[k]}
    if k == "hint":
        return ast["type"]
    if k in ("list", "set"):
        subs = [infer_type(x) for x in ast["items"]]
        subs = [s for s in subs if s is not None]
        return {"t": k, "of": subs[0]} if subs else None
    if k == "map":
        ks = [s for s in (infer_type(a) for a, _b in ast["items"]) if s is not None]
        vs = [s for s in (infer_type(b) for _a, b in ast["items"]) if s is not None]
        return {"t": "map", "k": ks[0], "v": vs[0]} if ks and vs else None
    if k == "tuple":
        subs = [infer_type(x) for x in ast["items"]]
        return {"t": "tuple", "of": subs} if all(s is not None for s in subs) else None
    return None


# =================================================================================================
# value equality as Cassandra sees it
# =================================================================================================
def _is_empty(v):
    return isinstance(v, dict) and v.get("empty") is True


def _cmp_key(ty, v):
    """canonical, hashable-by-json form such that two tagged values denote the same Cassandra value iff keys are equal"""
    import json
    if v is None:
        return None
    if _is_empty(v):
        return "<empty>"
    t = ty["t"]
    if t in ("frozen", "reversed"):
        return _cmp_key(ty["of"], v)
    if t in ("float", "double"):
        f = {"nan": float("nan"), "inf": float("inf"), "-inf": float("-inf")}[v] if isinstance(v, str) else float(v)
        if f != f:
            return "nan"
        return struct.pack(">d", f).hex()
    if t == "decimal":
        sign, digits, exp = v
        digits = str(int(digits))
        stripped = digits.rstrip("0")
        if stripped == "":
            return ["dec", 0, "0", 0]
        return ["dec", int(sign), stripped, int(exp) + len(digits) - len(stripped)]
    if t == "inet":
        return str(ipaddress.ip_address(v))
    if t in ("uuid", "timeuuid", "blob"):
        return v.lower().replace("-", "")
    if t == "duration":
        return [int(x) for x in v]
    if t in SCALARS:
        return v
    if t in ("list", "vector"):
        return [_cmp_key(ty["of"], x) for x in v]
    if t == "set":
        ks = [_cmp_key(ty["of"], x) for x in v]
        uniq = {json.dumps(x, sort_keys=True): x for x in ks}
        return [uniq[s] for s in sorted(uniq)]
    if t == "map":
        prs = {}
        for kk, vv in v:
            prs[json.dumps(_cmp_key(ty["k"], kk), sort_keys=True)] = [_cmp_key(ty["k"], kk), _cmp_key(ty["v"], vv)]
        return [prs[s] for s in sorted(prs)]
    if t in ("tuple", "udt"):
        subs = ty["of"] if t == "tuple" else [f[1] for f in ty["fields"]]
        out = [_cmp_key(sub, x) for sub, x in zip(subs, v)]
        out += [None] * (len(subs) - len(out))
        if len(v) > len(subs):
            out.append("<extra>")
        return out
    raise ValueError(t)


def same_value(tree, a, b):
    return _cmp_key(tree, a) == _cmp_key(tree, b)


# =================================================================================================
# self test (fixed vectors; a disagreement is a harness error, not a finding)
# =================================================================================================
_T = lambda n: {"t": n}  # noqa: E731
_VECTORS = [
    ("'it''s'", _T("text"), "it's"),
    ("$$a'b$$", _T("text"), "a'b"),
    ("-12", _T("int"), -12),
    ("1.50", _T("decimal"), [0, "150", -2]),
    ("1E+400", _T("decimal"), [0, "1", 400]),
    ("NaN", _T("double"), "nan"),
    ("-Infinity", _T("double"), "-inf"),
    ("1e16", _T("double"), 1e16),
    ("0xCAFE", _T("blob"), "cafe"),
    ("true", _T("boolean"), True),
    ("1577934245678", _T("timestamp"), 1577934245678),
    ("'2020-01-02 03:04:05.678+0000'", _T("timestamp"), 1577934245678),
    ("'2020-01-02T03:04:05.678Z'", _T("timestamp"), 1577934245678),
    ("'1970-01-01'", _T("date"), 0),
    ("2147483648", _T("date"), 0),
    ("'0001-01-01'", _T("date"), -719162),
    ("'00:00:01.000000001'", _T("time"), 1000000001),
    ("'::ffff:1.2.3.4'", _T("inet"), "::ffff:102:304"),
    ("1y2mo3w4d5h6m7s8ms9us10ns", _T("duration"), [14, 25, 18367008009010]),
    ("-PT1H", _T("duration"), [0, 0, -3600000000000]),
    ("[1, 2]", {"t": "list", "of": _T("int")}, [1, 2]),
    ("{}", {"t": "map", "k": _T("int"), "v": _T("text")}, []),
    ("{1: 'a'}", {"t": "frozen", "of": {"t": "map", "k": _T("int"), "v": _T("text")}}, [[1, "a"]]),
    ("(1, null)", {"t": "tuple", "of": [_T("int"), _T("text")]}, [1, None]),
    ("{b: 2}", {"t": "udt", "ks": "k", "name": "u", "fields": [["a", _T("int")], ["b", _T("int")]]}, [None, 2]),
    ("[0.5, 1]", {"t": "vector", "of": _T("float"), "dim": 2}, [0.5, 1.0]),
]
_REJECTED = [("'a'", _T("int")), ("1", _T("text")), ("nan", _T("double")), ("0xABC", _T("blob")), ("'999-12-31'", _T("date")),
             ("[null]", {"t": "list", "of": _T("int")}), ("1.5", _T("int")), ("128", _T("tinyint")), ("'24:00:00'", _T("time")),
             ("Infinity", _T("decimal"))]
_NOT_ONE_TERM = ["1 2", "'a' OR 'b'", "x", "1; DROP TABLE t", "'a", "2020-01-01", "[1,]", "{'a': }", "b'00'", "1 -- c\n2", ""]


def self_test():
    for text, tree, want in _VECTORS:
        ast = parse_term(text)
        assert parse_term(render(ast)) == ast, text
        got = denote(ast, tree)
        assert same_value(tree, got, want), (text, got, want)
    for text, tree in _REJECTED:
        try:
            denote(parse_term(text), tree)
        except Invalid:
            continue
        raise AssertionError("%r should be rejected for %s" % (text, type_name(tree)))
    for text in _NOT_ONE_TERM:
        try:
            parse_term(text)
        except ValueError:
            continue
        raise AssertionError("%r should not parse as one term" % (text,))
    assert parse_type("map<text, frozen<list<int>>>") == {"t": "map", "k": _T("text"), "v": {"t": "frozen", "of": {"t": "list", "of": _T("int")}}}
    assert type_name(parse_type('frozen<ks."My Type">')) == 'frozen<ks."My Type">'
    return True
